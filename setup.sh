#!/bin/sh
# Offline setup: optional pure-python contract library next to the repo's interpreter (git-ignored .deps).
HERE="$(cd "$(dirname "$0")" && pwd)"
mkdir -p "$HERE/.deps" "$HERE/evidence" "$HERE/replays"
if [ ! -d "$HERE/.deps/icontract" ]; then
  /venv/bin/pip install -q --no-index --find-links /opt/veriftools/wheels --target "$HERE/.deps" icontract >/dev/null 2>&1 || echo "setup: icontract not installed (checks fall back to plain wrappers)"
fi
/venv/bin/python -c "import pydantic, httpx" || exit 1
echo "setup ok"
