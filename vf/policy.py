"""Retry-policy ASTs shared by the engine checks.

policy AST: {"retry": <retry AST>|None, "wait": <wait AST>, "stop": <stop AST>}  (ASTs as in vf.checks.C07)
or {"legacy": "constant"|"exponential", ...}.
"""
from __future__ import annotations

from vf.checks.C07 import (  # noqa: F401  (re-exported)
    EXC_TYPES,
    bounds_wait,
    build_retry,
    build_stop,
    build_wait,
    model_retry,
    model_stop,
)


def build(ast):
    import workflows.retry_policy as rp

    if ast is None:
        return None
    if "legacy" in ast:
        if ast["legacy"] == "constant":
            return rp.ConstantDelayRetryPolicy(maximum_attempts=ast["n"], delay=ast["delay"])
        return rp.ExponentialBackoffRetryPolicy(maximum_attempts=ast["n"], initial_delay=ast["initial"],
                                                multiplier=ast["mult"], max_delay=ast["max"], jitter=False)
    kw = {}
    if ast.get("retry") is not None:
        kw["retry"] = build_retry(ast["retry"], rp)
    if ast.get("wait") is not None:
        kw["wait"] = build_wait(ast["wait"], rp)
    if ast.get("stop") is not None:
        kw["stop"] = build_stop(ast["stop"], rp)
    return rp.retry_policy(**kw)


def simple(n_attempts: int, delay: float = 0.0):
    """stop_after_attempt(n) with a fixed delay."""
    return {"wait": {"k": "fixed", "w": delay}, "stop": {"k": "attempt", "n": n_attempts}}
