"""Regenerate MANIFEST.json from the metadata of vf/checks/C*.py.  Run: /venv/bin/python vf/gen_manifest.py"""
from __future__ import annotations

import glob
import importlib
import json
import os
import sys

VERIF = os.path.dirname(os.path.dirname(os.path.abspath(__file__)))
sys.path.insert(0, VERIF)

NOT_APPLICABLE_REASONS: dict[str, str] = {}
PENDING = "check not yet built in this tree (runtime-monitoring design exists in DESIGN.md §5); not claimed until its monitor has been run silent on the unchanged tree"


def main() -> None:
    props = [json.loads(l) for l in open(os.path.join(VERIF, "properties.jsonl"))]
    ids = [p["id"] for p in props]
    built = sorted(os.path.basename(p)[:-3] for p in glob.glob(os.path.join(VERIF, "vf", "checks", "C*.py")))
    # only checks that were run silent on the unchanged tree and mutation-tested are registered
    reg = {l.split()[0] for l in open(os.path.join(VERIF, "vf", "registered.txt")) if l.strip() and not l.startswith("#")}
    built = [b for b in built if b in reg]
    checks = []
    served = []
    for cid in built:
        mod = importlib.import_module(f"vf.checks.{cid}")
        if getattr(mod, "DISABLED", None):
            NOT_APPLICABLE_REASONS[cid] = mod.DISABLED
            continue
        served.append(cid)
        checks.append({
            "property_id": cid,
            "quick_cmd": f"./check {cid} quick",
            "thorough_cmd": f"./check {cid} thorough",
            "evidence_file": f"/verif/evidence/{cid}.json",
            "replay_cmd_template": f"./check {cid} --replay {{path}}",
            "engine": "vf",
            "level_claimed": {"category": mod.LEVEL, "text": mod.LEVEL_TEXT, "design_ref": mod.DESIGN_REF},
            "level_note": mod.LEVEL_NOTE,
            "technique": mod.TECHNIQUE,
        })
    na = []
    for cid in ids:
        if cid not in served:
            na.append({"property_id": cid, "reason": NOT_APPLICABLE_REASONS.get(cid, PENDING)})
    hooks_path = os.path.join(VERIF, "hooks.json")
    hooks = json.load(open(hooks_path)) if os.path.exists(hooks_path) else {}
    manifest = {
        "version": 1,
        "setup_cmd": "./setup.sh",
        "hooks": {
            "guard": "WORKFLOWS_PY_VERIF",
            "enable": hooks.get("enable", "no repository hooks: probes are attached from /verif at import time (wrapping class attributes / module globals the code looks up at call time); WORKFLOWS_PY_VERIF is reserved"),
            "baseline_off_cmd": "cd /repo && /venv/bin/python -m pytest -ra -q -p no:cacheprovider --timeout=900 --continue-on-collection-errors",
            "source_commits": hooks.get("source_commits", []),
            "add_only": True,
        },
        "engines": [{
            "name": "vf",
            "path": "vf/",
            "serves_properties": served,
            "kind_free_text": "runtime monitoring harness: generated/hostile workloads on the real code under a virtual-time asyncio loop, probes attached from outside, reference-model and history oracles, fault/crash injection",
        }],
        "checks": checks,
        "notes": "All checks: ./check <ID> <quick|thorough>; exit 0 held on what was observed, 1 VIOLATION, 2 inconclusive. Known findings: known_findings.json. See DESIGN.md.",
        "not_applicable": na,
    }
    with open(os.path.join(VERIF, "MANIFEST.json"), "w") as f:
        json.dump(manifest, f, indent=1)
    print(f"MANIFEST.json: {len(checks)} checks, {len(na)} not_applicable")


if __name__ == "__main__":
    main()
