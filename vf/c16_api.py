"""C16, API layer: GET /events/{handler_id} of the real _WorkflowAPI (starlette shim + streaming ASGI transport).

The real `_stream_events` / `_resolve_event_stream` run over a real store; the
service object is a 3-attribute stand-in (`store`, `start`, `stop`) because the
endpoint only touches `self._service.store`.  Events are appended directly to the
store while HTTP streams are open.  Oracle (from the property statement and the
endpoint's documented parameters): the ids on the wire are the stored sequences of
exactly the events above the effective cursor (numeric `after_sequence`, "now" =
last stored sequence at request time, SSE `Last-Event-ID` wins over the query
parameter), in order, once, ending right after the terminal event; internal events
are hidden unless requested; a client that reconnects with the last id it saw gets
the uninterrupted stream.  All violations carry "layer": "api".
"""
from __future__ import annotations

import json
import os
from types import SimpleNamespace

HID, RID = "h-1", "r-1"
TERM_TYPES = [("StopEvent", []), ("WorkflowCancelledEvent", ["StopEvent"]), ("MyStop", ["StopEvent"])]


def _events_plan(case):
    n = case["n_pre"] + case["n_live"]
    out = []
    for i in range(n):
        term = (case["term"] == "pre" and case["n_pre"] > 0 and i == case["n_pre"] - 1 and case["n_live"] == 0) or \
               (case["term"] == "live" and case["n_live"] > 0 and i == n - 1)
        out.append({"uid": i, "term": term, "internal": (i in case["internal_at"]) and not term})
    return out


def _req_params(req):
    """-> (query dict, headers dict)"""
    q, hd = {}, {}
    m = req["mode"]
    if m == "num":
        q["after_sequence"] = str(req["k"])
    elif m == "now":
        q["after_sequence"] = "now" if req["k"] % 2 else "NOW"
    elif m == "lei":
        hd["Last-Event-ID"] = str(req["k"])
    elif m == "lei_and_num":
        hd["Last-Event-ID"] = str(req["k"])
        q["after_sequence"] = str(req["k2"])
    elif m == "lei_bad":
        hd["Last-Event-ID"] = "abc"
        q["after_sequence"] = str(req["k2"])
    q["sse"] = "true" if req["sse"] else "false"
    if req["internal"]:
        q["include_internal"] = "true"
    return q, hd


def effective_cursors(req, stored_at_request: int) -> list[int]:
    """Every cursor the documentation allows for this request (usually one)."""
    now = stored_at_request - 1
    m = req["mode"]
    query = {"num": req["k"], "now": now, "default": now, "lei": now, "lei_and_num": req["k2"], "lei_bad": req["k2"]}[m]
    if m in ("lei", "lei_and_num"):
        if req["sse"]:
            return [req["k"]]
        return [query, req["k"]]  # NDJSON: the header is documented for SSE only -> accept both readings
    return [query]


def run_api(case: dict, tmp: str) -> dict:
    import asyncio

    import httpx
    from llama_agents.client.protocol.serializable_events import EventEnvelopeWithMetadata as Env
    from llama_agents.server._api import _WorkflowAPI
    from llama_agents.server._store.abstract_workflow_store import PersistentHandler
    from llama_agents.server._store.memory_workflow_store import MemoryWorkflowStore
    from llama_agents.server._store.sqlite.sqlite_workflow_store import SqliteWorkflowStore

    from vf import vclock
    from vf.asgi_transport import ASGIStreamTransport

    plan = _events_plan(case)
    obs: dict = {"reqs": [], "error": None}

    async def anoop():
        return None

    async def main():
        if case["backend"] == "memory":
            store = MemoryWorkflowStore()
        else:
            path = os.path.join(tmp, "api.db")
            for suffix in ("", "-wal", "-shm", "-journal"):
                try:
                    os.unlink(path + suffix)
                except FileNotFoundError:
                    pass
            store = SqliteWorkflowStore(path, poll_interval=case["poll"])
            import sqlite3

            keeper = sqlite3.connect(path, timeout=30.0)  # harness-side: keeps the WAL attached (speed only)
            keeper.execute("SELECT count(*) FROM sqlite_master").fetchall()
        limit = len(plan) + 3

        class GuardStore:
            """Harness proxy at the store interface: identical behaviour, but a subscription that delivers more
            events than were ever stored is stopped (otherwise the server-side feeder would spin forever)."""

            def __getattr__(self, name):
                return getattr(store, name)

            async def subscribe_events(self, run_id, after_sequence=-1):
                n = 0
                async for ev in store.subscribe_events(run_id, after_sequence=after_sequence):
                    n += 1
                    if n > limit:
                        obs["runaway"] = True
                        raise RuntimeError("runaway subscription")
                    yield ev

        api = _WorkflowAPI(SimpleNamespace(store=GuardStore(), start=anoop, stop=anoop),
                           sse_heartbeat_interval=case.get("hb"))
        await store.update(PersistentHandler(handler_id=HID, workflow_name="wf", run_id=RID,
                                             status="completed" if case["status_terminal"] else "running"))
        stored = [0]

        async def append(e):
            if e["term"]:
                typ, types = TERM_TYPES[e["uid"] % len(TERM_TYPES)]
            elif e["internal"]:
                typ, types = "StepStateChanged", ["InternalDispatchEvent"]
            else:
                typ, types = "Progress", []
            stored[0] += 1
            await store.append_event(RID, Env(value={"uid": e["uid"]}, qualified_name="x.y." + typ, type=typ, types=types))

        for e in plan[: case["n_pre"]]:
            await append(e)
        client = httpx.AsyncClient(transport=ASGIStreamTransport(api.app), base_url="http://testserver")

        async def one_connection(rec, query, headers, cut):
            conn = {"query": query, "headers": headers, "status": None, "items": [], "ended": False,
                    "stored_at_request": stored[0], "heartbeats": 0, "ctype": None}
            rec["conns"].append(conn)
            async with client.stream("GET", f"/events/{HID}", params=query, headers=headers) as resp:
                conn["status"] = resp.status_code
                conn["ctype"] = resp.headers.get("content-type")
                if resp.status_code != 200:
                    await resp.aread()
                    conn["ended"] = True
                    return conn
                buf = ""
                sse = query["sse"] == "true"
                sep = "\n\n" if sse else "\n"
                async for chunk in resp.aiter_text():
                    buf += chunk
                    while sep in buf:
                        block, buf = buf.split(sep, 1)
                        if sse:
                            item = {"id": None, "data": None}
                            for ln in block.split("\n"):
                                if ln.startswith(":"):
                                    conn["heartbeats"] += 1
                                elif ln.startswith("id: "):
                                    item["id"] = ln[4:]
                                elif ln.startswith("data: "):
                                    item["data"] = ln[6:]
                            if item["data"] is None:
                                continue
                        else:
                            if not block.strip():
                                continue
                            item = {"id": None, "data": block}
                        try:
                            item["uid"] = json.loads(item["data"])["value"]["uid"]
                        except Exception:  # noqa: BLE001
                            item["uid"] = None
                        del item["data"]
                        conn["items"].append(item)
                        if cut is not None and len(conn["items"]) >= cut:
                            conn["cut"] = True
                            return conn
                conn["ended"] = True
            return conn

        async def request(i, req):
            rec = {"i": i, "conns": [], "open_at_end": False}
            obs["reqs"].append(rec)
            if req["start"] == "mid":
                await asyncio.sleep(0.1 + 0.2 * (case["n_live"] // 2) + 0.05)
            query, headers = _req_params(req)
            try:
                conn = await one_connection(rec, query, headers, req.get("cut") if req["sse"] else None)
                if conn.get("cut") and conn["items"][-1]["id"] is not None:
                    await asyncio.sleep(req.get("pause", 0.05))
                    q2 = {k: v for k, v in query.items() if k != "after_sequence"} if req.get("drop_query") else dict(query)
                    await one_connection(rec, q2, {**headers, "Last-Event-ID": conn["items"][-1]["id"]}, None)
            except asyncio.CancelledError:
                rec["open_at_end"] = True
                raise

        tasks = [asyncio.ensure_future(request(i, r)) for i, r in enumerate(case["reqs"])]
        await asyncio.sleep(0.1)
        for e in plan[case["n_pre"]:]:
            await append(e)
            await asyncio.sleep(0.2)
        await asyncio.sleep(5 * case["poll"] + 2.0)
        for t in tasks:
            if not t.done():
                t.cancel()
        res = await asyncio.gather(*tasks, return_exceptions=True)
        for r in res:
            if isinstance(r, Exception):
                obs["error"] = f"request raised {type(r).__name__}: {r}"
        obs["final"] = [[e.sequence, e.event.value["uid"]] for e in await store.query_events(RID)]
        await client.aclose()
        if case["backend"] != "memory":
            keeper.close()

    r = vclock.run(main, vt_limit=1e5)
    if not r.done:
        obs["error"] = f"scenario did not finish (quiescent={r.quiescent} livelock={r.livelock})"
    elif r.exception() is not None:
        e = r.exception()
        obs["error"] = f"{type(e).__name__}: {e}"
    return obs


def _expected(plan, seq_of_uid, k, include_internal):
    """visible (seq, uid) list above k through the first terminal; (visible, has_terminal, any_remaining)"""
    out, term, remaining = [], False, False
    for e in sorted(plan, key=lambda e: seq_of_uid[e["uid"]]):
        s = seq_of_uid[e["uid"]]
        if s <= k:
            continue
        remaining = True
        if include_internal or not e["internal"]:
            out.append((s, e["uid"]))
        if e["term"]:
            term = True
            break
    return out, term, remaining


def check(case: dict, acc, tmp: str) -> None:
    from vf.common import h

    obs = run_api(case, tmp)
    b = case["backend"]
    base = {"layer": "api", "backend": b}
    if obs["error"]:
        acc.violation({"mech": "api_scenario_raised", **base}, f"[api/{b}] {obs['error']}", case)
        return
    plan = _events_plan(case)
    final = obs["final"]
    if [f[0] for f in final] != list(range(len(plan))) or [f[1] for f in final] != list(range(len(plan))):
        acc.violation({"mech": "sequence_not_consecutive", **base}, f"[api/{b}] stored log {final}", case)
        return
    seq_of_uid = {u: s for s, u in final}
    n_total = len(plan)
    last_is_terminal_at = {}  # stored count -> whether the last stored event then was terminal
    for cnt in range(n_total + 1):
        last_is_terminal_at[cnt] = cnt > 0 and plan[cnt - 1]["term"]
    shape = []
    for rec in obs["reqs"]:
        req = case["reqs"][rec["i"]]
        if not rec["conns"]:
            continue
        acc.hit("api_stream_checked")
        first = rec["conns"][0]
        S = first["stored_at_request"]
        cursors = effective_cursors(req, S)
        mode_sig = {"mode": req["mode"], "sse": req["sse"]}
        ok_any, fails = False, []
        for kk in cursors:
            f = _judge_request(case, rec, req, kk, S, plan, seq_of_uid, last_is_terminal_at, acc)
            if f is None:
                ok_any = True
                break
            fails.append(f)
        if len(cursors) > 1:
            acc.note("api_ndjson_last_event_id_two_readings")
        if not ok_any:
            mech, what = fails[0]
            ccls = "beyond_end" if cursors[0] > S - 1 else ("start" if cursors[0] < 0 else "within_log")
            acc.violation({"mech": mech, **base, "cursor": ccls, "cursor_source": "last_event_id" if req["mode"] in ("lei", "lei_and_num") and req["sse"]
                           else ("now" if req["mode"] in ("now", "default") or (req["mode"] == "lei" and not req["sse"]) else "after_sequence")},
                          f"[api/{b}] GET /events {mode_sig} cursor={cursors[0]} stored_at_request={S}: {what}", case)
        shape.append([req["mode"], req["sse"], req["internal"], [c["status"] for c in rec["conns"]],
                      [len(c["items"]) for c in rec["conns"]], rec["open_at_end"]])
        if any(c["heartbeats"] for c in rec["conns"]):
            acc.hit("api_heartbeat_seen")
    if any(sum(x[4]) > 0 for x in shape):
        acc.sig(h(["api", b, case["n_pre"], case["n_live"], case["term"], shape]))


def _judge_request(case, rec, req, kk, S, plan, seq_of_uid, last_term_at, acc):
    """None if the observation is what cursor kk demands, else (mech, what)."""
    vis, has_term, remaining_any = _expected(plan, seq_of_uid, kk, req["internal"])
    first = rec["conns"][0]
    # ---- 204: "handler completed and all events already consumed"
    remaining_at_request = any(seq_of_uid[e["uid"]] > kk and seq_of_uid[e["uid"]] < S for e in plan)
    complete_at_request = case["status_terminal"] or last_term_at[S]
    if first["status"] == 204:
        acc.hit("api_204_checked")
        if remaining_at_request:
            return ("api_204_with_events_remaining", f"204 although stored events above {kk} exist")
        if not complete_at_request:
            return ("api_204_on_running_handler", "204 although the run is not complete")
        return None
    if first["status"] != 200:
        return ("api_unexpected_status", f"status {first['status']}")
    want_ct = "text/event-stream" if req["sse"] else "application/x-ndjson"
    if first["ctype"] and not first["ctype"].startswith(want_ct):
        return ("api_wrong_media_type", f"content-type {first['ctype']} for sse={req['sse']}")
    if not remaining_at_request and complete_at_request:
        acc.note("api_200_where_204_documented")
    items = [it for c in rec["conns"] for it in c["items"]]
    got_uids = [it["uid"] for it in items]
    exp_uids = [u for _, u in vis]
    exp_ids = [s for s, _ in vis]
    if req["sse"]:
        try:
            ids = [int(it["id"]) for it in items]
        except (TypeError, ValueError):
            return ("api_wire_id_missing_or_not_integer", f"ids {[it['id'] for it in items]}")
        for i, (sid, uid) in enumerate(zip(ids, got_uids)):
            if uid is None or seq_of_uid.get(uid) != sid:
                return ("api_wire_id_not_stored_sequence", f"wire id {sid} carries uid {uid} stored at {seq_of_uid.get(uid)}")
            if sid <= kk:
                return ("api_delivered_sequence_le_cursor", f"delivered id {sid} <= cursor {kk} (ids {ids})")
    else:
        for uid in got_uids:
            if uid is not None and uid in seq_of_uid and seq_of_uid[uid] <= kk:
                return ("api_delivered_sequence_le_cursor", f"delivered stored sequence {seq_of_uid[uid]} <= cursor {kk} (uids {got_uids})")
    if got_uids != exp_uids[: len(got_uids)]:
        hidden = [e["uid"] for e in plan if e["internal"]]
        if not req["internal"] and any(u in hidden for u in got_uids):
            return ("api_internal_event_delivered", f"internal event delivered without include_internal: {got_uids}")
        if len(got_uids) > len(exp_uids) and got_uids[: len(exp_uids)] == exp_uids:
            return ("api_delivered_past_terminal", f"expected {exp_ids} got uids {got_uids}")
        return ("api_stream_gap_dup_or_reorder", f"expected sequences {exp_ids} (uids {exp_uids}) got uids {got_uids}")
    last = rec["conns"][-1]
    if len(rec["conns"]) > 1:
        acc.hit("api_resume_checked")
    if last["ended"] and last["status"] == 200:
        acc.hit("api_terminal_end_checked")
        if not (has_term and got_uids == exp_uids):
            # a resumed connection answering 204 is handled below; a 200 stream must end only after the terminal
            return ("api_ended_without_terminal", f"stream ended after uids {got_uids}, expected {exp_uids} terminal={has_term}")
    elif last["status"] == 204:
        # reconnect after the client had already seen everything
        if got_uids != exp_uids:
            return ("api_204_with_events_remaining", f"reconnect answered 204 after uids {got_uids}, expected {exp_uids}")
    elif rec["open_at_end"]:
        if has_term and got_uids == exp_uids:
            return ("api_not_ended_after_terminal", f"terminal delivered but stream left open ({got_uids})")
        if got_uids != exp_uids:
            return ("api_events_not_delivered", f"delivered uids {got_uids}, stored visible events above {kk}: {exp_uids}")
    return None
