"""Run one (program spec, externals) case on the real engine under the virtual clock
and return a Trace (DESIGN §3.1/§3.3).  Probes are attached from outside to
module globals / class attributes that the engine looks up at call time.
"""
from __future__ import annotations

import asyncio
import json

from vf import programs, vclock

_installed = False
COUNTERS = {"reduce_live": 0, "reduce_replay": 0, "runner_init": 0, "publish": 0, "rewind": 0}

# per-case hooks (set by run_case)
_CUR = {"trace": None}


class Trace:
    def __init__(self, spec):
        self.spec = spec
        self.rec = None  # programs.Recorder
        self.ticks = []  # live reducer evaluations
        self.pubs = []  # publications (write_to_event_stream) with runner snapshot
        self.stream = []  # events seen by the stream consumer
        self.runners = []
        self.outcome = None
        self.quiescent = False
        self.livelock = False
        self.vt_end = 0.0
        self.consumer_done = None
        self.handler = None
        self.extra = {}
        self.errors = []

    # ---- helpers used by oracles
    def bodies(self):
        """Pair enter/exit records by body id -> list of dicts."""
        ent = {}
        out = []
        for r in self.rec.log:
            if r["k"] == "enter":
                ent[r["bid"]] = r
            elif r["k"] == "exit":
                e = ent.pop(r["bid"], None)
                if e is not None:
                    out.append({"step": e["step"], "uid": e["uid"], "v": e["v"], "att": e["att"], "bid": e["bid"],
                                "t0": e["t"], "t1": r["t"], "n0": e["n"], "n1": r["n"], "how": r["how"], "type": e["type"],
                                "lastexc": e.get("lastexc"), "failed": e.get("failed"), "elapsed": e.get("elapsed")})
        for e in ent.values():  # never exited (cancelled at teardown)
            out.append({"step": e["step"], "uid": e["uid"], "v": e["v"], "att": e["att"], "bid": e["bid"], "t0": e["t"],
                        "t1": None, "n0": e["n"], "n1": None, "how": "open", "type": e["type"], "lastexc": e.get("lastexc"),
                        "failed": e.get("failed"), "elapsed": e.get("elapsed")})
        out.sort(key=lambda b: b["n0"])
        return out

    def tick_signature(self):
        return [(t["tick"], t.get("step"), t.get("wid")) for t in self.ticks]


def _summ_state(state):
    out = {}
    for name, w in state.workers.items():
        out[name] = {
            "q": len(w.queue),
            "ip": [x.worker_id for x in w.in_progress],
            "nw": w.config.num_workers,
            "qe": [(programs._ev_uid(x.event), x.attempts or 0, id(x.event)) for x in w.queue],
            "ipe": [(x.worker_id, programs._ev_uid(x.event), x.attempts, id(x.event)) for x in w.in_progress],
            "wait": [(x.waiter_id, x.resolved_event is not None, bool(getattr(x, "timed_out", False)),
                      x.waiting_for_event.__name__, dict(x.requirements), programs._ev_uid(x.event), bool(x.has_requirements))
                     for x in w.collected_waiters],
            "coll": {k: [programs._ev_uid(e) for e in v] for k, v in w.collected_events.items()},
        }
    return out


def _tick_desc(tick):
    d = {"tick": type(tick).__name__}
    if hasattr(tick, "step_name"):
        d["step"] = tick.step_name
    if hasattr(tick, "worker_id"):
        d["wid"] = tick.worker_id
    ev = getattr(tick, "event", None)
    if ev is not None:
        d["etype"] = type(ev).__name__
        try:
            d["uid"] = programs._ev_uid(ev)
        except Exception:  # noqa: BLE001
            d["uid"] = None
    if hasattr(tick, "attempts"):
        d["attempts"] = tick.attempts
    if hasattr(tick, "waiter_id"):
        d["waiter_id"] = tick.waiter_id
    res = getattr(tick, "result", None)
    if isinstance(res, list):
        d["results"] = [type(x).__name__ for x in res]
    return d


def _pub_desc(e):
    d = {"type": type(e).__name__}
    n = d["type"]
    if n == "StepStateChanged":
        d["ssc"] = (e.name, e.step_state.name, e.worker_id)
    elif n == "UnhandledEvent":
        d["unhandled"] = (e.event_type, e.step_name, e.idle)
    else:
        try:
            d["uid"] = e.get("uid", None)
        except Exception:  # noqa: BLE001
            pass
    return d


def install_probes():
    """Idempotent.  Must be called after vclock.install() and before workflows run."""
    global _installed
    if _installed:
        return
    import workflows.runtime.control_loop as cl
    from workflows.plugins import basic
    from workflows.runtime.types.commands import indicates_exit

    orig_reduce = cl._reduce_tick

    def reduce_probe(tick, init, now_seconds, run_id=None):
        state, commands = orig_reduce(tick, init, now_seconds, run_id)
        tr = _CUR["trace"]
        if run_id is None or tr is None:
            COUNTERS["reduce_replay"] += 1
            return state, commands
        COUNTERS["reduce_live"] += 1
        tr.extra.get("pulled", {}).pop(id(tick), None)
        d = _tick_desc(tick)
        d["t"] = vclock.vnow()
        d["run_id"] = run_id
        d["running"] = state.is_running
        d["pre_running"] = init.is_running
        d["exit"] = any(indicates_exit(c) for c in commands)
        d["cmds"] = [type(c).__name__ for c in commands]
        d["post"] = _summ_state(state)
        d["pre"] = _summ_state(init)
        d["pubs"] = [_pub_desc(c.event) for c in commands if type(c).__name__ == "CommandPublishEvent"]
        ev = getattr(tick, "event", None)
        if ev is not None:
            d["eid"] = id(ev)
            try:
                d["efields"] = dict(ev._data) if hasattr(ev, "_data") else {}
            except Exception:  # noqa: BLE001
                d["efields"] = {}
        tr.rec.seq += 1
        d["n"] = tr.rec.seq
        d["delays"] = [getattr(c, "delay", None) for c in commands if type(c).__name__ == "CommandQueueEvent"]
        tr.ticks.append(d)
        if len(tr.ticks) > tr.spec.get("max_ticks", 1500) and not tr.extra.get("runaway"):
            # runaway run (e.g. unbounded retry / recovery loop at one virtual instant): stop the loop, keep the partial trace
            tr.extra["runaway"] = True
            loop = asyncio.get_event_loop()
            loop.livelock = True
            loop.stop()
        hook = tr.extra.get("on_reduce")
        if hook is not None:
            hook(tick, init, state, commands)
        return state, commands

    cl._reduce_tick = reduce_probe

    orig_pull = cl._single_pull

    async def pull_probe(adapter):
        tick = await orig_pull(adapter)
        tr = _CUR["trace"]
        if tr is not None and tick is not None:
            tr.extra.setdefault("pulled", {})[id(tick)] = (type(tick).__name__, adapter.run_id)
        return tick

    cl._single_pull = pull_probe

    orig_rewind = cl.rewind_in_progress

    def rewind_probe(state, now_seconds):
        st, cmds = orig_rewind(state, now_seconds)
        COUNTERS["rewind"] += 1
        tr = _CUR["trace"]
        if tr is not None:
            tr.extra.setdefault("rewinds", []).append({"post": _summ_state(st), "cmds": [type(c).__name__ for c in cmds]})
        return st, cmds

    cl.rewind_in_progress = rewind_probe

    orig_init = cl._ControlLoopRunner.__init__

    def init_probe(self, *a, **k):
        orig_init(self, *a, **k)
        COUNTERS["runner_init"] += 1
        tr = _CUR["trace"]
        if tr is not None:
            tr.runners.append(self)

    cl._ControlLoopRunner.__init__ = init_probe

    orig_process = cl._ControlLoopRunner._process_tick

    async def process_probe(self, tick):
        _tr = _CUR["trace"]
        if _tr is not None:
            _tr.extra.setdefault("proc_log", []).append((id(self), self.adapter.run_id, type(tick).__name__, vclock.vnow()))
        try:
            return await orig_process(self, tick)
        finally:
            # also after terminal ticks (CommandFailWorkflow / CommandHalt raise out of _process_tick)
            tr = _CUR["trace"]
            if tr is not None:
                hook = tr.extra.get("after_tick")
                if hook is not None:
                    hook(self, tick)

    cl._ControlLoopRunner._process_tick = process_probe

    from workflows.runtime.types import plugin as _plugin

    orig_wfnt = _plugin.InternalRunAdapter.wait_for_next_task

    async def wfnt_probe(self, running, pending, timeout=None):
        # the control loop yields to other tasks here: states at this point are the ones an outside observer
        # (ctx.to_dict(), running_steps(), a persistence layer) can actually see
        tr = _CUR["trace"]
        if tr is not None:
            hook = tr.extra.get("at_yield")
            if hook is not None:
                hook(self)
        return await orig_wfnt(self, running, pending, timeout)

    _plugin.InternalRunAdapter.wait_for_next_task = wfnt_probe

    orig_write = basic.InternalAsyncioAdapter.write_to_event_stream

    async def write_probe(self, event):
        tr = _CUR["trace"]
        if tr is not None:
            COUNTERS["publish"] += 1
            tr.rec.seq += 1
            snap = {"etype": type(event).__name__, "t": vclock.vnow(), "n": tr.rec.seq, "run_id": self.run_id}
            runner = next((r for r in reversed(tr.runners) if r.adapter.run_id == self.run_id), None)
            if runner is not None:
                try:
                    snap["runner"] = _runner_snapshot(self, runner, tr)
                except Exception as e:  # noqa: BLE001  (an internal attribute the probe reads is gone: go on with the black-box rules)
                    tr.extra["probe_error"] = repr(e)
            try:
                snap["uid"] = event.get("uid", None)
            except Exception:  # noqa: BLE001
                snap["uid"] = None
            if type(event).__name__ == "StepStateChanged":
                snap["ssc"] = (event.name, event.step_state.name, event.worker_id)
            if type(event).__name__ == "UnhandledEvent":
                snap["unhandled"] = (event.event_type, event.step_name, event.idle)
            tr.pubs.append(snap)
        return await orig_write(self, event)

    basic.InternalAsyncioAdapter.write_to_event_stream = write_probe
    _installed = True


def _runner_snapshot(adapter, runner, tr):
    q = adapter._queues.receive_queue
    return {
        "wakeups": [type(t[2]).__name__ for t in runner.scheduled_wakeups],
        "buffer": [type(t).__name__ for t in runner.tick_buffer],
        "recvq": [type(t).__name__ for t in list(q._queue)],
        "pulled": [n for (n, rid) in tr.extra.get("pulled", {}).values() if rid == adapter.run_id],
        "workers": {n: {"q": len(w.queue), "ip": len(w.in_progress)} for n, w in runner.state.workers.items()},
        "worker_tasks": len(runner.worker_tasks),
        "pending_workers": len(runner._pending_workers),
        "running": runner.state.is_running,
    }


def describe_event(e):
    name = type(e).__name__
    d = {"type": name}
    try:
        d["uid"] = e.get("uid", None)
    except Exception:  # noqa: BLE001
        d["uid"] = None
    if name == "StepStateChanged":
        d["ssc"] = (e.name, e.step_state.name, e.worker_id)
    elif name == "UnhandledEvent":
        d["unhandled"] = (e.event_type, e.step_name, e.idle)
    elif name == "WorkflowFailedEvent":
        d["failed"] = {"step": e.step_name, "attempts": e.attempts, "elapsed": e.elapsed_seconds,
                       "exc": type(e.exception).__name__ + ":" + str(e.exception)}
    elif name == "WorkflowTimedOutEvent":
        d["timed_out"] = {"timeout": e.timeout, "active": list(e.active_steps)}
    d["t"] = vclock.vnow()
    programs.rec().seq += 1
    d["n"] = programs.rec().seq
    from workflows.events import StopEvent

    d["terminal"] = isinstance(e, StopEvent)
    return d


def jsonable(x):
    try:
        json.dumps(x)
        return x
    except Exception:  # noqa: BLE001
        return repr(x)


async def _drive(spec, tr, wf, ctx=None, start=True):
    """The per-case main coroutine."""
    from vf import events as E

    rec = tr.rec
    kwargs = {}
    if ctx is not None:
        kwargs["ctx"] = ctx
    if start:
        st = E.Go(uid=rec.new_uid(), v="r", **(spec.get("start") or {}))
        rec.add("emit", how="external", step=None, bid=None, att=None, uid=st.get("uid"), v="r", type="Go", target=None, parent=None)
        kwargs["start_event"] = st
    if spec.get("run_id"):
        kwargs["run_id"] = spec["run_id"]
    handler = wf.run(**kwargs)
    tr.handler = handler
    responders = []

    async def consume():
        if spec.get("consumer_delay"):
            # a consumer that only starts reading later (possibly after the run has ended): everything published is still there for it
            await asyncio.sleep(spec["consumer_delay"])
        async for e in handler.stream_events(expose_internal=True):
            d = describe_event(e)
            tr.stream.append(d)
            for rs in spec.get("responders", []):
                if d["type"] == rs["on"]:
                    responders.append(asyncio.create_task(respond(rs, e)))
        return True

    async def respond(rs, ask):
        for i, rep in enumerate(rs["replies"]):
            await asyncio.sleep(rep.get("delay", 0))
            pay = dict(rep.get("pay") or {})
            for kk, vv in list(pay.items()):
                if vv == "{v}":
                    pay[kk] = ask.get("v", None)
            pay = programs.dec(pay)
            ev = E.BY_NAME[rep["type"]](uid=rec.new_uid(), v=f"resp:{ask.get('v', None)}:{i}", **pay)
            rec.add("emit", how="external", step=None, bid=None, att=None, uid=ev.get("uid"), v=ev.get("v"), type=rep["type"],
                    target=rep.get("target"), parent=ask.get("uid", None), fields=pay)
            try:
                handler.ctx.send_event(ev, step=rep.get("target"))
            except Exception as x:  # noqa: BLE001
                rec.add("send_error", err=repr(x))

    async def external(x):
        await asyncio.sleep(x["at"])
        if x.get("cancel"):
            rec.add("cancel_call")
            await handler.cancel_run()
            rec.add("cancel_returned")
            return
        if x.get("hook"):
            fn = tr.extra.get(x["hook"])
            if fn is not None:
                res = fn(handler)
                if asyncio.iscoroutine(res):
                    await res
            return
        pay = programs.dec(dict(x.get("pay") or {}))
        ev = E.BY_NAME[x["type"]](uid=rec.new_uid(), v=x.get("v", f"ext@{x['at']}"), **pay)
        rec.add("emit", how="external", step=None, bid=None, att=None, uid=ev.get("uid"), v=ev.get("v"), type=x["type"],
                target=x.get("target"), parent=None, fields=pay)
        try:
            handler.ctx.send_event(ev, step=x.get("target"))
        except Exception as e:  # noqa: BLE001
            rec.add("send_error", err=repr(e))

    consumer = asyncio.create_task(consume())
    tr.extra["consumer_task"] = consumer
    drivers = [asyncio.create_task(external(x)) for x in spec.get("externals", [])]
    try:
        result = await handler
        tr.outcome = {"kind": "result", "value": jsonable(result if not hasattr(result, "model_dump") else {"event": type(result).__name__, "result": jsonable(getattr(result, "result", None))})}
    except asyncio.CancelledError:
        raise
    except BaseException as e:  # noqa: BLE001
        tr.outcome = {"kind": "error", "type": type(e).__name__, "msg": str(e)}
    rec.add("handler_done")
    try:
        st = await handler.ctx.store.get_state()
        tr.extra["final_state"] = jsonable(dict(st.to_dict()) if hasattr(st, "to_dict") else st.model_dump())
    except Exception as e:  # noqa: BLE001
        tr.extra["final_state_err"] = repr(e)
    tr.extra["vt_handler_done"] = vclock.vnow()
    await consumer
    tr.consumer_done = True
    rec.add("consumer_done")
    # let things settle a little: anything published after the terminal event shows up in the queue
    for _ in range(3):
        await asyncio.sleep(0)
    for d in drivers:
        if not d.done():
            d.cancel()
    return True


def run_case(spec, *, extra=None, wf=None, ctx_factory=None, start=True) -> Trace:
    """Execute one program case.  `extra` may carry hooks: on_reduce, after_tick."""
    install_probes()
    tr = Trace(spec)
    tr.rec = programs.reset_recorder()
    tr.rec._uid = int(spec.get("uid_base", 0))
    tr.extra.update(extra or {})
    _CUR["trace"] = tr

    async def main():
        w = wf if wf is not None else programs.make_instance(spec)
        tr.extra["wf"] = w
        ctx = ctx_factory(w) if ctx_factory is not None else None
        return await _drive(spec, tr, w, ctx=ctx, start=start)

    try:
        cr = vclock.run(main, vt_limit=spec.get("vt_limit", 1e6))
        tr.quiescent = cr.quiescent
        tr.livelock = cr.livelock
        tr.vt_end = cr.vt
        if cr.done and cr.exception() is not None:
            tr.errors.append(repr(cr.exception()))
        if tr.consumer_done is None:
            tr.consumer_done = False  # _drive never got past `await consumer` (tasks were cancelled by the teardown)
        # leftovers in the publish queue after the consumer stopped
        try:
            h = tr.handler
            q = h._external_adapter._queues.publish_queue if h is not None else None
            tr.extra["publish_leftover"] = [type(e).__name__ for e in list(q._queue)] if q is not None else []
        except Exception as e:  # noqa: BLE001
            tr.extra["publish_leftover_err"] = repr(e)
    finally:
        _CUR["trace"] = None
    return tr


def run_with_snapshots(spec, *, every=True, only_k=None, extra=None, **run_kwargs):
    """Run a case taking ctx.to_dict() (through JSON) at the control loop's yield points (entry of wait_for_next_task).
    Returns (trace, snaps) with snaps[i] = {"k": i, "ticks": <ticks reduced so far>, "snap": dict | None, "err": str | None}."""
    snaps = []

    def at_yield(adapter):
        tr = _CUR["trace"]
        i = len(snaps)
        ent = {"k": i, "ticks": len(tr.ticks), "snap": None, "err": None, "t": vclock.vnow()}
        runner = next((r for r in reversed(tr.runners) if r.adapter.run_id == adapter.run_id), None)
        if runner is not None:
            try:
                ent["wakeups"] = [type(t[2]).__name__ for t in runner.scheduled_wakeups]
                ent["buffer"] = [type(t).__name__ for t in runner.tick_buffer]
            except Exception as e:  # noqa: BLE001
                tr.extra["probe_error"] = repr(e)
        try:
            # ticks the run has accepted but its control loop has not processed: the mailbox, and a tick held by a finished pull task
            ent["recvq"] = [type(t).__name__ for t in list(adapter._queues.receive_queue._queue)]
        except Exception:  # noqa: BLE001
            ent["recvq"] = []
        ent["pulled"] = [n for (n, rid) in tr.extra.get("pulled", {}).values() if rid == adapter.run_id]
        if only_k is None or only_k == i:
            try:
                ent["snap"] = json.loads(json.dumps(tr.handler.ctx.to_dict()))
            except Exception as e:  # noqa: BLE001
                ent["err"] = repr(e)
        snaps.append(ent)

    ex = dict(extra or {})
    ex["at_yield"] = at_yield
    tr = run_case(spec, extra=ex, **run_kwargs)
    return tr, snaps
