"""Real event classes for the C16 check (envelopes built by EventEnvelopeWithMetadata.from_event from instances, the way the server
runtime does it): whether a stored event is terminal is decided from the metadata that function derives from the class."""
from workflows.events import Event, StopEvent


class Stamped:
    """a plain (non-Event) mixin"""

    origin = "c16"


class PlainStop(StopEvent):
    pass


class DeepStop(PlainStop):
    pass


class MixinFirstStop(Stamped, StopEvent):
    pass


class MixinLastStop(StopEvent, Stamped):
    pass


class DeepMixinStop(MixinFirstStop):
    pass


class Note(Event):
    pass


class StampedNote(Stamped, Event):
    pass


TERMINAL = [StopEvent, PlainStop, DeepStop, MixinFirstStop, MixinLastStop, DeepMixinStop]
PLAIN = [Note, StampedNote, Event]
