"""sys.meta_path finder fabricating empty modules for absent third-party packages.

Only satisfies `import` statements of repo modules whose *other* functions the
checks call.  Real packages on sys.path always win: the finder is appended last.
"""
import importlib.abc
import importlib.machinery
import sys
import types

STUB_TOPS = {
    "uvicorn", "asyncpg", "sqlalchemy", "kubernetes", "urllib3", "fastapi",
    "truststore", "dulwich", "pydantic_settings", "prometheus_client",
    "prometheus_fastapi_instrumentator", "aiocache", "jwt", "dotenv",
    "pythonjsonlogger", "aioboto3", "a2wsgi", "git", "overrides", "structlog",
    "websockets", "watchfiles", "questionary", "tenacity", "textual", "aiohttp",
    "copier", "bedrock_agentcore", "boto3", "botocore", "cryptography",
    "kubernetes_asyncio", "opentelemetry", "psycopg", "psycopg2",
}


class _StubModule(types.ModuleType):
    def __getattr__(self, name):
        if name.startswith("__"):
            raise AttributeError(name)
        v = type(
            name,
            (object,),
            {
                "__init__": lambda s, *a, **k: None,
                "__class_getitem__": classmethod(lambda c, k: c),
            },
        )
        setattr(self, name, v)
        return v


class Finder(importlib.abc.MetaPathFinder, importlib.abc.Loader):
    def find_spec(self, fullname, path, target=None):
        if fullname.split(".")[0] in STUB_TOPS:
            return importlib.machinery.ModuleSpec(fullname, self, is_package=True)
        return None

    def create_module(self, spec):
        m = _StubModule(spec.name)
        m.__path__ = []
        return m

    def exec_module(self, module):
        pass


_installed = False


def install():
    global _installed
    if not _installed:
        sys.meta_path.append(Finder())
        _installed = True
