"""Workflow-program specs -> real Workflow classes (DESIGN §3.3).

A program spec is a JSON-able dict; `build_workflow(spec)` creates a fresh
`Workflow` subclass whose steps are registered with the real `@step` /
`@catch_error` decorators.  Every step body is the same instrumented
interpreter (`_interp`) which records enter/exit and every ctx.* interaction in
the current `Recorder`.

NOTE: no `from __future__ import annotations` here — step annotations must be
real type objects.
"""
import asyncio
import dataclasses
import threading

import pydantic
import hashlib
import types
import typing

from vf import vclock


# --------------------------------------------------------------------- recorder
class Recorder:
    """Append-only event log of one case (single-threaded asyncio: no lock needed;
    sync/threaded step bodies append under the GIL, list.append is atomic)."""

    def __init__(self):
        self.log = []
        self._uid = 0
        self._bid = 0
        self.seq = 0
        self._lock = threading.Lock()

    def new_uid(self):
        with self._lock:
            self._uid += 1
            return self._uid

    def new_bid(self):
        self._bid += 1
        return self._bid

    def add(self, k, **kw):
        with self._lock:
            self.seq += 1
            kw["k"] = k
            kw["t"] = vclock.vnow()
            kw["n"] = self.seq
            self.log.append(kw)
        return kw

    def of(self, *kinds):
        return [r for r in self.log if r["k"] in kinds]


REC = Recorder()


def reset_recorder():
    global REC
    REC = Recorder()
    _NTH.clear()
    return REC


def rec():
    return REC


def pick(choices, *key):
    """Deterministic choice keyed by a tuple (schedule seed, step, v, attempt, ...)."""
    hsh = hashlib.md5(repr(key).encode()).digest()
    return choices[int.from_bytes(hsh[:4], "big") % len(choices)]


# --------------------------------------------------------------------- exceptions
class VfError(Exception):
    pass


class VfErrorA(VfError):
    pass


class VfErrorB(Exception):
    pass


def _c07_excs():
    from vf.checks import C07

    return {"E1": C07.E1, "E2": C07.E2, "E3": C07.E3}


EXC = {**_c07_excs(), "VfError": VfError, "VfErrorA": VfErrorA, "VfErrorB": VfErrorB, "ValueError": ValueError,
       "KeyError": KeyError, "RuntimeError": RuntimeError}


# --------------------------------------------------------------------- interpreter
def _ev_uid(ev):
    from workflows.events import StepFailedEvent

    if isinstance(ev, StepFailedEvent):
        inner = ev.input_event
        return f"F({inner.get('uid', None)}@{ev.step_name})"
    return ev.get("uid", None)


def _ev_v(ev):
    from workflows.events import StepFailedEvent

    if isinstance(ev, StepFailedEvent):
        return f"F({ev.input_event.get('v', None)}@{ev.step_name})"
    return ev.get("v", None)


def mk_event(tname, v, extra=None):
    from vf import events as E

    cls = E.BY_NAME[tname]
    pay = dict(extra or {})
    if pay.pop("_plain", False):
        # byte-identical events (no per-emission id): what a workflow sending the same value twice produces
        pay["uid"] = pay.get("fixed_uid", 7)
        pay["v"] = pay.pop("fixed_v", "same")
        pay.pop("fixed_uid", None)
    else:
        pay["uid"] = REC.new_uid()
        pay["v"] = v
    if tname == "StopEvent" or issubclass(cls, E.StopEvent):
        res = pay.pop("result", None)
        return cls(result=res, **pay)
    return cls(**pay)


def _step_point(step, how):
    """observation point INSIDE a tick's processing or between ticks: a step body starting / ending (incl. being cancelled while the
    control loop shuts the workers down) is a moment at which an outside observer can look at the run"""
    from vf import engine_run

    tr = engine_run._CUR.get("trace")
    hook = tr.extra.get("at_step_point") if tr is not None else None
    if hook is not None:
        hook(tr, step, how)


async def _interp(ctx, ev, sp, prog):
    from workflows.runtime.types.results import WaitingForEvent

    r = REC
    step = sp["name"]
    ri = ctx.retry_info()
    att = ri.retry_number
    bid = r.new_bid()
    uid = _ev_uid(ev)
    v = _ev_v(ev)
    _NTH[step] = _NTH.get(step, 0) + 1
    rcd = r.add("enter", step=step, uid=uid, v=v, att=att, bid=bid, type=type(ev).__name__,
                lastexc=(type(ri.last_exception).__name__ + ":" + str(ri.last_exception)) if ri.last_exception is not None else None,
                elapsed=ri.elapsed_seconds)
    from workflows.events import StepFailedEvent

    if isinstance(ev, StepFailedEvent):
        rcd["failed"] = {"step_name": ev.step_name, "attempts": ev.attempts, "elapsed": ev.elapsed_seconds,
                         "exc": type(ev.exception).__name__ + ":" + str(ev.exception),
                         "input_uid": ev.input_event.get("uid", None), "input_type": type(ev.input_event).__name__}
    how = "return"
    out = None
    _step_point(step, "enter")
    try:
        out = await _run_acts(ctx, ev, sp, prog, att, v, uid, bid)
        return out
    except WaitingForEvent:
        how = "wait"
        raise
    except asyncio.CancelledError:
        how = "cancel"
        if sp.get("stream_on_cancel"):
            # user code that reports its own shutdown: `finally: ctx.write_event_to_stream(...)`, possibly after some async cleanup
            from vf import events as E

            soc = sp["stream_on_cancel"]
            try:
                if soc is not True and soc:
                    await asyncio.sleep(float(soc))  # flush buffers ...
            finally:
                # ... and report, even if the flush itself is interrupted
                e = E.EvS(uid=r.new_uid(), v=f"{v}>{step}.cancelled")
                r.add("emit", how="stream", step=step, bid=bid, att=att, uid=e.get("uid"), v=e.get("v"), type="EvS", target=None, parent=uid)
                ctx.write_event_to_stream(e)
        raise
    except BaseException as e:  # noqa: BLE001
        how = "raise:" + type(e).__name__
        raise
    finally:
        from workflows.events import Event

        r.add("exit", step=step, uid=uid, v=v, att=att, bid=bid, how=how,
              out_uid=(out.get("uid", None) if isinstance(out, Event) else None),
              out_type=(type(out).__name__ if out is not None else None))
        _step_point(step, how)


_SYNC_LOCK = threading.Lock()
_NTH = {}  # step name -> entries so far in this case (reset with the recorder)


class VfState(pydantic.BaseModel):
    """typed workflow state (Context[VfState]) whose containers are filled IN PLACE, never assigned: the common way user code
    accumulates state (`state.seen.append(x)`, `state.kv[k] = v`)"""

    kv: dict = pydantic.Field(default_factory=dict)
    log: list = pydantic.Field(default_factory=list)
    label: str = "fresh"


def pick_index(seed, key, n):
    return int(hashlib.sha256(f"{seed}|{key}".encode()).hexdigest(), 16) % n


def dec(x):
    """decode spec values: {"$uuid": n} -> uuid.UUID(int=n), a value JsonSerializer cannot carry inside waiter requirements as is"""
    if isinstance(x, dict):
        if set(x) == {"$uuid"}:
            import uuid

            return uuid.UUID(int=int(x["$uuid"]))
        return {k: dec(v) for k, v in x.items()}
    return x


def _val(spec, ev, att, default=None):
    """Resolve a parameter: literal, {'from': field} read from the event, list indexed by attempt."""
    if isinstance(spec, dict) and "nth" in spec:
        # chosen by how many times this step has been entered so far (equal events cannot carry their own latency)
        seq = spec["nth"]
        i = max(0, _NTH.get(spec.get("step", "?"), 1) - 1)
        return seq[min(i, len(seq) - 1)] if seq else default
    if isinstance(spec, dict) and "from" in spec:
        spec = ev.get(spec["from"], default)
    if isinstance(spec, list):
        if not spec:
            return default
        spec = spec[min(att, len(spec) - 1)]
    return default if spec is None else spec


def _ret_value(act, ev, sp, prog, att, v, uid, bid, local, state_val=None):
    """the value a 'ret' act returns (shared by async and sync step bodies)"""
    r = REC
    step = sp["name"]
    t = act.get("type")
    if t is None:
        return None
    if t in ("nonevent", "nonevent_falsy"):
        r.add("nonevent_return", step=step, bid=bid, uid=uid, kind=t)
    if t == "nonevent":
        return 42
    if t == "nonevent_falsy":
        # a non-event that is falsy: 0, "", [], {}, False are no more events than 42 is
        return [0, "", [], {}, False][pick_index(prog.get("sched_seed", 0), step, 5)]
    cv = f"{v}>{step}.r"
    extra = dict(act.get("pay") or {})
    for fld in act.get("copy", []):
        extra[fld] = ev.get(fld, None)
    if t in ("StopEvent", "Done"):
        res = act.get("result", "v")
        if res == "v":
            extra["result"] = {"v": v}
        elif res == "collected":
            extra["result"] = {"v": v, "got": sorted(str(x.get("v", None)) for x in local.get("collected", []))}
        elif res == "waited":
            w = local.get("waited")
            extra["result"] = {"v": v, "waited": None if w is None else w.get("v", None), "timed_out": local.get("timed_out", False)}
        elif res == "state":
            extra["result"] = {"v": v, "state": state_val}
        elif res == "collected_set":
            # the set only: independent of which event happened to complete the collection
            extra["result"] = {"got": sorted(str(x.get("v", None)) for x in local.get("collected", []))}
        elif res == "const":
            extra["result"] = {"done": True, "in": str(v)}
        else:
            extra["result"] = res
    if act.get("v_const") is not None:
        cv = act["v_const"]  # order-independent lineage (deterministic result under any schedule)
    e = mk_event(t, cv, extra)
    r.add("emit", how="return", step=step, bid=bid, att=att, uid=e.get("uid"), v=cv, type=t, target=None, parent=uid)
    return e


def _send(ctx, e, target, step, bid):
    """ctx.send_event with the refusal recorded: an event a step sends must be taken by the engine"""
    try:
        ctx.send_event(e, step=target)
    except Exception as x:  # noqa: BLE001
        REC.add("step_send_error", step=step, bid=bid, uid=e.get("uid"), exc=type(x).__name__, msg=str(x)[:200], thread=threading.current_thread() is not threading.main_thread())
        raise


def _collect_act(ctx, ev, act, step, bid, uid, local):
    from vf import events as E

    r = REC
    types_ = [E.BY_NAME[t] for t in act["types"]]
    buf = act.get("buf")
    if act.get("buf_from") is not None:
        buf = f"b{ev.get(act['buf_from'], 0)}"
    got = ctx.collect_events(ev, types_, buffer_id=buf)
    r.add("collect", step=step, bid=bid, uid=uid, buf=buf or "default", etype=type(ev).__name__,
          got=None if got is None else [[type(x).__name__, x.get("uid", None), x.get("v", None)] for x in got])
    if got is not None:
        local["collected"] = got
    return got


def _interp_sync(ctx, ev, sp, prog):
    """the same instrumented body for a plain `def` step (runs in an executor thread): only the acts a synchronous body can perform
    -- real-time jitter, raise, collect_events, return.  It takes no virtual time."""
    import time as _time

    r = REC
    step = sp["name"]
    ri = ctx.retry_info()
    att = ri.retry_number
    with _SYNC_LOCK:
        bid = r.new_bid()
        _NTH[step] = _NTH.get(step, 0) + 1
    uid = _ev_uid(ev)
    v = _ev_v(ev)
    r.add("enter", step=step, uid=uid, v=v, att=att, bid=bid, type=type(ev).__name__, sync=True,
          lastexc=(type(ri.last_exception).__name__ + ":" + str(ri.last_exception)) if ri.last_exception is not None else None,
          elapsed=ri.elapsed_seconds)
    how = "return"
    out = None
    local = {}
    try:
        for act in sp["acts"]:
            k = act["k"]
            if k in ("sleep", "rsleep"):
                # real-time jitter so that parallel executor threads really interleave
                _time.sleep(pick([0, 0.0005, 0.001, 0.002, 0.004], prog.get("sched_seed", 0), step, v, att, "rs"))
            elif k == "fail":
                n = _val(act.get("n", 1), ev, att, 0)
                if n < 0 or att < n:
                    exc = EXC[_val(act.get("exc", "VfError"), ev, att, "VfError")]
                    raise exc(f"{step}|{v}|{att}")
            elif k == "collect":
                if _collect_act(ctx, ev, act, step, bid, uid, local) is None:
                    if act.get("cont"):
                        continue
                    return None
            elif k == "send":
                ai = sp["acts"].index(act)
                for i, item in enumerate(act["items"]):
                    cv = f"{v}>{step}.{ai}.{i}"
                    e = mk_event(act["type"], cv, item)
                    r.add("emit", how="send", step=step, bid=bid, att=att, uid=e.get("uid"), v=cv, type=act["type"], target=act.get("target"), parent=uid)
                    _send(ctx, e, act.get("target"), step, bid)
            elif k == "ret":
                out = _ret_value(act, ev, sp, prog, att, v, uid, bid, local)
                return out
            else:
                raise AssertionError(f"act {k} is not available to a synchronous step body")
        return None
    except BaseException as e:  # noqa: BLE001
        how = "raise:" + type(e).__name__
        raise
    finally:
        from workflows.events import Event

        r.add("exit", step=step, uid=uid, v=v, att=att, bid=bid, how=how, out_uid=(out.get("uid", None) if isinstance(out, Event) else None),
              out_type=(type(out).__name__ if out is not None else None))


async def _run_acts(ctx, ev, sp, prog, att, v, uid, bid):
    r = REC
    step = sp["name"]
    local = {}
    for ai, act in enumerate(sp["acts"]):
        k = act["k"]
        if k == "sleep":
            d = _val(act.get("d", 0), ev, att, 0)
            if d == 0 and act.get("yield0", True):
                await asyncio.sleep(0)
            elif d:
                await asyncio.sleep(d)
        elif k == "burn":
            # blocking work: virtual time passes without the event loop getting control
            vclock.burn(_val(act.get("d", 0), ev, att, 0))
            r.add("burn", step=step, bid=bid, uid=uid, d=act.get("d"))
        elif k == "yield":
            for _ in range(act.get("n", 1)):
                await asyncio.sleep(0)
        elif k == "send":
            for i, item in enumerate(act["items"]):
                cv = f"{v}>{step}.{ai}.{i}"
                e = mk_event(act["type"], cv, item)
                r.add("emit", how="send", step=step, bid=bid, att=att, uid=e.get("uid"), v=cv, type=act["type"], target=act.get("target"),
                      parent=uid)
                _send(ctx, e, act.get("target"), step, bid)
                gap = act.get("gap")
                if gap is not None:
                    await asyncio.sleep(gap)
        elif k == "sendm":
            m = int(ev.get(act["count_from"], 1) or 0)
            for i in range(m):
                cv = f"{v}>{step}.{ai}.{i}"
                lat = pick(act.get("lats", [0]), prog.get("sched_seed", 0), cv, "lat")
                fl = pick(list(range(0, act.get("fails2", 0) + 1)), prog.get("sched_seed", 0), cv, "fails") if act.get("fails2") else 0
                e = mk_event(act["type"], cv, {"lat": [lat], "fails": fl})
                r.add("emit", how="send", step=step, bid=bid, att=att, uid=e.get("uid"), v=cv, type=act["type"], target=act.get("target"),
                      parent=uid)
                _send(ctx, e, act.get("target"), step, bid)
        elif k == "fail":
            n = _val(act.get("n", 1), ev, att, 0)
            if n < 0 or att < n:
                exc = EXC[_val(act.get("exc", "VfError"), ev, att, "VfError")]
                raise exc(f"{step}|{v}|{att}")
        elif k == "collect":
            if _collect_act(ctx, ev, act, step, bid, uid, local) is None:
                if act.get("cont"):
                    continue   # this invocation goes on to feed another buffer
                return None
        elif k == "wait":
            from vf import events as E

            T = E.BY_NAME[act["type"]]
            wid = act.get("wid")
            if wid is not None:
                wid = wid.replace("{v}", str(v)).replace("{uid}", str(uid))
            req = {kk: (v if vv == "{v}" else dec(vv)) for kk, vv in (act.get("req") or {}).items()}
            # no explicit waiter id: the engine derives one; the harness keys its own records by invocation
            rwid = wid if wid is not None else f"default:{step}:{uid}"
            ask = None
            if act.get("ask"):
                ask = E.BY_NAME[act["ask"]](uid=f"ask:{rwid}", v=v, **req)
            kwargs = {}
            if "timeout" in act:
                kwargs["timeout"] = act["timeout"]
            r.add("wait_call", step=step, bid=bid, uid=uid, wid=rwid, v=v, req=req, type=act["type"])
            try:
                # `engine_wid`: the id handed to the engine (e.g. one constant id reused by successive invocations) while the
                # harness keeps its records per invocation
                got = await ctx.wait_for_event(T, waiter_event=ask, waiter_id=act.get("engine_wid", wid), requirements=req or None, **kwargs)
            except asyncio.TimeoutError:
                r.add("wait_timeout", step=step, bid=bid, uid=uid, wid=rwid, v=v)
                if act.get("on_timeout") == "raise":
                    raise
                local["waited"] = None
                local["timed_out"] = True
            else:
                r.add("wait_ret", step=step, bid=bid, uid=uid, wid=rwid, v=v, req=req, want=act["type"],
                      got_type=type(got).__name__, got_uid=got.get("uid", None), got_fields={kk: got.get(kk, None) for kk in req})
                local["waited"] = got
        elif k == "stream":
            from vf import events as E

            e = E.BY_NAME[act.get("type", "EvS")](uid=REC.new_uid(), v=f"{v}>{step}.{ai}")
            r.add("emit", how="stream", step=step, bid=bid, att=att, uid=e.get("uid"), v=e.get("v"), type=act.get("type", "EvS"), target=None, parent=uid)
            ctx.write_event_to_stream(e)
        elif k == "state":
            op = act["op"]
            if "{i}" in act["key"]:
                act = {**act, "key": act["key"].replace("{i}", str(ev.get("i", None)))}
            if prog.get("typed_state"):
                async with ctx.store.edit_state() as s:
                    if op == "append":
                        s.log.append([act["key"], v])
                    elif op == "set":
                        s.kv[act["key"]] = act.get("val", v)
                    else:
                        s.kv[act["key"]] = s.kv.get(act["key"], 0) + 1
            elif op == "append":
                async with ctx.store.edit_state() as s:
                    cur = list(s.get(act["key"], []))
                    if act.get("sleep"):
                        await asyncio.sleep(act["sleep"])
                    cur.append(v)
                    s[act["key"]] = cur
            elif op == "set":
                await ctx.store.set(act["key"], act.get("val", v))
            elif op == "incr":
                async with ctx.store.edit_state() as s:
                    s[act["key"]] = s.get(act["key"], 0) + 1
            r.add("state", step=step, bid=bid, op=op, key=act["key"])
        elif k == "only":
            # the step accepts several event types but only works on some of them: the others are looked at and dropped
            if type(ev).__name__ not in act["types"]:
                r.add("ignored_input", step=step, bid=bid, uid=uid, type=type(ev).__name__)
                return None
        elif k == "hop":
            # a self-feeding chain: hand back an event of the step's own input type until the counter in the payload runs out
            left = int(ev.get("left", 0) or 0)
            if left > 0:
                e = mk_event(act["type"], f"{v}>{step}.h", {"left": left - 1, "chain": ev.get("chain", None)})
                r.add("emit", how="return", step=step, bid=bid, att=att, uid=e.get("uid"), v=e.get("v"), type=act["type"], target=None, parent=uid)
                return e
            return _ret_value({"k": "ret", "type": act["done"]}, ev, sp, prog, att, v, uid, bid, local)
        elif k == "ret":
            state_val = None
            if act.get("result") == "state" and act.get("type") in ("StopEvent", "Done"):
                st = await ctx.store.get_state()
                state_val = st.to_dict() if hasattr(st, "to_dict") else None
            return _ret_value(act, ev, sp, prog, att, v, uid, bid, local, state_val)
        else:
            raise AssertionError(f"unknown act {k}")
    return None


# --------------------------------------------------------------------- builder
def _union(types_):
    types_ = list(dict.fromkeys(types_))
    if not types_:
        return type(None)
    out = types_[0]
    for t in types_[1:]:
        out = typing.Union[out, t]
    return out


def _produced_types(sp):
    out = []
    for act in sp["acts"]:
        if act["k"] in ("send", "sendm", "ret") and act.get("type") not in (None, "nonevent", "nonevent_falsy"):
            out.append(act["type"])
        if act["k"] == "hop":
            out += [act["type"], act["done"]]
    return out


class HostilePolicy:
    """User-supplied retry policy that misbehaves (C04: 'user-supplied retry predicates/policies')."""

    def __init__(self, kind, n):
        self.kind = kind
        self.n = n

    def next(self, elapsed_time, attempts, error, *, seed=None):
        if attempts > self.n:
            return None
        k = self.kind
        if k == "raise":
            raise RuntimeError("retry policy exploded")
        if k == "str":
            return "soon"
        if k == "nan":
            return float("nan")
        if k == "neg":
            return -1.0
        return 0.0


@dataclasses.dataclass
class DataclassPolicy:
    """the same user policy written as a plain @dataclass (eq=True => unhashable): RetryPolicy is a structural protocol,
    nothing requires policy objects to be hashable or weak-referenceable"""

    kind: str
    n: int

    def next(self, elapsed_time, attempts, error, *, seed=None):
        return HostilePolicy.next(self, elapsed_time, attempts, error, seed=seed)


def _namespace_policy(kind, n):
    inner = HostilePolicy(kind, n)
    return types.SimpleNamespace(next=inner.next, kind=kind, n=n)


def build_policy(ast):
    """retry policy AST -> real RetryPolicy (see vf.policy)."""
    from vf import policy

    if ast is not None and "hostile" in ast:
        if ast["hostile"] == "pred_raise":
            import workflows.retry_policy as rp

            def pred(e):
                raise RuntimeError("retry predicate exploded")

            return rp.retry_policy(retry=rp.retry_if_exception(pred), wait=rp.wait_fixed(0), stop=rp.stop_after_attempt(ast["n"] + 1))
        shape = ast.get("shape", "class")
        if shape == "dataclass":
            return DataclassPolicy(ast["hostile"], ast["n"])
        if shape == "namespace":
            return _namespace_policy(ast["hostile"], ast["n"])
        return HostilePolicy(ast["hostile"], ast["n"])
    return policy.build(ast)


class VfRes:
    def __init__(self, step, serial):
        self.step, self.serial = step, serial


def _make_factory(rs, step):
    """resource factory of one step: async (really suspends for `delay`) or sync; the first `raise_first` calls raise
    RuntimeError(`msg`) -- an exception raised AROUND the step body, not inside it"""
    calls = {"n": 0}

    def _enter():
        calls["n"] += 1
        REC.add("res_enter", step=step, n=calls["n"])
        return calls["n"]

    def _finish(n):
        if n <= rs.get("raise_first", 0):
            REC.add("res_raise", step=step, n=n)
            raise RuntimeError(rs.get("msg", "resource factory failed"))
        REC.add("res_ready", step=step, n=n)
        return VfRes(step, n)

    if rs.get("kind", "async") == "async":
        async def factory():
            n = _enter()
            if rs.get("delay"):
                await asyncio.sleep(rs["delay"])
            return _finish(n)
    else:
        def factory():
            return _finish(_enter())
    factory.__qualname__ = f"vf_res_{step}"
    return factory


def build_workflow(spec):
    """Return a fresh Workflow subclass implementing the program spec."""
    from vf import events as E
    from workflows import Context, Workflow, step
    from workflows.decorators import catch_error
    from workflows.events import StepFailedEvent

    consumed = set()
    for sp in spec["steps"]:
        consumed.update(sp.get("in", []))
    ns = {}
    base_ns = {}
    late = []
    for sp in spec["steps"]:
        name = sp["name"]
        is_handler = sp.get("handler") is not None
        in_types = [StepFailedEvent] if is_handler else [E.BY_NAME[t] for t in sp["in"]]
        prod = [t for t in _produced_types(sp) if t in consumed or t in ("StopEvent", "Done") or t.startswith("Ask")]
        prod += [t for t in sp.get("declare", [])]
        ret_types = [E.BY_NAME[t] for t in prod] + [type(None)]

        def make(sp_):
            if sp_.get("res"):
                # a resource injected into the step (Annotated[VfRes, Resource(factory)]): resolved by the engine around the body
                async def fn(self, ctx, ev, res):
                    REC.add("res_got", step=sp_["name"], serial=getattr(res, "serial", None))
                    return await _interp(ctx, ev, sp_, spec)

                return fn
            if sp_.get("sync"):
                # plain `def` step: the engine runs it in the default thread pool
                def fn(self, ctx, ev):
                    return _interp_sync(ctx, ev, sp_, spec)

                return fn
            if sp_.get("late"):
                # free function, attached to the class with add_step AFTER an instance exists (make_instance)
                async def fn(ctx, ev):
                    return await _interp(ctx, ev, sp_, spec)
            else:
                async def fn(self, ctx, ev):
                    return await _interp(ctx, ev, sp_, spec)

            return fn

        fn = make(sp)
        fn.__name__ = name
        fn.__qualname__ = f"VfProgram.{name}"
        fn.__annotations__ = {"ctx": (Context[VfState] if spec.get("typed_state") else Context), "ev": _union(in_types), "return": _union(ret_types)}
        if sp.get("res"):
            from workflows.resource import Resource

            fn.__annotations__["res"] = typing.Annotated[VfRes, Resource(_make_factory(sp["res"], name), cache=bool(sp["res"].get("cache", True)))]
        if is_handler:
            h = sp["handler"]
            fn = catch_error(for_steps=h.get("for"), max_recoveries=h.get("max", 1))(fn)
        else:
            pol = build_policy(sp["retry"]) if sp.get("retry") else None
            fn = step(num_workers=sp.get("nw", 1), retry_policy=pol)(fn)
        if sp.get("late"):
            late.append(fn)
        elif name in (spec.get("inherit_only") or []):
            base_ns[name] = fn   # defined by the base class only: the program class inherits it as is
        else:
            ns[name] = fn
            if name in (spec.get("inherit") or []) and not is_handler:
                # the base class declares the same step with ANOTHER configuration (more workers, no retry policy); the program
                # class overrides it, and the override's configuration is the one that counts
                bfn = make(sp)
                bfn.__name__ = name
                bfn.__qualname__ = f"VfBase.{name}"
                bfn.__annotations__ = dict(fn.__annotations__) if hasattr(fn, "__annotations__") else {}
                bfn.__annotations__ = {"ctx": (Context[VfState] if spec.get("typed_state") else Context), "ev": _union(in_types), "return": _union(ret_types)}
                base_ns[name] = step(num_workers=sp.get("nw", 1) + 2, retry_policy=None)(bfn)
    base = Workflow
    if base_ns:
        base = types.new_class("VfBase", (Workflow,), {}, lambda d: d.update(base_ns))
    cls = types.new_class("VfProgram", (base,), {}, lambda d: d.update(ns))
    cls._vf_late = late
    return cls


def make_instance(spec, **overrides):
    cls = build_workflow(spec)
    kw = dict(timeout=spec.get("timeout"), disable_validation=spec.get("disable_validation", False))
    if spec.get("skip_graph_checks"):
        kw["skip_graph_checks"] = set(spec["skip_graph_checks"])
    if spec.get("num_concurrent_runs") is not None:
        kw["num_concurrent_runs"] = spec["num_concurrent_runs"]
    if spec.get("verbose"):
        kw["verbose"] = True   # documented constructor flag: wraps the run's adapter in the verbose logger
    kw.update(overrides)
    if not cls._vf_late:
        return cls(**kw)
    inst = cls(**kw)
    for fn in cls._vf_late:
        cls.add_step(fn)  # the workflow is assembled further after the instance was constructed
    return inst
