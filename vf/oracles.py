"""Oracles over a engine_run.Trace.  Each takes (trace, acc, case) and reports violations with a
mechanism signature.  Written from the property statements, not from the code."""
from __future__ import annotations

from collections import Counter, defaultdict

from vf.common import h


def nw_of(spec):
    return {s["name"]: (1 if s.get("handler") is not None else s.get("nw", 1)) for s in spec["steps"]}


# ------------------------------------------------------------------ C01
def c01(tr, acc, case):
    spec = tr.spec
    nw = nw_of(spec)
    # (a) black box: bodies in flight per step
    running = Counter()
    peak = Counter()
    for r in tr.rec.log:
        if r["k"] == "enter":
            running[r["step"]] += 1
            peak[r["step"]] = max(peak[r["step"]], running[r["step"]])
            acc.hit("body_enter")
            if running[r["step"]] > nw[r["step"]]:
                acc.violation({"mech": "bodies_exceed_num_workers", "kind": "body_log"},
                              f"step {r['step']} has {running[r['step']]} bodies in flight > num_workers={nw[r['step']]} at vt={r['t']}", case)
        elif r["k"] == "exit":
            running[r["step"]] -= 1
    for s, p in peak.items():
        if p == nw[s]:
            acc.hit(f"body_full_capacity_nw{nw[s]}")
    # (b) invariant at the reducer hook
    for t in tr.ticks:
        acc.hit("reducer_post")
        for s, st in t["post"].items():
            ids = st["ip"]
            if len(ids) > st["nw"]:
                acc.violation({"mech": "in_progress_exceeds_num_workers", "kind": "reducer", "tick": t["tick"]},
                              f"reducer state after {t['tick']}: step {s} has {len(ids)} in progress > {st['nw']}", case)
            if len(set(ids)) != len(ids):
                acc.violation({"mech": "duplicate_worker_slot", "kind": "reducer", "tick": t["tick"]},
                              f"reducer state after {t['tick']}: step {s} slots {ids} not distinct", case)
            if any((not isinstance(i, int)) or i < 0 or i >= st["nw"] for i in ids):
                acc.violation({"mech": "worker_slot_out_of_range", "kind": "reducer", "tick": t["tick"]},
                              f"reducer state after {t['tick']}: step {s} slots {ids} outside [0,{st['nw']})", case)
            if st["q"] > 0:
                acc.hit("queue_nonempty")
            if len(ids) == st["nw"]:
                acc.hit(f"state_full_capacity_nw{st['nw']}")
    for rw in tr.extra.get("rewinds", []):
        for s, st in rw["post"].items():
            ids = st["ip"]
            if len(ids) > st["nw"] or len(set(ids)) != len(ids) or any(i < 0 or i >= st["nw"] for i in ids):
                acc.violation({"mech": "rewind_bad_slots", "kind": "reducer"}, f"rewind_in_progress produced slots {ids} for {s} (nw={st['nw']})", case)
    # (c) stream: a slot is never RUNNING twice without NOT_RUNNING in between; slot ids in range
    slot = {}
    for e in tr.stream:
        ssc = e.get("ssc")
        if not ssc or ssc[2] == "<enqueued>":
            continue
        name, state, wid = ssc
        acc.hit("stream_slot_events")
        try:
            wi = int(wid)
        except ValueError:
            wi = -1
        if name in nw and not (0 <= wi < nw[name]):
            acc.violation({"mech": "stream_slot_out_of_range"}, f"stream shows {name} worker_id={wid} with num_workers={nw[name]}", case)
        k = (name, wid)
        if state == "RUNNING":
            if slot.get(k):
                acc.violation({"mech": "slot_running_twice", "kind": "stream"}, f"stream: {name}[{wid}] RUNNING twice without NOT_RUNNING", case)
            slot[k] = True
        elif state == "NOT_RUNNING":
            slot[k] = False


# ------------------------------------------------------------------ helpers
def accepted_map(spec):
    """type name -> list of plain steps (no handlers) accepting exactly that type"""
    acc = defaultdict(list)
    for s in spec["steps"]:
        if s.get("handler") is not None:
            continue
        for t in s.get("in", []):
            acc[t].append(s["name"])
    return acc


def plain_steps_all(spec):
    return {s["name"] for s in spec["steps"] if s.get("handler") is None}


def sig_of_trace(tr):
    return h(tr.tick_signature())


# ------------------------------------------------------------------ C02
def _ms(summary):
    """multiset of (step, uid) over queue + in progress"""
    c = Counter()
    for s, st in summary.items():
        for (uid, _att, _id) in st["qe"]:
            c[(s, uid)] += 1
        for (_wid, uid, _att, _id) in st["ipe"]:
            c[(s, uid)] += 1
    return c


def _matches(waiter, etype, fields):
    (_wid, resolved, timed_out, wtype, req, _evuid, _hasreq) = waiter
    if wtype != etype:
        return False
    return all(fields.get(k, None) == v for k, v in req.items())


def c02(tr, acc, case):
    for r_ in tr.rec.of("step_send_error"):
        acc.hit("send_refused_eval")
        acc.violation({"mech": "step_could_not_send_event", "exc": r_["exc"], "from_sync_step": bool(r_.get("thread"))},
                      f"ctx.send_event called by step {r_['step']} raised {r_['exc']}: {r_['msg']}; the event (uid {r_['uid']}) was never handed to any step", case)
        break
    spec = tr.spec
    amap = accepted_map(spec)
    handler_steps = {s["name"] for s in spec["steps"] if s.get("handler") is not None}
    step_names = [s["name"] for s in spec["steps"]]
    input_required = {"Ask", "Ask2", "InputRequiredEvent"}
    terminal_seen = False
    expected_unhandled = Counter()
    for t in tr.ticks:
        if terminal_seen:
            break
        pre, post = _ms(t["pre"]), _ms(t["post"])
        delta = Counter(post)
        delta.subtract(pre)
        delta = {k: v for k, v in delta.items() if v != 0}
        kind = t["tick"]
        if kind == "TickAddEvent":
            acc.hit("route_eval")
            etype, uid, target = t["etype"], t["uid"], t.get("step")
            fields = t.get("efields", {})
            is_retry = bool(t.get("attempts"))
            cands = []
            for s_ in step_names:
                for w in t["pre"][s_]["wait"]:
                    if _matches(w, etype, fields):
                        cands.append((s_, w))
            if any(w[6] and not w[4] for _s, w in cands):
                # resumed waiter whose requirements are not re-established yet: out of scope here (C10)
                acc.note("c02_skipped_unestablished_waiter")
                return
            rematch = [(s_, w[5]) for s_, w in cands if (w[1] or w[2])]
            foreign = [(s_, w[5]) for s_, w in cands if not (w[1] or w[2]) and target is not None and target != s_]

            def expected(with_rematch, with_foreign):
                e = Counter()
                ws = set()
                for s_, w in cands:
                    stale = bool(w[1] or w[2])
                    is_foreign = target is not None and target != s_
                    if stale and not with_rematch:
                        continue
                    if is_foreign and not with_foreign:
                        continue
                    ws.add(s_)
                    e[(s_, w[5])] += 1
                for s_ in amap.get(etype, []):
                    if s_ in ws:
                        continue
                    if target is None or target == s_:
                        e[(s_, uid)] += 1
                if etype == "StepFailedEvent" and target in handler_steps:
                    e[(target, uid)] += 1
                return e, ws

            exp, waiting_steps = expected(False, False)
            for _ in waiting_steps:
                acc.hit("waiter_delivery")
            if target is not None:
                acc.hit("targeted_delivery")
            got = Counter(delta)
            if got != exp:
                if got == expected(False, True)[0]:
                    acc.violation({"mech": "targeted_event_resolves_foreign_waiter", "internal_retry": is_retry},
                                  f"{etype} uid={uid} addressed to step {target!r} also resolved a waiter of {sorted(set(s_ for s_, _ in foreign))}", case)
                elif got == expected(True, False)[0]:
                    acc.violation({"mech": "resolved_waiter_rematch"},
                                  f"{etype} uid={uid} re-woke step(s) {sorted(set(s_ for s_, _ in rematch))} whose waiter was already resolved / timed out", case)
                elif got == expected(True, True)[0]:
                    acc.violation({"mech": "targeted_event_resolves_foreign_waiter", "internal_retry": is_retry, "stale_waiter": True},
                                  f"{etype} uid={uid} addressed to {target!r} re-woke a foreign step whose waiter was already resolved", case)
                else:
                    acc.violation({"mech": "routing_mismatch", "etype_accepted": bool(amap.get(etype)), "targeted": target is not None},
                                  f"TickAddEvent {etype} uid={uid} target={target}: queue/in-progress delta {dict(got)} != expected {dict(exp)}", case)
            # unhandled reporting
            handled = bool(exp)
            if (rematch or foreign) and got != exp:
                handled = True  # already reported above; do not double-report through the UnhandledEvent rule
            unh = [p for p in t["pubs"] if p["type"] == "UnhandledEvent"]
            if not handled and etype not in input_required and not is_retry:
                acc.hit("unhandled_expected")
                if len(unh) != 1 or unh[0]["unhandled"][0] != etype:
                    acc.violation({"mech": "unhandled_event_not_reported_once"}, f"{etype} uid={uid} accepted by nobody: {len(unh)} UnhandledEvent published", case)
                expected_unhandled[etype] += 1
            elif unh and (exp or etype in input_required):
                acc.violation({"mech": "spurious_unhandled_event"}, f"UnhandledEvent published for {etype} uid={uid} although handled/InputRequired", case)
        elif kind == "TickStepResult":
            acc.hit("conservation_eval")
            s, wid = t["step"], t["wid"]
            mine = [x for x in t["pre"][s]["ipe"] if x[0] == wid]
            allowed = [Counter()]
            if mine:
                allowed.append(Counter({(s, mine[0][1]): -1}))
            if Counter(delta) not in allowed and not t["exit"]:
                acc.violation({"mech": "queue_conservation_broken", "tick": kind},
                              f"after TickStepResult({s},{wid}) queue/in-progress changed by {delta}", case)
        elif kind == "TickWaiterTimeout":
            s = t["step"]
            w = [x for x in t["pre"].get(s, {}).get("wait", []) if x[0] == t.get("waiter_id")]
            allowed = [Counter()]
            if w:
                allowed.append(Counter({(s, w[0][5]): 1}))
            if Counter(delta) not in allowed:
                acc.violation({"mech": "queue_conservation_broken", "tick": kind}, f"after TickWaiterTimeout queue/in-progress changed by {delta}", case)
        else:
            if delta:
                acc.violation({"mech": "queue_conservation_broken", "tick": kind}, f"after {kind} queue/in-progress changed by {delta}", case)
        if t["exit"]:
            terminal_seen = True
    # ---- black box: body entries
    accepts = {s["name"]: set(s.get("in", [])) for s in spec["steps"] if s.get("handler") is None}
    plain = {s["name"] for s in spec["steps"] if s.get("handler") is None and not any(a["k"] in ("collect", "wait") for a in s["acts"])}
    entries = Counter()
    for b in tr.bodies():
        if b["step"] in handler_steps:
            continue
        acc.hit("body_entry_eval")
        if b["type"] not in accepts[b["step"]]:
            acc.violation({"mech": "delivered_to_non_accepting_step"}, f"step {b['step']} ran with {b['type']} uid={b['uid']} it does not accept", case)
        if b["att"] == 0 and b["step"] in plain:
            entries[(b["step"], b["uid"])] += 1
    emits = {r["uid"]: r for r in tr.rec.of("emit") if r["how"] != "stream"}
    for (s, uid), n in entries.items():
        if n > 1:
            acc.violation({"mech": "event_delivered_twice"}, f"event uid={uid} entered plain step {s} {n} times as a new input", case)
        e = emits.get(uid)
        if e is not None and e.get("target") not in (None, s):
            acc.violation({"mech": "targeted_event_reached_other_step"}, f"event uid={uid} addressed to {e['target']} ran at {s}", case)
    # loss: a run that is stuck (quiescent, not finished) while an accepted, routed event never ran
    if tr.quiescent and tr.outcome is None:
        routed = {(k) for t in tr.ticks if t["tick"] == "TickAddEvent" and not t.get("attempts") for k in [t["uid"]]}
        for uid in routed:
            e = emits.get(uid)
            if e is None:
                continue
            for s in amap.get(e["type"], []):
                if s in plain and (e.get("target") in (None, s)) and entries[(s, uid)] == 0:
                    acc.violation({"mech": "event_lost"}, f"run is quiescent/unfinished but event uid={uid} ({e['type']}) never ran at {s}", case)
    # stream-level count of UnhandledEvent per type (when the consumer saw the whole stream)
    if tr.consumer_done:
        seen = Counter(e["unhandled"][0] for e in tr.stream if e["type"] == "UnhandledEvent")
        for et, n in expected_unhandled.items():
            if seen.get(et, 0) != n:
                acc.violation({"mech": "unhandled_event_stream_count"}, f"{n} unaccepted {et} processed but {seen.get(et, 0)} UnhandledEvent on the stream", case)
    # black box: a retry (retry_number > 0) only ever re-enters the step that failed on that very event
    failed_before = set()
    for r in tr.rec.log:
        if r["k"] == "exit" and str(r.get("how", "")).startswith("raise:"):
            failed_before.add((r["step"], r["uid"]))
        elif r["k"] == "enter" and (r.get("att") or 0) > 0 and r["step"] in plain_steps_all(spec):
            acc.hit("retry_entry_eval")
            if (r["step"], r["uid"]) not in failed_before:
                acc.violation({"mech": "retry_delivered_to_step_that_did_not_fail"},
                              f"step {r['step']} was entered with retry_number={r['att']} for event uid={r['uid']} although it never failed on that event "
                              f"(another step's retry reached it)", case)
    # black box: a wait can only be answered by an event the run processed after that wait was first asked for
    first_call, tick_n = {}, {}
    for t in tr.ticks:
        if t["tick"] == "TickAddEvent" and t.get("uid") is not None:
            tick_n.setdefault(t["uid"], t["n"])
    for r in tr.rec.log:
        if r["k"] == "wait_call":
            first_call.setdefault(r["wid"], r["n"])
        elif r["k"] == "wait_ret" and r.get("got_uid") is not None:
            acc.hit("wait_answer_order_eval")
            tn = tick_n.get(r["got_uid"])
            if tn is not None and r["wid"] in first_call and tn < first_call[r["wid"]]:
                acc.violation({"mech": "wait_answered_by_event_processed_before_the_wait"},
                              f"step {r['step']} (invocation uid={r['uid']}) got event uid={r['got_uid']} as its wait result although that event was processed "
                              f"before this invocation first called wait_for_event", case)
    # black box (harness-side knowledge of who is waiting, independent of the engine's waiter list): in a run that got stuck,
    # a step invocation parked in wait_for_event whose type + requirements a later processed event satisfied must have got it
    if tr.quiescent and tr.outcome is None:
        by_w = {}
        for r in tr.rec.log:
            if r["k"] == "wait_call":
                by_w.setdefault(r["wid"], {"call": r, "done": False, "parked_n": None, "bid": r["bid"]})
                by_w[r["wid"]]["bid"] = r["bid"]
            elif r["k"] in ("wait_ret", "wait_timeout") and r["wid"] in by_w:
                by_w[r["wid"]]["done"] = True
            elif r["k"] == "exit" and r.get("how") == "wait":
                for w in by_w.values():
                    if w["bid"] == r["bid"] and w["parked_n"] is None:
                        w["parked_n"] = r["n"]
        for wid, w in by_w.items():
            req = w["call"].get("req") or {}
            if w["done"] or w["parked_n"] is None or not req:
                continue
            acc.hit("parked_wait_eval")
            for t in tr.ticks:
                if t["tick"] == "TickAddEvent" and t["n"] > w["parked_n"] and t.get("etype") == w["call"]["type"] and t.get("step") in (None, w["call"]["step"]) \
                        and all((t.get("efields") or {}).get(k) == v for k, v in req.items()):
                    acc.violation({"mech": "waiting_step_never_got_matching_event"},
                                  f"step {w['call']['step']} parked in wait_for_event({w['call']['type']}, {req}) never resumed although uid={t['uid']} "
                                  f"matching it was processed at vt={t['t']}; the run is stuck", case)
                    break


# ------------------------------------------------------------------ C03
def c03(tr, acc, case):
    # (a) queued work never sits while capacity is free (live run, not exiting)
    for t in tr.ticks:
        acc.hit("stall_eval")
        if not t["running"] or t["exit"]:
            continue
        for s, st in t["post"].items():
            if st["q"] > 0:
                acc.hit("queued_state")
                if len(st["ip"]) < st["nw"]:
                    acc.violation({"mech": "queued_work_with_free_capacity", "tick": t["tick"]},
                                  f"after {t['tick']}: step {s} has {st['q']} queued but only {len(st['ip'])}/{st['nw']} workers busy", case)
    # (b) idle announcements, evaluated on the runner snapshot taken at the publication instant
    clean_idle_pubs = []
    for p in tr.pubs:
        idle = p["etype"] == "WorkflowIdleEvent" or (p["etype"] == "UnhandledEvent" and p.get("unhandled") and p["unhandled"][2])
        if not idle:
            continue
        acc.hit("idle_publication")
        r = p.get("runner")
        if r is None:
            acc.inconclusive.append("idle publication without runner snapshot")
            continue
        bad = False
        busy = {s: w for s, w in r["workers"].items() if w["q"] or w["ip"]}
        if busy:
            bad = True
            acc.violation({"mech": "idle_published_with_step_work", "etype": p["etype"]}, f"{p['etype']} published while steps busy: {busy}", case)
        if "TickAddEvent" in r["wakeups"]:
            bad = True
            acc.violation({"mech": "idle_published_during_retry_delay", "etype": p["etype"]},
                          f"{p['etype']} published at vt={p['t']} while a delayed retry is scheduled ({r['wakeups']})", case)
        if any(x in ("TickAddEvent", "TickStepResult") for x in r["buffer"]):
            bad = True
            acc.violation({"mech": "idle_published_with_buffered_ticks", "etype": p["etype"]},
                          f"{p['etype']} published while tick_buffer holds {r['buffer']}", case)
        if "TickAddEvent" in r["recvq"]:
            bad = True
            acc.violation({"mech": "idle_published_with_undelivered_events", "etype": p["etype"]},
                          f"{p['etype']} published at vt={p['t']} while {r['recvq'].count('TickAddEvent')} delivered event(s) wait in the receive queue", case)
        if "TickAddEvent" in r.get("pulled", []):
            bad = True
            acc.violation({"mech": "idle_published_with_undelivered_events", "etype": p["etype"], "where": "finished_pull_task"},
                          f"{p['etype']} published at vt={p['t']} while a delivered event sits in the already finished pull task", case)
        if not bad:
            acc.hit("idle_publication_clean")
            clean_idle_pubs.append(p)
    # (d) a scheduled wakeup (delayed retry / waiter timeout) that is overdue when the run went quiet for good
    if tr.quiescent and tr.outcome is None and not tr.extra.get("runaway"):
        for rn in tr.runners[-1:]:
            try:
                overdue = [(type(t[2]).__name__, t[0]) for t in rn.scheduled_wakeups]
            except Exception:  # noqa: BLE001
                overdue = []
            acc.hit("quiet_unfinished_run_eval")
            late = [x for x in overdue if x[0] in ("TickAddEvent", "TickWaiterTimeout", "TickTimeout")]
            if late:
                acc.violation({"mech": "scheduled_wakeup_never_fired", "tick": late[0][0]},
                              f"the run went quiet for good at vt={tr.vt_end} without finishing while its wakeup heap still holds {late} (due times in runtime clock)", case)
    # (e) the run went quiet for good, unfinished, with a step slot still marked busy although no body of that step is executing:
    #     the invocation's completion was never taken in (its queued siblings then wait behind a slot nobody occupies)
    if tr.quiescent and tr.outcome is None and tr.ticks and not tr.extra.get("runaway"):
        last = tr.ticks[-1]["post"]
        open_bodies = Counter(b["step"] for b in tr.bodies() if b["t1"] is None)
        for s_, st in last.items():
            if len(st["ip"]) > open_bodies.get(s_, 0) and not any(w for w in st.get("wait", [])):
                acc.hit("zombie_slot_eval")
                acc.violation({"mech": "slot_busy_with_no_body_running", "queued_behind": st["q"] > 0},
                              f"run quiet and unfinished at vt={tr.vt_end}: step {s_} holds {len(st['ip'])} in-progress slot(s) but {open_bodies.get(s_, 0)} of its bodies are "
                              f"executing; {st['q']} event(s) queued behind", case)
    meta = (case.get("case") or {}).get("spec", {}).get("meta", {}) if isinstance(case, dict) else {}
    if meta.get("resource_failure"):
        acc.hit("failure_around_the_step_body")
        if tr.outcome is None and tr.quiescent:
            acc.violation({"mech": "work_stalled_after_failure_around_step_body"},
                          f"the resource of step cruncher failed {sum(1 for r in tr.rec.log if r['k'] == 'res_raise')} time(s) with {meta.get('msg')!r} (retry policy allows 3 attempts): "
                          f"the run ended as {tr.outcome} (quiescent={tr.quiescent}); resource calls {[ (r['k'], r['n']) for r in tr.rec.log if r['k'].startswith('res_')][:8]}", case)
    if meta.get("spin"):
        # steps that never await: the retry's delay elapses while the loop is handed one finished worker after another; once the loop
        # has had control after the due time, the retry must start, not wait until the queue of blocking work has drained
        bs = tr.bodies()
        f0 = [b for b in bs if b["step"] == "flaky" and b["att"] == 0 and b["t1"] is not None]
        if f0:
            due = f0[0]["t1"] + meta["retry_wait"]
            f1 = [b for b in bs if b["step"] == "flaky" and b["att"] == 1]
            n1 = f1[0]["n0"] if f1 else float("inf")
            between = [b for b in bs if b["step"] == "cruncher" and b["t0"] > due + 1e-9 and b["n0"] < n1]
            if any(b["step"] == "cruncher" and b["t0"] > due + 1e-9 for b in bs):
                acc.hit("retry_due_while_steps_never_await")
                if len(between) > 2 * int(meta.get("nw", 1)) + 1:
                    acc.violation({"mech": "due_retry_starved_by_steps_that_never_await"},
                                  f"retry of flaky was due at vt={due}; the control loop then started {len(between)} more cruncher bodies (vt {between[0]['t0']} .. {between[-1]['t0']}) "
                                  f"before the retry {'started at vt=' + str(f1[0]['t0']) if f1 else 'never started'}", case)
    if meta.get("retry_due") is not None:
        b1 = [b for b in tr.bodies() if b["step"] == "flaky" and b["att"] == 1]
        if b1 and b1[0]["t0"] > meta["retry_due"] + 1e-6:
            acc.hit("retry_overdue_when_loop_regained_control")
    # (c) black box cross-check for idle announcements that looked clean: no body may start afterwards
    #     without a new external input, except a waiter-timeout replay
    ext_uids = {r["uid"] for r in tr.rec.of("emit") if r["how"] == "external"}
    timeline = [(r["n"], "rec", r) for r in tr.rec.log] + [(t["n"], "tick", t) for t in tr.ticks]
    timeline.sort(key=lambda x: x[0])
    for p in clean_idle_pubs:
        for n, kind, r in timeline:
            if n <= p["n"]:
                continue
            if kind == "tick":
                if r["tick"] == "TickAddEvent" and r.get("uid") in ext_uids:
                    break  # new external input was processed after the announcement
                if r["tick"] in ("TickCancelRun", "TickTimeout"):
                    break
                continue
            if r["k"] in ("cancel_call", "handler_done"):
                break
            if r["k"] == "enter":
                to = any(x["k"] == "wait_timeout" and x["bid"] == r["bid"] for x in tr.rec.log)
                if not to:
                    acc.violation({"mech": "work_after_clean_idle_announcement"},
                                  f"step {r['step']} started at vt={r['t']} after an idle announcement at vt={p['t']} with no new external input", case)
                break


# ------------------------------------------------------------------ C04
TERMINAL_FOR = {"result": {"StopEvent", "Done"}, "failed": {"WorkflowFailedEvent"}, "cancelled": {"WorkflowCancelledEvent"},
                "timeout": {"WorkflowTimedOutEvent"}}


def outcome_kind(tr):
    o = tr.outcome
    if o is None:
        return None
    if o["kind"] == "result":
        return "result"
    if o["type"] == "WorkflowTimeoutError":
        return "timeout"
    if o["type"] == "WorkflowCancelledByUser":
        return "cancelled"
    return "failed"


def c04(tr, acc, case):
    kind = outcome_kind(tr)
    ne = tr.rec.of("nonevent_return")
    if ne:
        # a step handed back something that is not an event (42, but also 0, "", [], {}, False): that is a step failure, and
        # with no retry policy / handler on that step the run ends as failed -- unless it had already ended otherwise
        acc.hit("nonevent_return_eval")
        if kind is None:
            acc.violation({"mech": "non_event_return_did_not_end_the_run", "value": ne[0]["kind"]},
                          f"step {ne[0]['step']} returned a non-event ({ne[0]['kind']}) at vt={ne[0]['t']} but the run never ended "
                          f"(quiescent={tr.quiescent}); stream tail={[e['type'] for e in tr.stream[-3:]]}", case)
            return
    if kind is None:
        acc.note("run_not_finished")
        return
    acc.hit("finished_run")
    acc.hit(f"outcome_{kind}")
    if not tr.consumer_done:
        acc.violation({"mech": "stream_consumer_never_terminates", "outcome": kind},
                      f"run ended ({tr.outcome}) but stream_events() consumer is still pending at quiescence; stream tail={[e['type'] for e in tr.stream[-3:]]}", case)
        return
    terms = [e for e in tr.stream if e["terminal"]]
    if len(terms) != 1:
        acc.violation({"mech": "terminal_event_count", "n": len(terms)}, f"{len(terms)} terminal events on the stream: {[e['type'] for e in terms]}", case)
    if tr.stream and not tr.stream[-1]["terminal"]:
        acc.violation({"mech": "stream_does_not_end_with_terminal"}, f"last stream event is {tr.stream[-1]['type']}", case)
    if terms:
        last = terms[-1]["type"]
        if last not in TERMINAL_FOR[kind]:
            acc.violation({"mech": "terminal_event_kind_mismatch", "outcome": kind, "event": last},
                          f"run outcome {tr.outcome} but terminal stream event is {last}", case)
    left = tr.extra.get("publish_leftover") or []
    if left:
        acc.violation({"mech": "published_after_terminal_event"}, f"events published after the terminal event: {left}", case)
    # publications (at the adapter) after the terminal one
    tidx = next((i for i, p in enumerate(tr.pubs) if p["etype"] in ("StopEvent", "Done", "WorkflowFailedEvent", "WorkflowCancelledEvent", "WorkflowTimedOutEvent")), None)
    if tidx is not None and tidx != len(tr.pubs) - 1:
        acc.violation({"mech": "published_after_terminal_event", "at": "adapter"},
                      f"adapter published {[p['etype'] for p in tr.pubs[tidx + 1:]]} after terminal {tr.pubs[tidx]['etype']}", case)


# ------------------------------------------------------------------ C35
def c35(tr, acc, case):
    ended = tr.outcome is not None
    slot = {}
    preparing = Counter()
    running_after_prep = Counter()
    open_running = {}
    for i, e in enumerate(tr.stream):
        ssc = e.get("ssc")
        if not ssc:
            continue
        name, state, wid = ssc
        acc.hit("ssc_event")
        if state == "PREPARING":
            preparing[name] += 1
            acc.hit("preparing_seen")
            continue
        k = (name, wid)
        if state == "RUNNING":
            if slot.get(k):
                acc.violation({"mech": "running_without_not_running"}, f"{name}[{wid}] RUNNING twice with no NOT_RUNNING between", case)
            slot[k] = True
            open_running[k] = i
            if preparing[name] > 0:
                preparing[name] -= 1
        elif state == "NOT_RUNNING":
            if not slot.get(k):
                acc.violation({"mech": "not_running_without_running"}, f"{name}[{wid}] NOT_RUNNING with no preceding RUNNING on that worker", case)
            slot[k] = False
            open_running.pop(k, None)
    # every RUNNING matched by exactly one NOT_RUNNING unless the run ends first;
    # every PREPARING followed by a RUNNING of that step unless the run ends first
    if not ended and tr.quiescent:
        # run is stuck waiting for external input: nothing may be left RUNNING except steps parked... (a waiting step has
        # finished its invocation: NOT_RUNNING is published when it registers the waiter)
        for k in open_running:
            acc.violation({"mech": "running_never_closed"}, f"{k[0]}[{k[1]}] RUNNING never followed by NOT_RUNNING although the run is idle/quiescent", case)
        for name, n in preparing.items():
            if n > 0:
                acc.violation({"mech": "preparing_never_running"}, f"{n} PREPARING of {name} never followed by RUNNING although the run is idle/quiescent", case)
    # InputRequiredEvent returned by a step is published exactly once
    returned = [r for r in tr.rec.of("emit") if r["how"] == "return" and r["type"] in ("Ask", "Ask2")]
    seen = Counter(e["uid"] for e in tr.stream if e["type"] in ("Ask", "Ask2"))
    processed = {t["uid"] for t in tr.ticks if t["tick"] == "TickStepResult"}
    for r in returned:
        acc.hit("input_required_returned")
        n = seen.get(r["uid"], 0)
        if n > 1:
            acc.violation({"mech": "input_required_published_twice"}, f"InputRequiredEvent uid={r['uid']} published {n} times", case)
        if n == 0 and tr.consumer_done is not None and (tr.quiescent and not ended):
            acc.violation({"mech": "input_required_not_published"}, f"InputRequiredEvent uid={r['uid']} returned by {r['step']} never reached the stream", case)


# ------------------------------------------------------------------ C10
def c10(tr, acc, case):
    resumed = bool(case.get("phase") == "resumed")
    _acc = acc

    class _A:  # adds the phase to every signature
        def __getattr__(self, n):
            return getattr(_acc, n)

        def violation(self, sig, what, c):
            sig = dict(sig)
            sig["resumed"] = resumed
            _acc.violation(sig, what, c)

    acc = _A()
    log = tr.rec.log
    by_wid = defaultdict(lambda: {"ret": [], "timeout": [], "call": []})
    for r in log:
        if r["k"] == "wait_ret":
            by_wid[r["wid"]]["ret"].append(r)
        elif r["k"] == "wait_timeout":
            by_wid[r["wid"]]["timeout"].append(r)
        elif r["k"] == "wait_call":
            by_wid[r["wid"]]["call"].append(r)
    # when did the engine process matching events / timeouts for each waiter
    replayed = bool((tr.spec.get("meta") or {}).get("replayed_waits"))
    for wid, d in by_wid.items():
        acc.hit("waiter_eval")
        if replayed:
            # the invocation is executed again after this wait (a later wait of the same step, or a retry): each execution replays the
            # wait, and every replay must meet the same outcome -- the same event, or TimeoutError every time
            acc.hit("replayed_wait_eval")
            if len({r["got_uid"] for r in d["ret"]}) > 1:
                acc.violation({"mech": "wait_completed_twice", "replayed": True},
                              f"replays of wait {wid} returned different events (uids {[r['got_uid'] for r in d['ret']]})", case)
            if len(d["ret"]) + len(d["timeout"]) > 1:
                acc.hit("wait_replayed_after_its_outcome")
        elif len(d["ret"]) > 1:
            acc.violation({"mech": "wait_completed_twice"},
                          f"wait {wid} returned an event {len(d['ret'])} times (uids {[r['got_uid'] for r in d['ret']]})", case)
        for r in d["ret"]:
            acc.hit("wait_result_eval")
            if r["got_type"] != r["want"]:
                acc.violation({"mech": "wait_result_wrong_type"}, f"wait {wid} wanted {r['want']} got {r['got_type']}", case)
            # (an opaque value that travelled through a JSON snapshot inside an already resolved event comes back as its string form)
            bad = {k: (r["got_fields"].get(k), v) for k, v in r["req"].items() if r["got_fields"].get(k) != v and str(r["got_fields"].get(k)) != str(v)}
            if bad:
                acc.violation({"mech": "wait_result_violates_requirements"},
                              f"wait {wid} received event uid={r['got_uid']} with {bad} (got, required)", case)
        if len(d["timeout"]) > 1 and not replayed:
            acc.violation({"mech": "wait_timeout_raised_twice"}, f"wait {wid} raised TimeoutError {len(d['timeout'])} times", case)
        if d["timeout"] and d["ret"]:
            acc.violation({"mech": "wait_both_returned_and_timed_out"}, f"wait {wid} both returned an event and raised TimeoutError", case)
        if d["timeout"]:
            acc.hit("wait_timeout_seen")
            # a matching event reduced while the waiter was registered and before its timeout tick
            reg = None
            for t in tr.ticks:
                present = any(w[0] == wid for st in t["post"].values() for w in st["wait"])
                if reg is None and present:
                    reg = t["n"]
                if reg is None:
                    continue
                if t["tick"] == "TickWaiterTimeout" and t.get("waiter_id") == wid:
                    break
                if t["tick"] == "TickAddEvent" and t["n"] > reg:
                    for sname, st in t["pre"].items():
                        if t.get("step") not in (None, sname):
                            continue  # addressed to another step: not an event this waiter may take
                        for w in st["wait"]:
                            if w[0] == wid and not w[1] and not w[2] and (w[4] or not w[6]) and _matches(w, t["etype"], t.get("efields", {})):
                                acc.violation({"mech": "timeout_despite_matching_event"},
                                              f"wait {wid} raised TimeoutError although matching {t['etype']} uid={t['uid']} was processed before the timeout", case)
    # waiter_event published once per waiter id
    asks = Counter(e["uid"] for e in tr.stream if e["type"] in ("Ask", "Ask2") and isinstance(e.get("uid"), str) and e["uid"].startswith("ask:"))
    for uid, n in asks.items():
        acc.hit("waiter_event_eval")
        if n > 1:
            acc.violation({"mech": "waiter_event_published_twice"}, f"waiter_event {uid} published {n} times", case)


# ------------------------------------------------------------------ C05 / C06
EPS = 1e-6


def _policy_parts(pol):
    if pol is None:
        return None
    if "legacy" in pol:
        if pol["legacy"] == "constant":
            return {"retry": None, "stop": {"k": "attempt", "n": pol["n"]}, "wait": {"k": "fixed", "w": pol["delay"]}}
        return {"retry": None, "stop": {"k": "attempt", "n": pol["n"]},
                "wait": {"k": "exp", "mult": pol["initial"], "base": pol["mult"], "max": pol["max"], "min": 0}}
    return pol


def doc_delay(ast, k):
    """documented delay of the k-th retry (k=1,2,..), tenacity semantics (attempt_number = k)."""
    kind = ast["k"]
    if kind == "fixed":
        return float(ast["w"])
    if kind == "none":
        return 0.0
    if kind == "exp":
        try:
            v = ast["mult"] * float(ast["base"]) ** (k - 1)
        except OverflowError:
            v = float("inf")
        return max(max(0.0, ast["min"]), min(v, ast["max"]))
    if kind == "inc":
        return max(0.0, min(ast["start"] + ast["inc"] * (k - 1), ast["max"]))
    if kind == "chain":
        idx = min(max(k, 1), len(ast["parts"])) - 1
        return doc_delay(ast["parts"][idx], k)
    if kind in ("combine", "plus", "sum"):
        return sum(doc_delay(p, k) for p in ast["parts"])
    raise ValueError(kind)


def c05(tr, acc, case):
    spec = tr.spec
    sp = next(s for s in spec["steps"] if s["name"] == "work")
    pol = _policy_parts(sp.get("retry"))
    groups = defaultdict(list)
    for b in tr.bodies():
        if b["step"] == "work":
            groups[b["uid"]].append(b)
    if not groups:
        acc.inconclusive.append("retry family: step body never ran")
        return
    if len(groups) > 1:
        acc.hit("queued_items_case")
    for uid, bodies in groups.items():
        _c05_one(tr, acc, case, sp, pol, uid, bodies)
    # a sibling step without a retry policy that accepts the same events runs each of them exactly once (it never fails), whatever
    # the retrying step does with its own budget
    sib = defaultdict(list)
    for b in tr.bodies():
        if b["step"] == "observer":
            sib[b["uid"]].append(b)
    for uid, bodies in sib.items():
        acc.hit("sibling_execution_count_eval")
        if len(bodies) != 1 or bodies[0]["att"] != 0:
            acc.violation({"mech": "execution_count_mismatch", "direction": "more", "step": "sibling_without_policy"},
                          f"step observer (no retry policy, never fails) ran {len(bodies)} times for event uid={uid} with retry numbers {[b['att'] for b in bodies]}", case)


def _c05_one(tr, acc, case, sp, pol, uid, bodies):
    from vf import policy, programs

    if any(b["t1"] is None or b["how"] in ("cancel", "open") for b in bodies):
        return  # the run ended (another item failed it) while this item was in flight
    acc.hit("retry_run")
    s1 = bodies[0]["t0"]
    ended = tr.outcome is not None
    # --- model: how many executions should there be
    expected = None
    for i, b in enumerate(bodies, start=1):
        failed = b["how"].startswith("raise:")
        if not failed:
            expected = i
            break
        etype, msg = b["how"][6:], f"work|{b['v']}|{b['att']}"
        exc = programs.EXC[etype](msg)
        retryable = True if (pol is None or pol.get("retry") is None) else policy.model_retry(pol["retry"], exc)
        if pol is None:
            retryable = False
        elapsed = b["t1"] - s1
        wait_fixed = pol["wait"]["w"] if pol and pol["wait"]["k"] == "fixed" else 0.0
        stop = True if pol is None else policy.model_stop(pol["stop"], i, elapsed, wait_fixed)
        acc.hit("retry_decision_eval")
        if pol is not None and _mentions(pol["stop"], "delay"):
            acc.hit("stop_after_delay_eval")
        if not retryable:
            acc.hit("non_retryable_eval")
        if not retryable or stop:
            expected = i
            break
    if expected is None:
        expected = len(bodies) + 1  # model says: keep going
    # fewer executions than the model are only meaningful if the run did not end for another reason first
    decisive = any(e["type"] == "WorkflowFailedEvent" and f"|{bodies[0]['v']}|" in e["failed"]["exc"] for e in tr.stream) or any(
        b["failed"] and b["failed"]["step_name"] == "work" and b["failed"]["input_uid"] == uid for b in tr.bodies())
    # fewer executions than the model only count for the item that decided the run's fate: the others may simply have been
    # cut short because the run ended first (another item failed it / a handler returned the StopEvent)
    ended_elsewhere = tr.outcome is not None and not decisive and bodies[-1]["how"].startswith("raise:")
    if len(bodies) != expected and not (len(bodies) < expected and ended_elsewhere):
        acc.violation({"mech": "execution_count_mismatch", "policy_uses_delay_stop": bool(pol and _mentions(pol["stop"], "delay")),
                       "direction": "fewer" if len(bodies) < expected else "more"},
                      f"item uid={uid} executed {len(bodies)} times, retry-policy model (observed virtual times) says {expected}; policy={sp.get('retry')}", case)
    # --- retry_info numbering and last exception
    for i, b in enumerate(bodies):
        acc.hit("retry_info_eval")
        if b["att"] != i:
            acc.violation({"mech": "retry_number_sequence"}, f"execution #{i + 1} of uid={uid} saw retry_number={b['att']}", case)
        want = None if i == 0 else (bodies[i - 1]["how"][6:] + ":" + f"work|{bodies[i - 1]['v']}|{bodies[i - 1]['att']}")
        if b["lastexc"] != want:
            acc.violation({"mech": "retry_info_last_exception"}, f"execution #{i + 1} saw last_exception={b['lastexc']!r}, previous attempt raised {want!r}", case)
        if i > 0 and b["elapsed"] is not None and abs(b["elapsed"] - (b["t0"] - s1)) > EPS:
            acc.note("retry_info_elapsed_seconds_differs_from_real")
    # --- reported attempts / elapsed in failure events
    last = bodies[-1]
    real_elapsed = (last["t1"] - s1) if last["t1"] is not None else None
    reports = []
    for e in tr.stream:
        if e["type"] == "WorkflowFailedEvent" and e["failed"]["step"] == "work" and f"|{last['v']}|" in e["failed"]["exc"]:
            reports.append(("WorkflowFailedEvent", e["failed"]["attempts"], e["failed"]["elapsed"]))
    for b in tr.bodies():
        if b["failed"] and b["failed"]["step_name"] == "work" and b["failed"]["input_uid"] == uid:
            reports.append(("StepFailedEvent", b["failed"]["attempts"], b["failed"]["elapsed"]))
    for name, att, el in reports:
        acc.hit("failure_report_eval")
        if att != len(bodies):
            acc.violation({"mech": "reported_attempts_mismatch", "event": name}, f"{name}.attempts={att} but the step executed {len(bodies)} times", case)
        if real_elapsed is not None and abs(el - real_elapsed) > EPS:
            acc.violation({"mech": "reported_elapsed_mismatch", "event": name, "huge": bool(abs(el) > 1e6)},
                          f"{name}.elapsed_seconds={el} but {real_elapsed} (virtual) seconds really elapsed from first attempt to last failure", case)


def _mentions(ast, kind):
    if ast["k"] == kind:
        return True
    return any(_mentions(p, kind) for p in ast.get("parts", []))


def _deterministic(ast):
    return ast["k"] in ("fixed", "none", "exp", "inc") or (ast["k"] in ("chain", "combine", "plus", "sum") and all(_deterministic(p) for p in ast["parts"]))


def c06(tr, acc, case):
    spec = tr.spec
    sp = next(s for s in spec["steps"] if s["name"] == "work")
    pol = _policy_parts(sp.get("retry"))
    if pol is None:
        return
    groups = defaultdict(list)
    for b in tr.bodies():
        if b["step"] == "work":
            groups[b["uid"]].append(b)
    queued = bool((spec.get("meta") or {}).get("queued"))
    for bodies in groups.values():
        _c06_one(acc, case, pol, bodies, queued)


def _c06_one(acc, case, pol, bodies, queued=False):
    for k in range(1, len(bodies)):
        prev, nxt = bodies[k - 1], bodies[k]
        if prev["t1"] is None:
            continue
        gap = nxt["t0"] - prev["t1"]
        doc = doc_delay(pol["wait"], k)
        acc.hit("retry_gap_eval")
        acc.hit("gap_kind_" + pol["wait"]["k"])
        if queued:
            acc.hit("retry_gap_eval_with_queueing")
            if gap > doc + EPS:
                acc.hit("retry_waited_in_the_step_queue")
            if gap < doc - EPS:
                # the known off-by-one indexing of the strategy (open finding) explains a short gap only where the NEXT index documents
                # a shorter delay and the gap respects that one
                shifted = doc_delay(pol["wait"], k + 1)
                acc.violation({"mech": "retry_started_earlier_than_documented", "index_shift": bool(shifted < doc - EPS and gap >= shifted - EPS), "queued": True},
                              f"retry #{k} started {gap}s after failure #{k} (step with 1 worker and a queue); wait strategy documents at least {doc}s; wait={pol['wait']}", case)
            continue
        shifted = doc_delay(pol["wait"], k + 1)  # what a strategy indexed one attempt too far would give
        shift = abs(gap - shifted) <= EPS and abs(shifted - doc) > EPS
        if gap < doc - EPS:
            acc.violation({"mech": "retry_started_earlier_than_documented", "index_shift": shift},
                          f"retry #{k} started {gap}s after failure #{k}; wait strategy documents {doc}s (tenacity semantics); wait={pol['wait']}", case)
        elif k == 1 and _deterministic(pol["wait"]) and abs(gap - doc) > EPS:
            acc.violation({"mech": "first_retry_delay_not_initial", "index_shift": shift},
                          f"first retry waited {gap}s; the documented first delay is {doc}s; wait={pol['wait']}", case)
        elif _deterministic(pol["wait"]) and abs(gap - doc) > EPS:
            acc.note("later_retry_delay_differs_from_tenacity_index")


# ------------------------------------------------------------------ C08
def handler_layout(spec):
    hs = {s["name"]: s["handler"] for s in spec["steps"] if s.get("handler") is not None}
    owner = {}
    wildcard = next((n for n, h in hs.items() if h.get("for") is None), None)
    for s in spec["steps"]:
        if s.get("handler") is not None:
            continue
        scoped = next((n for n, h in hs.items() if h.get("for") is not None and s["name"] in h["for"]), None)
        owner[s["name"]] = scoped or wildcard
    return hs, owner


def _budget_used(v, h):
    return str(v).count(f">{h}.")


def c08_facts(tr):
    """Observable routing facts of a run (used for the model check and the validation on/off comparison)."""
    entries = sorted((b["step"], b["failed"]["step_name"], str(b["failed"]["input_uid"]), b["failed"]["exc"], b["failed"]["attempts"])
                     for b in tr.bodies() if b.get("failed"))
    fails = [e["failed"] for e in tr.stream if e["type"] == "WorkflowFailedEvent"]
    return {"handler_entries": entries, "outcome": tr.outcome, "workflow_failed": [(f["step"], f["exc"], f["attempts"]) for f in fails]}


def c08(tr, acc, case):
    spec = tr.spec
    hs, owner = handler_layout(spec)
    bodies = tr.bodies()
    by_key = defaultdict(list)
    for b in bodies:
        by_key[(b["step"], b["uid"])].append(b)
    # the run's own retry budgets: a failure is final when no later attempt of the same (step, uid) exists
    finals = []
    for (s, uid), bs in by_key.items():
        bs.sort(key=lambda b: b["att"])
        last = bs[-1]
        if last["how"].startswith("raise:"):
            finals.append(last)
    fatal = set()
    for f in finals:
        s = f["step"]
        acc.hit("exhausted_failure")
        msg = f"{f['how'][6:]}:{s}|{f['v']}|{f['att']}"
        if s in hs:
            fatal.add((s, msg))  # a handler step failing is never handled
            acc.hit("handler_step_failed")
            continue
        h = owner.get(s)
        used = _budget_used(f["v"], h) if h else 0
        entered = [b for b in bodies if b.get("failed") and b["failed"]["step_name"] == s and b["failed"]["input_uid"] == f["uid"]]
        if h is not None and used < hs[h]["max"]:
            acc.hit("route_to_handler_expected")
            acc.hit("owner_scoped" if hs[h].get("for") is not None else "owner_wildcard")
            if used > 0:
                acc.hit("lineage_reentered")
            wrong = [b for b in entered if b["step"] != h]
            if wrong:
                acc.violation({"mech": "failure_routed_to_wrong_handler"}, f"failure of {s} went to {wrong[0]['step']}, owner is {h}", case)
            ok = [b for b in entered if b["step"] == h]
            if len(ok) > 1:
                acc.violation({"mech": "handler_entered_twice_for_one_failure"}, f"{h} entered {len(ok)} times for failure of {s} uid={f['uid']}", case)
            if not ok:
                # legitimate only if the run ended first for another reason
                o = tr.outcome
                wf = [e["failed"] for e in tr.stream if e["type"] == "WorkflowFailedEvent"]
                if any(w["step"] == s and w["exc"] == msg for w in wf):
                    acc.violation({"mech": "handler_not_entered_budget_left", "validation_disabled": bool(spec.get("disable_validation"))},
                                  f"{s} exhausted retries (uid={f['uid']}), owner {h} has budget {used}/{hs[h]['max']} but the run failed with the step's exception", case)
                elif o is None and tr.quiescent:
                    acc.violation({"mech": "handler_not_entered_run_stuck"}, f"{s} exhausted retries, owner {h} never entered, run quiescent", case)
            for b in ok:
                fd = b["failed"]
                if fd["exc"] != msg:
                    acc.violation({"mech": "step_failed_event_wrong_exception"}, f"StepFailedEvent carries {fd['exc']!r}, original {msg!r}", case)
        else:
            acc.hit("budget_exhausted_or_no_owner")
            if entered:
                acc.violation({"mech": "handler_entered_beyond_budget_or_without_ownership", "has_owner": h is not None},
                              f"failure of {s} (lineage used {used}/{hs[h]['max'] if h else 0} of {h}) still entered {entered[0]['step']}", case)
            fatal.add((s, msg))
    # every handler entry must be for a step it owns, within budget, never for a handler step
    for b in bodies:
        if not b.get("failed"):
            continue
        acc.hit("handler_entry_eval")
        src = b["failed"]["step_name"]
        if src in hs:
            acc.violation({"mech": "handler_entered_for_handler_step"}, f"{b['step']} entered for failure of handler step {src}", case)
        elif owner.get(src) != b["step"]:
            acc.violation({"mech": "failure_routed_to_wrong_handler"}, f"{b['step']} entered for {src} whose owner is {owner.get(src)}", case)
        used = _budget_used(b["v"], b["step"])
        if used >= hs[b["step"]]["max"]:
            acc.violation({"mech": "handler_entered_beyond_budget_or_without_ownership", "has_owner": True},
                          f"{b['step']} entered with lineage count {used} >= max_recoveries {hs[b['step']]['max']}", case)
    # a failed run must fail with one of the fatal (original) exceptions and name that step
    if outcome_kind(tr) == "failed":
        acc.hit("failed_run_eval")
        wf = [e["failed"] for e in tr.stream if e["type"] == "WorkflowFailedEvent"]
        o = tr.outcome
        if wf:
            key = (wf[-1]["step"], wf[-1]["exc"])
            if key not in fatal:
                acc.violation({"mech": "run_failed_for_recoverable_or_unknown_failure"}, f"WorkflowFailedEvent {key} is not among the unrecoverable failures {sorted(fatal)}", case)
            if f"{o['type']}:{o['msg']}" != wf[-1]["exc"]:
                acc.violation({"mech": "run_exception_not_original"}, f"handler raised {o['type']}:{o['msg']} but WorkflowFailedEvent says {wf[-1]['exc']}", case)


# ------------------------------------------------------------------ C09
def _collect_model(expected):
    from collections import Counter as C

    def apply(state, arg):
        etype, uid = arg
        buf = list(state)
        remaining = C(expected) - C(t for t, _ in buf)
        if etype not in remaining:
            return state, None  # surplus of that type: dropped (legal reading)
        if remaining == C([etype]):
            allv = buf + [(etype, uid)]
            out = []
            pool = list(allv)
            for t in expected:
                i = next(j for j, (tt, _) in enumerate(pool) if tt == t)
                out.append(pool.pop(i)[1])
            return (), tuple(out)
        return tuple(buf + [(etype, uid)]), None

    return apply


def c09(tr, acc, case):
    from vf import lin

    spec = tr.spec
    sp = next(s for s in spec["steps"] if s["name"] == "gather")
    act = next(a for a in sp["acts"] if a["k"] == "collect")
    expected = list(act["types"])
    recs = [r for r in tr.rec.of("collect") if r["step"] == "gather"]
    # (i) shape of every returned list, (ii) each uid in at most one returned list
    seen_in = defaultdict(list)
    # the engine runs collecting steps optimistically and re-runs an invocation whose buffer snapshot went stale; the
    # *effective* result of an operation is the one of its last body (the earlier bodies' results are discarded)
    last_bid = {}
    for r in recs:
        last_bid[r["uid"]] = r["bid"]
    for r in tr.rec.of("enter"):
        # (a re-run that was started but had not reached collect_events when the run ended still supersedes the earlier bodies)
        if r["step"] == "gather" and r["bid"] > last_bid.get(r["uid"], -1):
            last_bid[r["uid"]] = r["bid"]
    exits = {r["bid"]: r for r in tr.rec.of("exit") if r["step"] == "gather"}
    result_ticks = defaultdict(list)
    for t in tr.ticks:
        if t["tick"] == "TickStepResult" and t["step"] == "gather":
            # the engine took the outcome in only if the invocation is gone from the step's in-progress set afterwards (a stale
            # optimistic completion stays there and is run again -- even if the run ends before that re-run gets to start)
            still = any(x[1] == t["uid"] for x in t["post"].get("gather", {}).get("ipe", []))
            if not still:
                result_ticks[t["uid"]].append(t["n"])
    for r in recs:
        acc.hit("collect_call")
        if r["got"] is None:
            continue
        if last_bid[r["uid"]] != r["bid"]:
            acc.note("list_returned_by_a_discarded_optimistic_run")
            continue
        ex = exits.get(r["bid"])
        if ex is None or not str(ex["how"]).startswith("return") or not any(n > ex["n"] for n in result_ticks.get(r["uid"], [])):
            # the invocation was cut off (run ended / cancelled) before the engine took its outcome in: nothing was committed
            acc.note("list_returned_to_an_invocation_that_never_completed")
            continue
        acc.hit("collect_returned_list")
        types_ = [g[0] for g in r["got"]]
        if types_ != expected:
            acc.violation({"mech": "collected_list_wrong_shape"}, f"collect_events returned types {types_}, expected {expected}", case)
        for g in r["got"]:
            seen_in[g[1]].append(r["bid"])
    for uid, bids in seen_in.items():
        if len(set(bids)) > 1:
            acc.violation({"mech": "event_in_two_returned_lists"}, f"event uid={uid} was returned by {len(set(bids))} collect_events calls (bodies {sorted(set(bids))})", case)
    # (iii) linearizability per buffer against the sequential buffer model
    #  interval of an operation = [tick where the event got a worker slot (snapshot taken), its last result tick]
    call_n, ret_n = {}, {}
    for t in tr.ticks:
        for (_wid, uid, _att, _id) in t["post"].get("gather", {}).get("ipe", []):
            call_n.setdefault(uid, t["n"])
        if t["tick"] == "TickStepResult" and t["step"] == "gather":
            ret_n[t["uid"]] = t["n"]
    final = {}
    for r in recs:
        ex = exits.get(r["bid"])
        if last_bid.get(r["uid"]) == r["bid"] and ex is not None and str(ex["how"]).startswith("return") and any(n > ex["n"] for n in result_ticks.get(r["uid"], [])):
            final[r["uid"]] = r  # last body of the operation wins (earlier ones were optimistic runs that got re-run)
    by_buf = defaultdict(list)
    for uid, r in final.items():
        if uid not in call_n or uid not in ret_n:
            continue  # operation still open when the run ended
        by_buf[r["buf"]].append({"id": uid, "call": call_n[uid], "ret": ret_n[uid], "arg": (r["etype"], uid),
                                 "out": None if r["got"] is None else tuple(g[1] for g in r["got"])})
    apply = _collect_model(expected)
    for buf, ops in by_buf.items():
        if len(ops) < 2:
            continue
        acc.hit("linearizability_eval")
        if any(a["ret"] > b["call"] and b["ret"] > a["call"] for i, a in enumerate(ops) for b in ops[i + 1:]):
            acc.hit("overlapping_operations")
        try:
            ok, order, explored = lin.check(ops, (), apply)
        except TimeoutError:
            acc.inconclusive.append("linearizability search budget exhausted")
            continue
        if not ok:
            acc.violation({"mech": "collect_history_not_linearizable"},
                          f"buffer {buf}: no sequential order of the {len(ops)} collect operations explains the returned values "
                          f"{[(o['id'], o['call'], o['ret'], o['out']) for o in sorted(ops, key=lambda o: o['call'])]}", case)


# ------------------------------------------------------------------ C11
def norm_state(state):
    """Comparable image of a BrokerState: queues, running work, collected events, waiters, running flag (timestamps dropped)."""
    from vf import programs

    def exc(e):
        return None if e is None else f"{type(e).__name__}:{e}"

    out = {"is_running": state.is_running, "workers": {}}
    for name, w in state.workers.items():
        out["workers"][name] = {
            "queue": [(programs._ev_uid(x.event), x.attempts or 0, exc(x.last_exception), sorted(x.recovery_counts.items())) for x in w.queue],
            "in_progress": sorted((x.worker_id, programs._ev_uid(x.event), x.attempts, exc(x.last_exception), sorted(x.recovery_counts.items()),
                                   sorted((k, [programs._ev_uid(e) for e in v]) for k, v in x.shared_state.collected_events.items()),
                                   sorted((wt.waiter_id, wt.resolved_event is not None, bool(wt.timed_out)) for wt in x.shared_state.collected_waiters))
                                  for x in w.in_progress),
            "collected": sorted((k, [programs._ev_uid(e) for e in v]) for k, v in w.collected_events.items()),
            "waiters": sorted((x.waiter_id, programs._ev_uid(x.event), x.waiting_for_event.__name__, sorted((k, repr(v)) for k, v in x.requirements.items()),
                               bool(x.has_requirements), None if x.resolved_event is None else programs._ev_uid(x.resolved_event), bool(x.timed_out))
                              for x in w.collected_waiters),
        }
    return out


def diff_state(a, b):
    d = []
    if a["is_running"] != b["is_running"]:
        d.append(("is_running", a["is_running"], b["is_running"]))
    for s in a["workers"]:
        for k in ("queue", "in_progress", "collected", "waiters"):
            if a["workers"][s][k] != b["workers"].get(s, {}).get(k):
                d.append((s, k, a["workers"][s][k], b["workers"].get(s, {}).get(k)))
    return d
