"""Shared shard runner for engine-level checks: generate program cases from families, run them on the real
engine under the virtual clock, apply the check's oracles to the trace."""
from __future__ import annotations

import random

from vf.common import Acc


def gen_case(seed, families):
    """families: list of (name, weight).  Deterministic in seed."""
    from vf import gen

    rnd = random.Random(seed)
    names = [f for f, w in families for _ in range(w)]
    fam = rnd.choice(names)
    fn = {"fan": gen.gen_fan, "wait": gen.gen_wait, "outcomes": gen.gen_outcomes}.get(fam) or getattr(gen, "gen_" + fam)
    spec = fn(rnd)
    spec["sched_seed"] = seed
    spec["family"] = fam
    return {"seed": seed, "family": fam, "spec": spec}


def run_shard(shard, families, oracle_fns, nontrivial=None, sample=None, post=None):
    from vf import engine_run, oracles

    acc = Acc()
    for i in range(shard["n"]):
        case = gen_case(shard["seed"] + i, families)
        run_one(case, acc, oracle_fns, nontrivial, sample, post)
    return acc.to_dict()


def run_one(case, acc, oracle_fns, nontrivial=None, sample=None, post=None):
    from vf import engine_run, oracles

    tr = engine_run.run_case(case["spec"])
    acc.case()
    acc.hit("family_" + case["family"])
    if tr.errors:
        acc.inconclusive.append(f"harness error in case seed={case['seed']}: {tr.errors[0][:300]}")
        return tr
    wit = {"case": case}
    before = sum(v["count"] for v in acc.viol.values())
    for fn in oracle_fns:
        fn(tr, acc, wit)
    if tr.livelock:
        # runaway / virtual-time limit: the partial trace was still checked; without a violation the case says nothing
        if sum(v["count"] for v in acc.viol.values()) == before:
            acc.inconclusive.append(f"run did not settle (tick or virtual-time limit) in case seed={case['seed']}")
        return tr
    nt = True if nontrivial is None else nontrivial(tr)
    if nt is True:
        acc.sig(oracles.sig_of_trace(tr))
    elif nt:
        acc.sig(nt)
    if sample is not None:
        acc.sample(sample(case, tr))
    else:
        acc.sample({"family": case["family"], "seed": case["seed"],
                    "steps": [(s["name"], s.get("nw"), s.get("in")) for s in case["spec"]["steps"]],
                    "tick_signature_head": tr.tick_signature()[:10], "outcome": tr.outcome, "vt_end": tr.vt_end})
    if post is not None:
        post(case, tr, acc)
    return tr


def replay(rp, oracle_fns, post=None):
    acc = Acc()
    run_one(rp["case"]["case"], acc, oracle_fns, None, None, post)
    return acc.to_dict()


def std_plan(tier, seed, quick_per=100, thorough_per=1500, quick_shards=16, thorough_shards=32):
    n = quick_shards if tier == "quick" else thorough_shards
    per = quick_per if tier == "quick" else thorough_per
    return [{"seed": seed * 1_000_000 + i * 10_000, "n": per} for i in range(n)]
