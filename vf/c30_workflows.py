"""Workflow classes for the C30 check (no `from __future__ import annotations`: the step decorator
resolves annotations against this module's globals).  Imported lazily by vf/checks/C30.py in the worker,
after the virtual clock is installed.  Every step body reports to the monitor found on the instance."""
import asyncio

from workflows import Context, Workflow, step
from workflows.events import Event, StartEvent, StopEvent


class Mid(Event):
    pass


class Item(Event):
    pass


class Res(Event):
    pass


async def body(wf, uid, name, lat, fail):
    mon = wf._vf_mon
    mon.enter(wf._vf_idx, uid, name)
    try:
        # runs started from INSIDE this step body (fire and forget): their tasks inherit this run's context variables
        mon.spawn_children(uid)
        if lat == "y":
            await asyncio.sleep(0)
        elif lat:
            await asyncio.sleep(lat)
        if fail:
            raise ValueError("step failed on purpose")
    finally:
        # decremented exactly when the code under test regains control of this body
        mon.exit(wf._vf_idx, uid, name)


class W1(Workflow):
    @step
    async def only(self, ev: StartEvent) -> StopEvent:
        await body(self, ev.uid, "only", ev.lat1, ev.fail)
        return StopEvent(result=ev.uid)


class W2(Workflow):
    @step
    async def a(self, ev: StartEvent) -> Mid:
        await body(self, ev.uid, "a", ev.lat1, False)
        return Mid(uid=ev.uid, lat2=ev.lat2, fail=ev.fail)

    @step
    async def b(self, ev: Mid) -> StopEvent:
        await body(self, ev.uid, "b", ev.lat2, ev.fail)
        return StopEvent(result=ev.uid)


class W3(Workflow):
    @step
    async def fan(self, ctx: Context, ev: StartEvent) -> Item | None:
        await body(self, ev.uid, "fan", 0, False)
        ctx.send_event(Item(uid=ev.uid, lat=ev.lat1, fail=False))
        ctx.send_event(Item(uid=ev.uid, lat=ev.lat2, fail=ev.fail))
        return None

    @step(num_workers=2)
    async def work(self, ev: Item) -> Res:
        await body(self, ev.uid, "work", ev.lat, ev.fail)
        return Res(uid=ev.uid)

    @step
    async def coll(self, ctx: Context, ev: Res) -> StopEvent | None:
        got = ctx.collect_events(ev, [Res, Res])
        if got is None:
            return None
        return StopEvent(result=ev.uid)
