"""Fixed universe of module-level event classes used by generated workflow programs.

Module-level so that serialisation by qualified name (`vf.events.EvA`) works.
Every event carries dynamic fields: `uid` (unique per emission), `v` (lineage value,
deterministic across re-executions) and behaviour hints (`lat`, `fails`, ...).
"""
from workflows.events import (
    Event,
    HumanResponseEvent,
    InputRequiredEvent,
    StartEvent,
    StopEvent,
)


class Go(StartEvent):
    pass


class EvA(Event):
    pass


class EvB(Event):
    pass


class EvC(Event):
    pass


class EvD(Event):
    pass


class EvE(Event):
    pass


class EvF(Event):
    pass


class EvU(Event):
    """never accepted by any generated step (UnhandledEvent probes)"""


class EvS(Event):
    """only ever written to the stream"""


class Ask(InputRequiredEvent):
    pass


class Ask2(InputRequiredEvent):
    pass


class Answer(HumanResponseEvent):
    pass


class Answer2(HumanResponseEvent):
    pass


class Done(StopEvent):
    pass


BY_NAME = {c.__name__: c for c in [Go, EvA, EvB, EvC, EvD, EvE, EvF, EvU, EvS, Ask, Ask2, Answer, Answer2, Done, StopEvent]}
PLAIN = ["EvA", "EvB", "EvC", "EvD", "EvE", "EvF"]
