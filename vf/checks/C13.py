"""C13 — a server restart at any persisted point resumes without losing work."""
import asyncio
import json
import os
import random
import shutil

from vf.common import Acc, h

ID = "C13"
LEVEL = "fault_enumeration"
VCLOCK = True
TECHNIQUE = ("runtime monitoring with enumerated crash points: real WorkflowServer + SqliteWorkflowStore; the process is 'killed' right after each persisted tick "
             "(store wrapper raises a BaseException and refuses every later write), a fresh server is started on the same database file and run to quiescence; "
             "oracle over the stored handler record, the persisted tick log and the step bodies executed after the restart")
LEVEL_TEXT = ("For each generated deterministic workflow EVERY prefix of its persisted tick log is a crash point (exhaustive per case). A new 'process' = new "
              "BasicRuntime singleton, new WorkflowServer, new event loop over the same SQLite file. Expected: handler completed with the uninterrupted "
              "run's result; a prefix that already contains the terminal tick is finalised without running any step body.")
LEVEL_NOTE = ("Trusted: in-process emulation of process death (cross-checked against a real os._exit child in the thorough tier), virtual clock, shims for "
              "starlette/instrumentation. A handler still 'running' 200 virtual seconds after the restart with nothing scheduled counts as 'stays running forever'.")
DESIGN_REF = "§5 C13"
RULE = "case = (deterministic program, crash after persisted tick k), all k enumerated; distinct = hash(program seed, k); non-trivial = crash lands before the terminal tick"
REQUIRED_REACH = ["crash_point", "restart", "resumed_completed", "terminal_prefix_finalised", "crash_after_step_result", "crash_after_add_event", "terminal_prefix_fail", "terminal_prefix_cancel", "terminal_prefix_timeout", "resumed_to_same_failure", "hitl_program", "history_longer_than_100_ticks"]
ASSUMPTIONS = ["workflows deterministic and idempotent under re-execution by construction (gen_det)"]


def plan(tier, seed):
    n = 16 if tier == "quick" else 32
    per = 5 if tier == "quick" else 30
    return [{"seed": seed * 1_000_000 + i * 10_000, "n": per} for i in range(n)]


def gen_case(seed, force_long=False):
    from vf import gen

    rnd = random.Random(seed)
    mode = rnd.choice(["complete", "complete", "complete", "fail", "cancel", "timeout"])
    if force_long:
        mode = "complete"       # the first case of the first shard always has a long persisted history (reach must not depend on the seed)
    if mode == "complete" and (force_long or rnd.random() < 0.3):
        # human in the loop: the run idles in wait_for_event (still in memory), the answers arrive from outside, and the
        # process dies after any tick persisted from then on
        from vf import idle_cases as ic

        # (half of them first wait for a quick confirmation nobody sends: a waiter TIMEOUT tick is part of the persisted history)
        spec, keys = ic.gen_program(rnd, n=1, escalate=rnd.choice([None, 0.5, 1.0]),   # one item: the result does not depend on an order
                                    warmup=(60 if force_long else 40 if rnd.random() < 0.4 else None))   # (sometimes with a history longer than 100 persisted ticks)
        spec["sched_seed"] = seed
        spec["family"] = "det"
        spec["hitl_sends"] = [{"at": 8.0 + 0.5 * i, "key": k} for i, k in enumerate(keys)]   # after every wait (incl. the re-run after a quick wait timed out, under store latency) is registered
        if rnd.random() < 0.3:
            spec["store_latency"] = 0.05
        return {"seed": seed, "family": "det", "mode": mode, "spec": spec, "cancel_at": None}
    if mode == "complete" and rnd.random() < 0.25:
        spec = gen.gen_dupfan(rnd)
        spec["sched_seed"] = seed
        return {"seed": seed, "family": "det", "mode": mode, "spec": spec, "cancel_at": None}
    spec = gen.gen_det(rnd, handler=(False if mode == "fail" else None))
    spec["sched_seed"] = seed
    cancel_at = None
    if mode == "fail":
        st = next(s for s in spec["steps"] if s["name"] == "a0")
        n = rnd.randint(1, 2)
        st["retry"] = {"wait": {"k": "fixed", "w": 0}, "stop": {"k": "attempt", "n": n}}
        for a in st["acts"]:
            if a["k"] == "fail":
                a["n"] = -1
    elif mode == "cancel":
        cancel_at = rnd.choice([0.25, 0.75, 1.25, 2.25])
    elif mode == "timeout":
        spec["timeout"] = rnd.choice([0.75, 1.25, 2.25])
    if rnd.random() < 0.25:
        spec["typed_state"] = True   # Context[VfState] persisted through the store's state store
    if rnd.random() < 0.3:
        spec["store_latency"] = 0.05  # a store whose calls suspend: restart logic interleaves with the resumed run's own writes
    return {"seed": seed, "family": "det", "mode": mode, "spec": spec, "cancel_at": cancel_at}


def run_crash(spec, db, crash_at, cancel_at=None):
    from vf import server_run as sr

    case = sr.Case(spec)
    out = {}

    async def p1():
        store = sr.fault_store("sqlite", db, crash_at=crash_at, log=[], latency=spec.get("store_latency"))
        proc = await sr.Proc(spec, store).start()
        await proc.start_run("h1", case.tr.rec)
        for sd in spec.get("hitl_sends") or []:
            async def send_at(sd=sd):
                await asyncio.sleep(sd["at"])
                await proc.send("h1", "Answer", {"key": sd["key"]}, case.tr.rec)
            out.setdefault("senders", []).append(asyncio.ensure_future(send_at()))
        if cancel_at is not None:
            await asyncio.sleep(cancel_at)
            try:
                await proc.server._service.cancel_handler("h1")
            except BaseException as e:  # noqa: BLE001  (the emulated crash may hit inside the cancel)
                out["cancel_exc"] = repr(e)
        await asyncio.sleep(300)
        if crash_at is None:
            out["h"] = sr.handler_view(await proc.handler("h1"))

    case.phase(p1)
    out["p1"] = case.phases[-1]
    out["bodies_before"] = len(case.tr.rec.of("enter"))
    # did the last tick this process reduced end the run?  (decided on this run's own timeline: tie order among
    # simultaneous tasks may differ from the reference run, so "k == number of reference ticks" is not a sound test)
    # events a step body handed to ctx.send_event in this process, and the bodies that completed (their step_result may be persisted)
    out["p1_sends"] = [(r["uid"], r["step"], r["bid"]) for r in case.tr.rec.of("emit") if r["how"] == "send"]
    out["p1_ended"] = bool(case.tr.ticks) and (case.tr.ticks[-1].get("running") is False or bool(case.tr.ticks[-1].get("exit")))
    if crash_at is not None:
        out["db_at_crash"], out["ticks_at_crash"] = sr.read_db(db)

        async def p2():
            store = sr.fault_store("sqlite", db, log=[], latency=spec.get("store_latency"))
            proc = await sr.Proc(spec, store).start()
            for sd in spec.get("hitl_sends") or []:
                # the human answers (again) after the restart: an answer the dead process had not persisted is simply repeated,
                # one it had persisted finds its waiter resolved
                await asyncio.sleep(5.0)   # (well after a re-run step has registered its wait again)
                await proc.send("h1", "Answer", {"key": sd["key"]}, case.tr.rec)
            await asyncio.sleep(300)
            out["h"] = sr.handler_view(await proc.handler("h1"))

        case.phase(p2)
        out["p2"] = case.phases[-1]
    out["bodies_after"] = len(case.tr.rec.of("enter")) - out["bodies_before"]
    out["db"], out["ticks"] = sr.read_db(db)
    return out, case


def _tick_uid(ev_json):
    try:
        d = json.loads(ev_json) if isinstance(ev_json, str) else ev_json
        v = d.get("value", d)
        return (v.get("_data") or {}).get("uid")
    except Exception:  # noqa: BLE001
        return None


def _is_step_failed_for(ev, step_name, uid_in):
    try:
        if not str(ev.get("qualified_name", "")).endswith("StepFailedEvent"):
            return False
        v = ev.get("value", {})
        return v.get("step_name") == step_name and _tick_uid(v.get("input_event")) == uid_in
    except Exception:  # noqa: BLE001
        return False


def unpersisted_outputs(ticks):
    """consequences of persisted step_result ticks that are not persisted themselves: an output event without its add_event,
    or a failure without its follow-up (retry add_event / StepFailedEvent for the handler)"""
    missing = []
    for i, t in enumerate(ticks):
        if t.get("type") != "step_result":
            continue
        later = ticks[i + 1:]
        uid_in = _tick_uid(t.get("event"))
        for r in t.get("result", []):
            if r.get("type") == "result":
                ev = r.get("result")
                if ev:
                    u = _tick_uid(ev)
                    if u is not None and not any(x.get("type") == "add_event" and _tick_uid(x.get("event")) == u for x in later):
                        missing.append(("output", u))
            elif r.get("type") == "failed":
                follow = any(
                    x.get("type") == "add_event" and (
                        (x.get("step_name") == t.get("step_name") and _tick_uid(x.get("event")) == uid_in and (x.get("attempts") or 0) > 0)
                        or _is_step_failed_for(x.get("event"), t.get("step_name"), uid_in))
                    for x in later)
                if not follow:
                    missing.append(("failure_followup", uid_in))
    return missing


def pending_waiter_timeouts(ticks):
    """waiters registered WITH a timeout by a persisted step_result whose timeout tick (or deletion) is not in the persisted log:
    their timer only lives in the dead process' wakeup heap (same mechanism as the open C14 finding 'timer lost on restart')"""
    pend = {}
    for t in ticks:
        if t.get("type") == "step_result":
            for r in t.get("result", []):
                if r.get("type") == "add_waiter" and r.get("timeout") is not None:
                    pend.setdefault(r.get("waiter_id"), True)
                elif r.get("type") == "delete_waiter":
                    pend.pop(r.get("waiter_id"), None)
        elif t.get("type") == "waiter_timeout":
            pend.pop(t.get("waiter_id"), None)
    return sorted(str(w) for w in pend)


def unpersisted_sends(ticks, p1_sends):
    """events sent with ctx.send_event by a step whose step_result tick IS persisted, whose own add_event tick is not:
    they only lived in the in-memory mailbox (same mechanism as an unpersisted returned event)"""
    from collections import Counter

    done_steps = {t.get("step_name") for t in ticks if t.get("type") == "step_result"}
    sent = Counter(uid for (uid, step, _bid) in p1_sends if step in done_steps)
    have = Counter(_tick_uid(t.get("event")) for t in ticks if t.get("type") == "add_event")
    return [("sent_event", u) for u, n in sent.items() if have.get(u, 0) < n]


def has_terminal(ticks):
    for t in ticks:
        if t.get("type") == "step_result":
            for r in t.get("result", []):
                ev = r.get("result")
                if ev:
                    s = json.dumps(ev)
                    if "StopEvent" in s:
                        return True
    return False


def run_one(case, acc, only_k=None):
    from vf import boot

    d = boot.scratch_dir()
    try:
        mode = case.get("mode", "complete")
        ref, _ = run_crash(case["spec"], os.path.join(d, "ref.db"), None, case.get("cancel_at"))
        want = {"complete": "completed", "fail": "failed", "cancel": "cancelled", "timeout": "failed"}[mode]
        if mode != "complete":
            if not ref.get("h") or ref["h"]["status"] not in (want, "completed"):
                acc.inconclusive.append(f"reference server run ({mode}) ended unexpectedly seed={case['seed']}: {ref.get('h')}")
                return
            if ref["h"]["status"] != want:
                return  # the run finished before the cancel / timeout landed: nothing to check in this mode
            n = len(ref["ticks"])
            acc.hit("reference_" + mode)
            ks = [n] + ([k for k in range(1, n)] if mode == "fail" else [])
            for k in ks:
                if only_k is not None and k != only_k:
                    continue
                out, cs = run_crash(case["spec"], os.path.join(d, f"c{k}.db"), k, case.get("cancel_at"))
                check_point_nonresult(case, k, n, ref, out, acc)
            return
        if not ref.get("h") or ref["h"]["status"] != "completed":
            acc.inconclusive.append(f"reference server run did not complete seed={case['seed']}: {ref.get('h')} {ref['p1']}")
            return
        n = len(ref["ticks"])
        acc.sample({"seed": case["seed"], "persisted_ticks": [t["type"] for t in ref["ticks"]], "reference": ref["h"]})
        if case["spec"].get("hitl_sends"):
            acc.hit("hitl_program")
        ks = list(range(1, n + 1))
        if n > 60:
            # a long history: restart points are sampled, most of them beyond the first hundred persisted ticks
            acc.hit("history_longer_than_100_ticks" if n > 100 else "history_longer_than_60_ticks")
            r_ = random.Random(case["seed"] ^ 0x10C)
            ks = sorted(set(r_.sample(range(1, n + 1), 3) + r_.sample(range(min(95, n), n + 1), min(7, n + 1 - min(95, n))) + [n]))
        for k in ks:
            if only_k is not None and k != only_k:
                continue
            out, cs = run_crash(case["spec"], os.path.join(d, f"c{k}.db"), k)
            check_point(case, k, ref, out, acc)
    finally:
        shutil.rmtree(d, ignore_errors=True)


def check_point_nonresult(case, k, n, ref, out, acc):
    """runs that end as failed / cancelled / timed out: the full persisted log must be finalised with the matching status,
    and (deterministic failures only) every proper prefix must resume to the same failure"""
    wit = {"case": {**case, "k": k}}
    acc.case()
    acc.hit("crash_point")
    ticks = out["ticks_at_crash"]
    if len(ticks) < k:
        # tie order among simultaneous tasks differs from the reference run: this run ended with fewer ticks, the crash point does not exist in it
        acc.note("crash_point_beyond_this_runs_tick_log")
        return
    if len(ticks) != k:
        acc.inconclusive.append(f"crash emulation: {len(ticks)} ticks persisted at crash point {k}")
        return
    acc.hit("restart")
    hres, r = out.get("h"), ref["h"]
    if hres is None:
        acc.violation({"mech": "handler_record_missing_after_restart"}, f"crash after tick {k}: handler row not found", wit)
        return
    if out.get("p1_ended"):
        acc.hit("terminal_prefix_finalised")
        acc.hit("terminal_prefix_" + case["mode"])
        if hres["status"] != r["status"] or (r["status"] == "failed" and bool(hres["error"]) != bool(r["error"])):
            acc.violation({"mech": "terminated_prefix_not_finalised", "mode": case["mode"], "status": hres["status"]},
                          f"the whole tick log of a run that ended as {r['status']} was persisted, but after the restart the handler is {hres}", wit)
        if out["bodies_after"] > 0:
            acc.violation({"mech": "finished_run_re_executed_after_restart", "mode": case["mode"]},
                          f"run already ended as {r['status']} in the persisted log, yet {out['bodies_after']} step bodies ran after the restart", wit)
        return
    missing = unpersisted_outputs(ticks) + unpersisted_sends(ticks, out.get("p1_sends", []))
    if hres["status"] == "running":
        acc.violation({"mech": "resumed_handler_never_finishes", "unpersisted_step_consequence_at_crash": bool(missing), "crash_after": ticks[-1]["type"]},
                      f"crash after persisted tick {k} of a failing run: handler still running 300 virtual s after the restart; unpersisted consequences {missing}", wit)
    elif case["mode"] in ("cancel", "timeout") and hres["status"] == "completed" and not hres["error"]:
        # (same for the workflow timeout: its tick was not among the k persisted ones, the timer starts afresh after the restart)
        # tie order among simultaneous tasks differed from the reference run: in THIS run the k-th persisted tick came before the
        # cancel request was reduced, so the cancellation died with the process and nobody repeats it after the restart; the resumed
        # run finishing normally is what the property asks for (false alarm found by the own sweep, VERIF_SEED=5)
        acc.note(case["mode"] + "_not_persisted_before_crash_resumed_run_completed")
    elif hres["status"] != r["status"] or hres["error"] != r["error"]:
        acc.violation({"mech": "resumed_handler_wrong_status", "status": hres["status"], "mode": case["mode"]},
                      f"crash after tick {k}: handler ended as {hres}, uninterrupted run ended as {r}", wit)
    else:
        acc.hit("resumed_to_same_failure")


def check_point(case, k, ref, out, acc):
    wit = {"case": {**case, "k": k}}
    acc.case()
    acc.hit("crash_point")
    ticks = out["ticks_at_crash"]
    if len(ticks) < k:
        # tie order among simultaneous tasks differs from the reference run: this run ended with fewer ticks, the crash point does not exist in it
        acc.note("crash_point_beyond_this_runs_tick_log")
        return
    if len(ticks) != k:
        acc.inconclusive.append(f"crash emulation: {len(ticks)} ticks persisted at crash point {k}")
        return
    last = ticks[-1]["type"]
    acc.hit("crash_after_" + last)
    acc.hit("restart")
    hres = out.get("h")
    terminal = has_terminal(ticks)
    if not terminal:
        acc.sig(h({"s": case["seed"], "k": k}))
    missing = unpersisted_outputs(ticks) + unpersisted_sends(ticks, out.get("p1_sends", []))
    if hres is None:
        acc.violation({"mech": "handler_record_missing_after_restart"}, f"crash after tick {k}: handler row not found", wit)
        return
    if terminal:
        acc.hit("terminal_prefix_finalised")
        if hres["status"] != "completed" or hres["result"] != ref["h"]["result"]:
            acc.violation({"mech": "terminated_prefix_not_finalised"},
                          f"persisted ticks 1..{k} already contain the StopEvent but after restart the handler is {hres}", wit)
        if out["bodies_after"] > 0:
            acc.violation({"mech": "finished_run_re_executed_after_restart"}, f"crash after tick {k} (terminal persisted): {out['bodies_after']} step bodies ran after the restart", wit)
        return
    if hres["status"] == "completed":
        acc.hit("resumed_completed")
        if hres["result"] != ref["h"]["result"]:
            acc.violation({"mech": "resumed_result_differs"}, f"crash after tick {k}: result {hres['result']} != uninterrupted {ref['h']['result']}", wit)
        return
    if hres["status"] == "running":
        wt = pending_waiter_timeouts(ticks)
        if wt:
            acc.hit("crash_with_waiter_timeout_pending")
        acc.violation({"mech": "resumed_handler_never_finishes", "unpersisted_step_consequence_at_crash": bool(missing), "crash_after": last,
                       **({"waiter_timeout_pending_at_crash": True} if wt else {})},
                      f"crash after persisted tick {k} ({last}): handler still running 300 virtual s after the restart (idle={hres['idle']}); waiter timeouts pending at the crash: {wt}; "
                      f"consequences of persisted step results that were not persisted (output add_event / retry / handler hand-off): {missing}", wit)
    else:
        acc.violation({"mech": "resumed_handler_wrong_status", "status": hres["status"]},
                      f"crash after persisted tick {k} ({last}): handler ended as {hres}", wit)


def run_shard(shard):
    acc = Acc()
    for i in range(shard["n"]):
        run_one(gen_case(shard["seed"] + i, force_long=(i == 0 and shard["seed"] % 1_000_000 == 0)), acc)
    return acc.to_dict()


def replay(rp):
    acc = Acc()
    c = dict(rp["case"]["case"])
    k = c.pop("k", None)
    run_one(c, acc, only_k=k)
    return acc.to_dict()
