"""C06 — retry delays follow the wait strategy in documented (tenacity) order."""
from vf import engine_check

ID = "C06"
LEVEL = "exploration"
VCLOCK = True
TECHNIQUE = ("runtime monitoring: exact virtual-time gaps between failure k and retry k measured on the real engine and compared with the documented "
             "(tenacity-indexed) delay of the generated wait-strategy AST")
LEVEL_TEXT = ("Every deterministic wait strategy and nested chain/combine, 1-6 retries, random parameters; under the virtual clock a retry delay is an "
              "exact number, so 'no earlier than' and 'the first retry uses the initial delay' are decided by comparison, not by deadlines.")
LEVEL_NOTE = "Trusted: virtual clock; documented delays transcribed from tenacity's wait_* (attempt_number = k for the k-th retry)."
DESIGN_REF = "§5 C06"
RULE = "case = retry-family program with a deterministic wait-strategy AST; distinct = hash of (wait AST, retries observed); non-trivial = >=1 retry"
REQUIRED_REACH = ["retry_gap_eval", "gap_kind_exp", "gap_kind_chain", "gap_kind_inc", "gap_kind_fixed"]
ASSUMPTIONS = ["jittered strategies are checked against their documented interval by C07 (direct calls), not here"]
FAMILIES = [("retry_waits", 1)]


def plan(tier, seed):
    return engine_check.std_plan(tier, seed, quick_per=150, thorough_per=2500)


def _oracles():
    from vf import oracles

    return [oracles.c06]


def _nontrivial(tr):
    bodies = [b for b in tr.bodies() if b["step"] == "work"]
    if len(bodies) < 2:
        return False
    return {"policy": tr.spec["meta"]["policy"], "pattern": [(b["t0"], b["t1"], b["how"]) for b in bodies]}


def _sample(case, tr):
    return {"wait": case["spec"]["meta"]["policy"].get("wait"),
            "attempts": [(b["att"], b["t0"], b["t1"]) for b in tr.bodies() if b["step"] == "work"]}


def run_shard(shard):
    return engine_check.run_shard(shard, FAMILIES, _oracles(), _nontrivial, sample=_sample)


def replay(rp):
    return engine_check.replay(rp, _oracles())
