"""C28 — SQLite schema migrations converge from any earlier schema.

Monitor shape: fault enumeration + offline state comparison.  For every starting schema
(fresh file; every prefix 0..N of the packaged migrations applied through the *real*
runner with a filtered source package; legacy ``PRAGMA user_version = v`` databases without
``schema_migrations`` built either by executing the first v packaged scripts or by one
declared CREATE TABLE) x (empty | populated tables) x (file connection | single
``unix-none`` connection) the real entry point ``SqliteWorkflowStore(db_path,
auto_migrate=True, single_connection=...)`` is run and the resulting database is compared
with a fresh install made by the same code in the same mode:

* normalised schema (tables -> PRAGMA table_info / foreign_key_list, indexes -> PRAGMA
  index_info, views/triggers -> whitespace-normalised SQL) equals the fresh schema;
* ``schema_migrations`` holds one row per packaged migration file (package ``server``), no
  version twice, nothing else;
* a second run raises nothing and leaves the full logical dump (``iterdump``) unchanged.

Fault tier: before the run, one (or two consecutive) injected failures of the migration
run, for every k the clean run reaches:
  deny@k       the k-th authorizer invocation denies its statement (the runner's own error path runs);
  crash_auth@k from the k-th authorizer invocation on everything is denied, also ROLLBACK/COMMIT
               (in-process crash emulation: nothing after that instant is persisted, then the connection is closed);
  crash_py@k   a BaseException right after the k-th Python-level sqlite call and on every later call;
  interrupt@k  the statement running at the k-th VM instruction is interrupted;
  kill_auth@k / kill_py@k  a true os._exit(9) of a forked child at the same points (strided: forks are slow here).
Afterwards a clean re-run must converge to the same three conditions.  The state the failure
left behind is snapshotted first and names the mechanism in the violation signature.
"""
from __future__ import annotations

import os
import random
import re
import shutil

from vf.common import Acc, h

ID = "C28"
LEVEL = "fault_enumeration"
TECHNIQUE = ("runtime monitoring: enumeration of starting schemas x connection modes x injected mid-migration failure points on the "
             "real migration runner, decided by comparing normalised sqlite_master/PRAGMA snapshots and schema_migrations with a fresh install")
LEVEL_TEXT = ("The space of starting schemas named by the property (fresh, each prefix of the packaged migrations, legacy user_version "
              "databases) is finite and enumerated completely in both connection modes; failure points of one run (every authorizer "
              "invocation, every Python-level sqlite call, VM-step interrupts) are enumerated per starting schema: strided in the quick "
              "tier; in the thorough tier complete for deny / in-process crash emulation, every 16th point for true os._exit kills, "
              "<=200 interrupt points, plus 120 sampled double failures per starting schema.")
LEVEL_NOTE = ("Trusted: the sqlite3 module and SQLite's own atomic commit, os.fork/_exit as the crash model (no power-loss / torn-page model), "
              "the snapshot normaliser in this file. Legacy databases are synthesised from the packaged scripts (the legacy runner is not in the repo).")
DESIGN_REF = "§5 C28"
RULE = ("case = (starting schema, populated?, connection mode, fault plan); enumerated, not sampled (double-fault plans are sampled); "
        "distinct = hash of the case; non-trivial = at least one migration is pending at the start or a fault is injected")
REQUIRED_REACH = ["multi_source_case", "clean_run_compared", "schema_equal_checked", "versions_once_checked", "second_run_compared",
                  "prefix_upgrade_compared", "legacy_bootstrap_compared", "fault_fired", "rerun_after_fault_compared",
                  "kill_fired", "deny_fired", "crash_emulation_fired", "interrupt_fired"]
ASSUMPTIONS = [
    "a legacy database at user_version=v has the schema produced by the first v packaged scripts (or the equivalent single CREATE TABLE used by the repo's own tests)",
    "one process migrates a database at a time (no concurrent migrators)",
    "a database is re-opened in the connection mode it was created in (a WAL-mode file cannot be opened through the unix-none VFS at all)",
]
SHARD_TIMEOUT = {"quick": 300, "thorough": 1800}

MIG_REL = "packages/llama-agents-server/src/llama_agents/server/_store/sqlite/migrations"
VERSION_RE = re.compile(r"--\s*migration:\s*(\d+)")

DECLARED = {
    1: ["handler_id TEXT PRIMARY KEY", "workflow_name TEXT", "status TEXT", "ctx TEXT"],
}
DECLARED[2] = DECLARED[1] + ["run_id TEXT", "error TEXT", "result TEXT", "started_at TEXT", "updated_at TEXT", "completed_at TEXT"]
DECLARED[3] = DECLARED[2] + ["idle_since TEXT"]


def _count_packaged():
    try:
        from vf import boot

        d = os.path.join(boot.REPO, MIG_REL)
        return len([f for f in os.listdir(d) if f.endswith(".sql")])
    except Exception:  # noqa: BLE001
        return None


def plan(tier, seed):
    n = _count_packaged()
    states = [{"kind": "fresh"}]
    if n is None:
        states += [{"kind": "prefix", "k": None}, {"kind": "legacy_script", "k": None}]
    else:
        states += [{"kind": "prefix", "k": k} for k in range(0, n + 1)]
        states += [{"kind": "legacy_script", "k": k} for k in range(0, n + 1)]
    states += [{"kind": "legacy_declared", "k": k} for k in sorted(DECLARED)]
    groups = []
    for mode in ("file", "single"):
        for data in (False, True):
            sts = [st for st in states if not (data and st["kind"] == "fresh")]  # nothing to populate in an empty file
            # quick: a few states per worker (the import of the server package dominates); thorough: one state per worker
            per = -(-len(sts) // 4) if tier == "quick" else 1
            for i in range(0, len(sts), per):
                groups.append({"states": sts[i:i + per], "mode": mode, "data": data, "tier": tier, "seed": seed})
    return groups


# ----------------------------------------------------------------- sqlite helpers (harness side)
def _open(path, mode):
    import sqlite3

    if mode == "single":
        return sqlite3.connect(f"file:{path}?vfs=unix-none", uri=True)
    return sqlite3.connect(path, timeout=30.0)


def _norm_sql(s):
    return re.sub(r"\s+", " ", s or "").strip()


def snapshot(path, mode):
    """(schema, versions, dump, sqltext) of a database file."""
    conn = _open(path, mode)
    try:
        schema = {}
        sqltext = {}
        rows = conn.execute("SELECT type, name, tbl_name, sql FROM sqlite_master ORDER BY type, name").fetchall()
        for typ, name, tbl, sql in rows:
            sqltext[f"{typ}:{name}"] = _norm_sql(sql)
            if typ == "table":
                cols = [tuple(r) for r in conn.execute(f"PRAGMA table_info('{name}')").fetchall()]
                fks = [tuple(r) for r in conn.execute(f"PRAGMA foreign_key_list('{name}')").fetchall()]
                idx = []
                for r in conn.execute(f"PRAGMA index_list('{name}')").fetchall():
                    icols = [tuple(c)[1:] for c in conn.execute(f"PRAGMA index_info('{r[1]}')").fetchall()]
                    idx.append((r[1], r[2], r[3], r[4], icols))
                schema[f"table:{name}"] = {"cols": cols, "fks": fks, "idx": sorted(idx)}
            elif typ == "index":
                icols = [tuple(c)[1:] for c in conn.execute(f"PRAGMA index_info('{name}')").fetchall()]
                schema[f"index:{name}"] = {"tbl": tbl, "cols": icols}
            else:
                schema[f"{typ}:{name}"] = {"tbl": tbl, "sql": _norm_sql(sql)}
        versions = None
        if "table:schema_migrations" in schema:
            versions = [tuple(r) for r in conn.execute("SELECT package, version FROM schema_migrations ORDER BY package, version").fetchall()]
        dump = "\n".join(conn.iterdump())
        counts = {}
        for key in schema:
            if key.startswith("table:") and not key.startswith("table:sqlite_"):
                t = key.split(":", 1)[1]
                counts[t] = conn.execute(f"SELECT COUNT(*) FROM '{t}'").fetchone()[0]
        return {"schema": schema, "versions": versions, "dump": dump, "sqltext": sqltext, "counts": counts}
    finally:
        conn.close()


def populate(path, mode):
    conn = _open(path, mode)
    try:
        tables = [r[0] for r in conn.execute("SELECT name FROM sqlite_master WHERE type='table'").fetchall()]
        for t in tables:
            if t.startswith("sqlite_") or t == "schema_migrations":
                continue
            cols = conn.execute(f"PRAGMA table_info('{t}')").fetchall()
            for i in range(3):
                vals = []
                for c in cols:
                    ctype = (c[2] or "").upper()
                    vals.append(i + 1 if "INT" in ctype else f"{c[1]}-{i}")
                conn.execute(f"INSERT INTO '{t}' VALUES ({','.join('?' * len(cols))})", vals)
        conn.commit()
    finally:
        conn.close()


# ----------------------------------------------------------------- running the real code
class Env:
    """Per-shard environment: repo modules, packaged migrations, scratch dir, filtered source packages."""

    def __init__(self, scratch):
        import sys

        from llama_agents.server._store import SQLITE_MIGRATION_SOURCE
        from llama_agents.server._store.migration_utils import iter_migration_files
        from llama_agents.server._store.sqlite import migrate
        from llama_agents.server._store.sqlite.sqlite_workflow_store import SqliteWorkflowStore

        self.scratch = scratch
        self.migrate = migrate
        self.Store = SqliteWorkflowStore
        self.files = [(p.name, p.read_text()) for p in iter_migration_files(SQLITE_MIGRATION_SOURCE[1])]
        self.n = len(self.files)
        self.pkgroot = os.path.join(scratch, "pkgs")
        os.makedirs(self.pkgroot, exist_ok=True)
        sys.path.insert(0, self.pkgroot)
        self._seq = 0
        import gc

        gc.collect()
        gc.freeze()  # keeps fork() + child exit cheap (no copy-on-write storm from the collector)

    def declared_versions(self):
        out = []
        for _name, text in self.files:
            first = text.splitlines()[0] if text else ""
            m = VERSION_RE.search(first)
            out.append(int(m.group(1)) if m else None)
        return out

    def prefix_pkg(self, k):
        name = f"vf_c28_prefix_{k}"
        d = os.path.join(self.pkgroot, name)
        if not os.path.isdir(d):
            os.makedirs(d)
            open(os.path.join(d, "__init__.py"), "w").close()
            for fname, text in self.files[:k]:
                with open(os.path.join(d, fname), "w") as f:
                    f.write(text)
        return name

    def newpath(self, tag="db"):
        self._seq += 1
        return os.path.join(self.scratch, f"{tag}-{self._seq}.sqlite")

    def run_real(self, path, mode, hook=None, factory=None):
        """The real entry point: the store constructor with auto_migrate=True."""
        import sqlite3

        real_connect = sqlite3.connect
        opened = []

        def connect(*a, **kw):
            if factory is not None:
                kw["factory"] = factory
            conn = real_connect(*a, **kw)
            opened.append(conn)
            if hook is not None:
                hook(conn)
            return conn

        sqlite3.connect = connect
        try:
            self.Store(path, auto_migrate=True, single_connection=(mode == "single"))
        finally:
            sqlite3.connect = real_connect
            # what process exit / garbage collection of the store would do: every connection it opened is closed
            # (an open transaction is rolled back by SQLite on close)
            for c in opened:
                try:
                    c.close()
                except Exception:  # noqa: BLE001
                    pass


def cleanup_sidecars(path):
    for suf in ("-wal", "-shm", "-journal"):
        try:
            os.remove(path + suf)
        except FileNotFoundError:
            pass


def build_template(env: Env, state, mode, data):
    """Create the starting database and return its path (closed, checkpointed)."""
    path = env.newpath("tmpl")
    kind, k = state["kind"], state.get("k")
    if kind == "fresh":
        open(path, "wb").close()
    elif kind == "prefix":
        conn = _open(path, mode)
        try:
            env.migrate.run_migrations(conn, sources=[("server", env.prefix_pkg(k))])
            conn.commit()
        finally:
            conn.close()
    elif kind == "legacy_script":
        conn = _open(path, mode)
        try:
            if k == 0:
                # pre-versioning database: the original minimal table, user_version still 0
                conn.executescript(f"CREATE TABLE handlers ({', '.join(DECLARED[1])});")
            for _fname, text in env.files[:k]:
                conn.executescript(text)
            conn.execute(f"PRAGMA user_version={int(k)}")
            conn.commit()
        finally:
            conn.close()
    elif kind == "legacy_declared":
        conn = _open(path, mode)
        try:
            conn.executescript(f"PRAGMA user_version={int(k)};\nCREATE TABLE IF NOT EXISTS handlers (\n  " + ",\n  ".join(DECLARED[k]) + "\n);")
            conn.commit()
        finally:
            conn.close()
    else:
        raise AssertionError(kind)
    if data and kind != "fresh":
        populate(path, mode)
    return path


def copy_db(env, src):
    dst = env.newpath("case")
    shutil.copyfile(src, dst)
    for suf in ("-wal", "-shm", "-journal"):
        if os.path.exists(src + suf):
            shutil.copyfile(src + suf, dst + suf)
    return dst


# ----------------------------------------------------------------- fault hooks
class _Killed(BaseException):
    """In-process crash emulation: passes through every ``except Exception`` of the runner."""


AUTH_KINDS = ("deny", "crash_auth", "kill_auth", "count_auth")
PY_KINDS = ("crash_py", "kill_py", "count_py")


def make_hook(fault, counter):
    """Authorizer / progress-handler based faults.

    deny       : the k-th authorizer invocation answers SQLITE_DENY (one failing statement; the runner's own error path runs)
    crash_auth : from the k-th invocation on EVERY statement is denied (also the runner's ROLLBACK/COMMIT), i.e. nothing after
                 that instant is persisted by this "process"; closing the connection then discards the open transaction
    kill_auth  : os._exit(9) inside the k-th invocation (forked child)
    interrupt  : the k-th progress callback (every VM instruction) interrupts the running statement
    """
    import sqlite3

    kind, k = fault["kind"], fault.get("k", -1)

    def hook(conn):
        if kind in AUTH_KINDS:
            def auth(*_a):
                i = counter["n"]
                counter["n"] += 1
                if i == k:
                    counter["fired"] = True
                    if kind == "kill_auth":
                        os._exit(9)
                    if kind == "deny":
                        return sqlite3.SQLITE_DENY
                if kind == "crash_auth" and i >= k:
                    return sqlite3.SQLITE_DENY
                return sqlite3.SQLITE_OK

            conn.set_authorizer(auth)
        elif kind in ("interrupt", "count_vm"):
            def prog():
                i = counter["n"]
                counter["n"] += 1
                if i == k and kind == "interrupt":
                    counter["fired"] = True
                    return 1
                return 0

            conn.set_progress_handler(prog, 1)

    return hook


def make_factory(fault, counter):
    """Connection factory counting Python-level sqlite calls.

    kill_py  : os._exit(9) right after the k-th call returned (forked child)
    crash_py : raise _Killed (BaseException) right after the k-th call returned and on every later call
    """
    import sqlite3

    kind, k = fault["kind"], fault.get("k", -1)

    def before():
        if kind == "crash_py" and counter["fired"]:
            raise _Killed()

    def tick():
        i = counter["n"]
        counter["n"] += 1
        if i == k:
            if kind == "kill_py":
                os._exit(9)
            if kind == "crash_py":
                counter["fired"] = True
                raise _Killed()

    class Cur(sqlite3.Cursor):
        def execute(self, *a, **kw):
            before()
            r = super().execute(*a, **kw)
            tick()
            return r

        def executescript(self, *a, **kw):
            before()
            r = super().executescript(*a, **kw)
            tick()
            return r

    class Conn(sqlite3.Connection):
        def cursor(self, *a, **kw):
            return super().cursor(Cur)

        def execute(self, *a, **kw):
            before()
            r = super().execute(*a, **kw)
            tick()
            return r

        def executescript(self, *a, **kw):
            before()
            r = super().executescript(*a, **kw)
            tick()
            return r

        def commit(self):
            before()
            r = super().commit()
            tick()
            return r

    return Conn


def run_with_fault(env: Env, path, mode, fault):
    """Run the real migration entry point with one injected fault.
    Returns (outcome, detail) with outcome in raised|raised_unfired|completed|completed_fired|killed|crashed."""
    kind = fault["kind"]
    if kind in ("kill_auth", "kill_py"):
        pid = os.fork()
        if pid == 0:
            code = 0
            try:
                counter = {"n": 0, "fired": False}
                if kind == "kill_auth":
                    env.run_real(path, mode, hook=make_hook(fault, counter))
                else:
                    env.run_real(path, mode, factory=make_factory(fault, counter))
            except BaseException:  # noqa: BLE001
                code = 3
            os._exit(code)
        _pid, status = os.waitpid(pid, 0)
        rc = os.waitstatus_to_exitcode(status)
        if rc == 9:
            return ("killed", None)
        return ("raised_unfired", "child") if rc == 3 else ("completed", None)
    counter = {"n": 0, "fired": False}
    try:
        if kind in PY_KINDS:
            env.run_real(path, mode, factory=make_factory(fault, counter))
        else:
            env.run_real(path, mode, hook=make_hook(fault, counter))
    except _Killed:
        return ("crashed", None)
    except Exception as e:  # noqa: BLE001
        if kind == "crash_auth" and counter["fired"]:
            return ("crashed", type(e).__name__)
        return ("raised", type(e).__name__) if counter["fired"] else ("raised_unfired", type(e).__name__)
    return ("completed_fired", None) if counter["fired"] else ("completed", None)


def count_points(env: Env, tmpl, mode):
    """How many authorizer calls / VM steps / Python-level calls a clean run from this template makes."""
    out = {}
    for kind in ("count_auth", "count_vm"):
        p = copy_db(env, tmpl)
        counter = {"n": 0, "fired": False}
        try:
            env.run_real(p, mode, hook=make_hook({"kind": kind}, counter))
        except Exception:  # noqa: BLE001  (the clean case reports it)
            pass
        out[kind] = counter["n"]
        os.remove(p)
        cleanup_sidecars(p)
    p = copy_db(env, tmpl)
    counter = {"n": 0, "fired": False}
    try:
        env.run_real(p, mode, factory=make_factory({"kind": "count_py"}, counter))
    except Exception:  # noqa: BLE001
        pass
    out["count_py"] = counter["n"]
    os.remove(p)
    cleanup_sidecars(p)
    return out


# ----------------------------------------------------------------- oracle
def state_tag(state):
    return state["kind"] if state.get("k") is None else f"{state['kind']}:{state['k']}"


def judge_final(env: Env, acc: Acc, case, path, mode, fresh, before_counts, sig_base):
    """The three conditions of the statement on a database the real runner has just finished migrating."""
    snap = snapshot(path, mode)
    acc.hit("schema_equal_checked")
    if snap["schema"] != fresh["schema"]:
        diff = sorted(set(snap["schema"]) ^ set(fresh["schema"])) or sorted(k for k in fresh["schema"] if snap["schema"].get(k) != fresh["schema"][k])
        acc.violation({"mech": "final_schema_differs_from_fresh_install", **sig_base},
                      f"schema after migrating from {state_tag(case['state'])} differs from a fresh install at {diff[:4]}", case)
    elif snap["sqltext"] != fresh["sqltext"]:
        acc.note("sqlite_master_text_differs_only_in_formatting")
    acc.hit("versions_once_checked")
    declared = env.declared_versions()
    got = snap["versions"] or []
    got_server = [v for p, v in got if p == "server"]
    want = sorted(v for v in declared if v)
    if sorted(got_server) != want or len(got) != len(got_server) or len(set(got_server)) != len(got_server) or len(want) != env.n:
        acc.violation({"mech": "versions_not_recorded_exactly_once", **sig_base},
                      f"schema_migrations holds {got} but the {env.n} packaged files declare versions {declared}", case)
    if before_counts is not None:
        lost = {t: (n, snap["counts"].get(t)) for t, n in before_counts.items()
                if t != "schema_migrations" and snap["counts"].get(t) != n}
        if lost:
            acc.note("rows_changed_by_migration")  # informational: the statement speaks about schema only
    # "running them again changes nothing"
    try:
        env.run_real(path, mode)
    except Exception as e:  # noqa: BLE001
        acc.violation({"mech": "second_run_raised", "exc": type(e).__name__, **sig_base},
                      f"second migration run raised {type(e).__name__}: {str(e)[:120]}", case)
        return
    snap2 = snapshot(path, mode)
    acc.hit("second_run_compared")
    if snap2["dump"] != snap["dump"] or snap2["schema"] != snap["schema"]:
        acc.violation({"mech": "second_run_changed_database", **sig_base},
                      "a second migration run changed the database (schema, schema_migrations or rows)", case)


def classify_mid_state(case, mid):
    """Name the mechanism from the state the injected failure(s) left behind (before the clean re-run)."""
    st = case["state"]
    if mid is None:
        return None
    if st["kind"].startswith("legacy") and mid["versions"] is not None:
        seeded = {v for p, v in mid["versions"] if p == "server"}
        if any(v not in seeded for v in range(1, int(st.get("k") or 0) + 1)):
            # schema_migrations exists (so the bootstrap will not run again) but the legacy versions were never seeded
            return "legacy_bootstrap_not_atomic"
    return None


def run_case(env: Env, acc: Acc, case, tmpl, fresh):
    """case = {state, mode, data, faults:[...]}.  tmpl: path of the starting database."""
    mode = case["mode"]
    path = copy_db(env, tmpl)
    try:
        before = snapshot(path, mode)["counts"] if case["data"] else None
        faults = case.get("faults") or []
        fired_any = False
        for f in faults:
            res = run_with_fault(env, path, mode, f)
            if res[0] in ("raised", "killed", "crashed", "completed_fired"):
                fired_any = True
                acc.hit("fault_fired")
                if res[0] == "killed":
                    acc.hit("kill_fired")
                if res[0] == "crashed":
                    acc.hit("crash_emulation_fired")
                if f["kind"] in ("deny", "interrupt") and res[0] == "raised":
                    acc.hit("deny_fired" if f["kind"] == "deny" else "interrupt_fired")
                if res[0] == "completed_fired":
                    acc.note("fault_swallowed_by_runner")
            elif res[0] == "raised_unfired":
                acc.note("run_raised_before_fault_point")
        if faults and not fired_any:
            acc.note("fault_point_beyond_run")
        mid = None
        if faults:
            try:
                mid = snapshot(path, mode)
            except Exception:  # noqa: BLE001
                acc.note("database_unreadable_after_fault")
        sig_extra = {}
        if faults:
            mech_mid = classify_mid_state(case, mid)
            if mech_mid:
                sig_extra = {"mid_state": mech_mid}
            else:
                sig_extra = {"after_fault": "+".join(sorted({f["kind"] for f in faults})), "start": case["state"]["kind"], "mode": mode}
        else:
            sig_extra = {"start": state_tag(case["state"]), "mode": mode}
        try:
            env.run_real(path, mode)
        except Exception as e:  # noqa: BLE001
            sig = {"mech": "migration_run_raised", "exc": type(e).__name__, **sig_extra}
            acc.violation(sig, f"migration run from {state_tag(case['state'])} ({mode})"
                          + (f" after injected {'+'.join(f['kind'] + '@' + str(f['k']) for f in faults)}" if faults else "")
                          + f" raised {type(e).__name__}: {str(e)[:120]}", case)
            return
        judge_final(env, acc, case, path, mode, fresh, before, sig_extra)
        if faults:
            acc.hit("rerun_after_fault_compared")
        else:
            acc.hit("clean_run_compared")
            k = case["state"]["kind"]
            if k == "prefix":
                acc.hit("prefix_upgrade_compared")
            if k.startswith("legacy"):
                acc.hit("legacy_bootstrap_compared")
    finally:
        for suf in ("", "-wal", "-shm", "-journal"):
            try:
                os.remove(path + suf)
            except FileNotFoundError:
                pass


def pending_at_start(env, state):
    k = state.get("k")
    if state["kind"] == "fresh":
        return env.n > 0
    return (k or 0) < env.n


def fault_plans(tier, counts, rnd, data=False):
    """Single-fault plans (strided in quick, complete in thorough) + sampled double faults (thorough)."""
    plans = []
    a, v, p = counts["count_auth"], counts["count_vm"], counts["count_py"]
    if tier == "quick":
        st = 12 if data else 6  # populated variants get a sparser stride in the quick tier
        deny_ks = sorted(set(range(0, a, st)) | ({a - 1} if a else set()))
        crash_ks = sorted(set(range(st // 2, a, st)))
        # process creation is slow in the sandbox (0.1-0.5 s per fork): two true kills per starting schema here,
        # the in-process crash emulations (crash_auth / crash_py) cover every other point
        kill_ks = [a // 2] if a else []
        pyk_ks = [p // 2] if p else []
        vm_ks = sorted(set(range(0, v, max(1, v // 8)))) if v else []
    else:
        deny_ks = list(range(a))
        crash_ks = list(range(a))
        kill_ks = list(range(0, a, 16))
        pyk_ks = list(range(p))
        vm_ks = sorted(set(range(0, v, max(1, v // 200)))) if v else []
    plans += [[{"kind": "deny", "k": k}] for k in deny_ks]
    plans += [[{"kind": "crash_auth", "k": k}] for k in crash_ks]
    plans += [[{"kind": "crash_py", "k": k}] for k in range(p)]
    plans += [[{"kind": "interrupt", "k": k}] for k in vm_ks]
    plans += [[{"kind": "kill_auth", "k": k}] for k in kill_ks]
    plans += [[{"kind": "kill_py", "k": k}] for k in pyk_ks]
    if tier == "thorough" and a:
        kinds = ["deny"] * 4 + ["crash_auth"] * 4 + ["crash_py"] * 3 + ["interrupt"] * 3 + ["kill_auth", "kill_py"]
        lim = {"deny": a, "crash_auth": a, "kill_auth": a, "kill_py": max(p, 1), "crash_py": max(p, 1), "interrupt": max(v, 1)}
        for _ in range(120):
            k1, k2 = rnd.choice(kinds), rnd.choice(kinds)
            plans.append([{"kind": k1, "k": rnd.randrange(lim[k1])}, {"kind": k2, "k": rnd.randrange(lim[k2])}])
    return plans


def expand_states(env, state):
    if state.get("k") is None and state["kind"] in ("prefix", "legacy_script"):
        return [{"kind": state["kind"], "k": k} for k in range(0, env.n + 1)]
    return [state]


MULTI_SOURCES = [("server", "llama_agents.server._store.sqlite.migrations"), ("dbos", "llama_agents.dbos._store.sqlite.migrations")]


def _migrate_like_dbos_runtime(env, path):
    """what DBOSRuntime.run_migrations does on SQLite: open, run_migrations over the server AND the dbos package, close (no commit by the caller)"""
    import sqlite3

    conn = sqlite3.connect(path)
    try:
        env.migrate.run_migrations(conn, sources=MULTI_SOURCES)
    finally:
        conn.close()


def run_multi_source(env: Env, acc: Acc, mode, states):
    """Several migration packages on one database: from every start state (incl. databases the plain server created earlier)
    the result must equal a fresh two-package install, every (package, version) recorded once, a second run changing nothing."""
    fpath = env.newpath("fresh2")
    open(fpath, "wb").close()
    try:
        _migrate_like_dbos_runtime(env, fpath)
    except Exception as e:  # noqa: BLE001
        acc.inconclusive.append(f"two-package fresh install raised {e!r}")
        return
    fresh = snapshot(fpath, mode)
    for state in states:
        tmpl = build_template(env, state, mode, False)
        path = copy_db(env, tmpl)
        case = {"state": state, "mode": mode, "data": False, "faults": [], "sources": "server+dbos"}
        acc.case()
        acc.hit("multi_source_case")
        try:
            _migrate_like_dbos_runtime(env, path)
            one = snapshot(path, mode)
            _migrate_like_dbos_runtime(env, path)
            two = snapshot(path, mode)
        except Exception as e:  # noqa: BLE001
            acc.violation({"mech": "migration_run_raised", "exc": type(e).__name__, "sources": "server+dbos", "start": state["kind"]},
                          f"run_migrations over [server, dbos] from {state_tag(state)} raised {e!r}", {"case": case})
            continue
        if one["versions"] != fresh["versions"]:
            acc.violation({"mech": "recorded_versions_differ_from_fresh_install", "sources": "server+dbos", "start": state["kind"]},
                          f"from {state_tag(state)}: schema_migrations {one['versions']} != fresh two-package install {fresh['versions']}", {"case": case})
        miss = sorted(set(fresh["schema"]) - set(one["schema"]))
        if miss or {k: v for k, v in one["schema"].items() if k in fresh["schema"] and fresh["schema"][k] != v and not k.startswith("table:sqlite_")}:
            acc.violation({"mech": "final_schema_differs_from_fresh_install", "sources": "server+dbos", "start": state["kind"]},
                          f"from {state_tag(state)}: schema objects missing vs fresh two-package install: {miss[:6]}", {"case": case})
        if one["versions"] != two["versions"] or one["schema"] != two["schema"]:
            acc.violation({"mech": "second_run_changed_something", "sources": "server+dbos", "start": state["kind"]},
                          f"from {state_tag(state)}: a second run changed versions {one['versions']} -> {two['versions']}", {"case": case})
        if len(set(one["versions"] or [])) != len(one["versions"] or []):
            acc.violation({"mech": "version_recorded_twice", "sources": "server+dbos"}, f"{one['versions']}", {"case": case})


def run_shard(shard):
    from vf import boot

    acc = Acc()
    scratch = boot.scratch_dir()
    try:
        env = Env(scratch)
        mode, data, tier = shard["mode"], shard["data"], shard["tier"]
        if env.n == 0:
            acc.inconclusive.append("no packaged migrations found")
            return acc.to_dict()
        if mode == "file" and not data:
            run_multi_source(env, acc, mode, [x for st in shard["states"] for x in expand_states(env, st) if not (x["kind"] == "legacy_declared" and x["k"] > env.n)])
        rnd = random.Random(f"{shard['seed']}-{state_tag(shard['states'][0])}-{mode}-{data}")
        # reference: a fresh install by the same code in the same mode
        fpath = env.newpath("fresh")
        env.run_real(fpath, mode)
        fresh = snapshot(fpath, mode)
        for state in [x for st in shard["states"] for x in expand_states(env, st)]:
            if state["kind"] == "legacy_declared" and state["k"] > env.n:
                continue
            tmpl = build_template(env, state, mode, data)
            base = {"state": state, "mode": mode, "data": data}
            case = {**base, "faults": []}
            acc.case()
            if pending_at_start(env, state):
                acc.sig(h(case))
            acc.sample(case)
            run_case(env, acc, case, tmpl, fresh)
            counts = count_points(env, tmpl, mode)
            acc.note("fault_points_authorizer", counts["count_auth"])
            acc.note("fault_points_py_calls", counts["count_py"])
            for plan_ in fault_plans(tier, counts, rnd, data):
                case = {**base, "faults": plan_}
                acc.case()
                acc.sig(h(case))
                if len(plan_) > 1 or plan_[0]["k"] % 37 == 0:
                    acc.sample(case)
                run_case(env, acc, case, tmpl, fresh)
    finally:
        shutil.rmtree(scratch, ignore_errors=True)
    return acc.to_dict()


def replay(rp_file):
    from vf import boot

    acc = Acc()
    case = rp_file["case"]
    scratch = boot.scratch_dir()
    try:
        env = Env(scratch)
        fpath = env.newpath("fresh")
        env.run_real(fpath, case["mode"])
        fresh = snapshot(fpath, case["mode"])
        tmpl = build_template(env, case["state"], case["mode"], case["data"])
        acc.case()
        run_case(env, acc, case, tmpl, fresh)
    finally:
        shutil.rmtree(scratch, ignore_errors=True)
    return acc.to_dict()
