"""C10 — a waiting step resumes once, with a matching event or a timeout."""
import json
import random

from vf import engine_check
from vf.common import Acc

ID = "C10"
LEVEL = "exploration"
VCLOCK = True
TECHNIQUE = ("runtime monitoring: per-waiter-id history checker over recorded wait_for_event calls/returns/timeouts (unique waiter ids and event ids), "
             "incl. serialize -> JSON -> resume inserted at random ticks with responders racing the re-registration")
LEVEL_TEXT = ("Generated HITL programs (1-4 concurrent waits, waiting step with 1-3 workers, requirements, timeouts) against responders that answer "
              "on time, late, twice, with wrong key or wrong type; second phase resumes a JSON round-tripped context taken at a random tick and "
              "fires matching / non-matching responses at t=0 and later. One logical wait per waiter id by construction.")
LEVEL_NOTE = "Trusted: virtual clock, recorder inside the generated step bodies (the public ctx.wait_for_event boundary), reducer probe for tick order."
DESIGN_REF = "§5 C10"
RULE = "case = wait-family program + responder script (+ resume point); distinct = tick-order signature hash; non-trivial = >=1 wait returned or timed out"
REQUIRED_REACH = ["waiter_eval", "wait_result_eval", "wait_timeout_seen", "waiter_event_eval", "resumed_case", "resumed_with_open_waiter", "double_cycle", "resumed_waiter_event_eval", "resumed_with_opaque_requirement", "replayed_wait_eval", "wait_replayed_after_its_outcome"]
ASSUMPTIONS = ["programs never fail after a successful wait, so every wait_for_event return is a completion"]
FAMILIES = [("wait", 4), ("waitsink", 1), ("wait2", 1), ("selfwait", 1)]


def plan(tier, seed):
    return engine_check.std_plan(tier, seed, quick_per=110, thorough_per=1500)


def _oracles():
    from vf import oracles

    return [oracles.c10]


def _nontrivial(tr):
    return any(r["k"] in ("wait_ret", "wait_timeout") for r in tr.rec.log)


def _resume(case, tr0, acc):
    """Phase 2: snapshot at a random tick of the (deterministic) run, JSON round trip, resume on a fresh instance."""
    from vf import engine_run, oracles
    from workflows import Context

    rnd = random.Random(case["seed"] ^ 0x5EED)
    if rnd.random() < 0.4 or len(tr0.ticks) < 4:
        return
    if case["spec"].get("family") == "waitsink" or any(a.get("k") == "wait" and a.get("wid", 0) is None for s in case["spec"]["steps"] for a in s["acts"]):
        # engine-derived waiter ids are a function of the requirements: a resumed run re-executes the fan-out step, which
        # legitimately produces a second wait with the same requirements (= the same waiter, by design); not checkable per invocation
        acc.note("resume_phase_skipped_for_engine_derived_waiter_ids")
        return
    n_yields = tr0.extra.get("n_yields") or 0
    _tr, snaps = engine_run.run_with_snapshots(case["spec"])
    cands = [e for e in snaps if e["snap"] is not None]
    if not cands:
        return
    ent = rnd.choice(cands)
    k, snap = ent["k"], ent["snap"]
    # optionally a second serialize/resume cycle: resume, snapshot again within the first few yields (before the waiting
    # step had a chance to re-register), and resume from THAT snapshot
    if rnd.random() < 0.4:
        spec_mid = {**json.loads(json.dumps(case["spec"])), "uid_base": 500, "externals": [], "responders": []}
        snap1 = snap
        _tr, snaps2 = engine_run.run_with_snapshots(spec_mid, ctx_factory=lambda w: Context.from_dict(w, json.loads(json.dumps(snap1))), start=False)
        early = [e for e in snaps2[:4] if e["snap"] is not None]
        if early:
            snap = rnd.choice(early)["snap"]
            acc.hit("double_cycle")
    waiters = []
    for sname, w in snap["workers"].items():
        for cw in w["collected_waiters"]:
            try:
                ev = json.loads(cw["event"])
                v = (ev.get("value") or ev).get("_data", {}).get("v") if isinstance(ev, dict) else None
            except Exception:  # noqa: BLE001
                v = None
            waiters.append({"wid": cw["waiter_id"], "v": v, "resolved": cw["resolved_event"] is not None})
    spec2 = json.loads(json.dumps(case["spec"]))
    ext = []
    for w in waiters:
        if w["v"] is None:
            continue
        style = rnd.choice(["right", "wrong_first", "dup", "none"])
        t0 = rnd.choice([0, 0, 0.5, 1])
        if style == "right":
            ext.append({"at": t0, "type": "Answer", "pay": {"key": w["v"]}})
        elif style == "wrong_first":
            ext.append({"at": 0, "type": "Answer", "pay": {"key": "nope"}})
            ext.append({"at": t0 + 0.5, "type": "Answer", "pay": {"key": w["v"]}})
        elif style == "dup":
            ext.append({"at": t0, "type": "Answer", "pay": {"key": w["v"]}})
            ext.append({"at": t0, "type": "Answer", "pay": {"key": w["v"]}})
    if (case["spec"].get("meta") or {}).get("opaque_req"):
        # mixed JSON / opaque requirements: a forged answer (right key, wrong token) precedes every genuine one
        ext2 = []
        for x in ext:
            ext2.append({**x, "pay": {**x["pay"], "tok": {"$uuid": 8}}})
            ext2.append({**x, "at": x["at"] + 0.25, "pay": {**x["pay"], "tok": {"$uuid": 7}}})
        ext = ext2
        acc.hit("resumed_with_opaque_requirement")
    spec2["externals"] = ext
    spec2["uid_base"] = 1000  # fresh ids must not collide with ids stored in the snapshot
    case2 = {"seed": case["seed"], "family": "wait", "spec": spec2, "snap": snap, "k": k}
    _run_resumed(case2, acc)


def _run_resumed(case2, acc):
    from vf import engine_run, oracles
    from workflows import Context

    snap = case2["snap"]
    tr2 = engine_run.run_case(case2["spec"], ctx_factory=lambda w: Context.from_dict(w, json.loads(json.dumps(snap))), start=False)
    acc.case()
    acc.hit("resumed_case")
    if any(w["collected_waiters"] for w in snap["workers"].values()):
        acc.hit("resumed_with_open_waiter")
    if tr2.errors:
        acc.inconclusive.append(f"harness error in resumed case seed={case2['seed']}: {tr2.errors[0][:300]}")
        return
    oracles.c10(tr2, acc, {"case": case2, "phase": "resumed"})
    # "published once per waiter id" across the serialize/resume boundary: a waiter that is already registered in the snapshot had its
    # waiter_event published by the run that registered it; when the resumed run re-runs the step (to re-register non-JSON
    # requirements) the same waiter id registers again and must NOT be announced a second time
    open_wids = {cw["waiter_id"] for w in snap["workers"].values() for cw in w["collected_waiters"]}
    for wid in sorted(open_wids):
        acc.hit("resumed_waiter_event_eval")
        again = [e for e in tr2.stream if e["type"] in ("Ask", "Ask2") and e.get("uid") == f"ask:{wid}"]
        if again:
            acc.violation({"mech": "waiter_event_published_again_after_resume", "resumed": True},
                          f"waiter {wid} was registered (and announced) before the snapshot; the resumed run published its waiter_event {len(again)} more time(s)",
                          {"case": case2, "phase": "resumed"})
            break
    acc.sig(oracles.sig_of_trace(tr2))


def run_shard(shard):
    return engine_check.run_shard(shard, FAMILIES, _oracles(), _nontrivial, post=_resume)


def replay(rp):
    c = rp["case"]
    if c.get("phase") == "resumed":
        acc = Acc()
        _run_resumed(c["case"], acc)
        return acc.to_dict()
    return engine_check.replay(rp, _oracles())
