"""C09 — collect_events returns each full set once without losing events."""
from vf import engine_check

ID = "C09"
LEVEL = "exploration"
VCLOCK = True
TECHNIQUE = ("runtime monitoring: recorded history of collect_events calls with unique event ids, checked offline for (a) shape, (b) at-most-once membership "
             "and (c) linearizability against a 15-line sequential buffer model, per buffer id (P-compositional WGL search)")
LEVEL_TEXT = ("Collecting step with 1-4 workers, expected lists with multiplicity, shuffled arrival orders, per-invocation virtual latencies that make "
              "invocations overlap and force optimistic re-runs, 1-3 rounds, 1-2 independent buffers; histories <= 18 operations, search budget 2e5 "
              "states (exhaustion => inconclusive).")
LEVEL_NOTE = ("Trusted: virtual clock, the recorder at the ctx.collect_events boundary, reducer probe (operation interval = slot assignment tick .. last "
              "result tick), the sequential model (surplus events of a type may be dropped: lenient reading).")
DESIGN_REF = "§5 C09"
RULE = "case = collect-family program + schedule; distinct = tick-order signature hash; non-trivial = >=2 operations overlapped on one buffer"
REQUIRED_REACH = ["collect_call", "collect_returned_list", "linearizability_eval", "overlapping_operations"]
ASSUMPTIONS = ["the last body of an operation is the one whose result the engine applies (earlier optimistic runs are re-run)"]
FAMILIES = [("collect", 1)]


def plan(tier, seed):
    return engine_check.std_plan(tier, seed, quick_per=120, thorough_per=1800)


def _oracles():
    from vf import oracles

    return [oracles.c09]


def _nontrivial(tr):
    n = sum(1 for t in tr.ticks if len(t["post"].get("gather", {}).get("ip", [])) >= 2)
    return n > 0


def run_shard(shard):
    return engine_check.run_shard(shard, FAMILIES, _oracles(), _nontrivial)


def replay(rp):
    return engine_check.replay(rp, _oracles())
