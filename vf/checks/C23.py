"""C23 — Workflow.validate accepts exactly the well-formed graphs and reports the HITL flag.

Monitor shape: reference-model comparison on direct calls.  Every case is a JSON step-set
spec.  The real side builds a fresh ``Workflow`` subclass from it with the real
``@step`` / ``@catch_error`` decorators (free functions registered with
``@step(workflow=W)`` / ``W.add_step`` or methods in the class body), constructs the
workflow with the case's ``skip_graph_checks`` and calls ``validate()``.  The model side is
an independent decision procedure over event *names* and a hand-written kind table
(plain/start/stop/ire/hre/failed), transcribed from the property statement.

Only accept/reject and the returned flag are compared, never messages.  Where the
statement is silent the model is evaluated under its strictest and its most permissive
reading (the model is monotone in every reading switch, so the two bracket all mixes); a
case on which they differ is not compared (informational counter ``ambiguous_not_compared``).
"""
from __future__ import annotations

import random

from vf.common import Acc, h

ID = "C23"
LEVEL = "exploration"
TECHNIQUE = ("runtime monitoring: reference-model oracle (independent decision procedure) over generated step graphs "
             "built with the real @step/@catch_error decorators; compares accept/reject and the HITL flag of Workflow.validate()")
LEVEL_TEXT = ("Randomised differential monitoring of the real constructor + validate() against an independent model of the "
              "property statement over generated step sets (valid-by-construction backbones with 0-3 hostile mutations, plus "
              "unstructured random graphs) over a fixed event universe with subclass chains, handler layouts and workflow-/step-level "
              "skip_graph_checks; right level because the property is a pure decision on a finite step-set description.")
LEVEL_NOTE = ("Trusted: CPython typing/inspect, the instrumentation shim (import only), the model and kind table in this file. "
              "Readings on which the statement is silent are bracketed (strictest/most permissive) and not compared when they differ.")
DESIGN_REF = "§5 C23"
RULE = ("case = one generated step set (<=9 steps, <=3 @catch_error handlers, event universe of 26 classes with subclass chains, "
        "workflow- and step-level skip_graph_checks, free-function or method style); distinct = hash of the full spec; "
        "non-trivial = >=2 steps and the two bracketing readings of the statement agree (so the verdict was really compared)")
REQUIRED_REACH = [
    "validate_called", "accept_agree", "reject_agree", "ctor_reject_agree", "hitl_flag_compared",
    "hitl_expected_true", "hitl_expected_true_via_subclass_only", "hitl_expected_false",
    "skip_decisive_accept", "handler_case_compared",
    "rule_start_count", "rule_stop_count", "rule_stop_consumed", "rule_consumed_not_produced",
    "rule_produced_not_consumed", "rule_handler_inconsistent", "rule_unreachable", "rule_dead_end",
]
ASSUMPTIONS = [
    "event types are matched by exact class (as the engine dispatches); 'a StopEvent / InputRequiredEvent / HumanResponseEvent' means the class or any subclass",
    "input seeds for reachability: the StartEvent type, consumed HumanResponseEvent types, @catch_error handlers; output events: StopEvent and InputRequiredEvent types",
    "step signatures are well-formed (one event parameter, annotated return); names unique; max_recoveries >= 1; known check names only",
]

# ----------------------------------------------------------------- universe (names only)
KIND = {
    "Event": "plain", "A": "plain", "A1": "plain", "A2": "plain", "B": "plain", "B1": "plain", "C": "plain", "D": "plain",
    "StartEvent": "start", "S1": "start", "S2": "start", "S11": "start",
    "StopEvent": "stop", "T1": "stop", "T2": "stop", "T11": "stop",
    "InputRequiredEvent": "ire", "I1": "ire", "I11": "ire", "I2": "ire",
    "HumanResponseEvent": "hre", "H1": "hre", "H11": "hre", "H2": "hre",
    "StepFailedEvent": "failed", "F1": "failed",
}
BY_KIND: dict[str, list[str]] = {}
for _n, _k in KIND.items():
    BY_KIND.setdefault(_k, []).append(_n)
RELATIVES = {  # sub/superclass swaps
    "A": ["A1", "Event"], "A1": ["A", "A2"], "A2": ["A1"], "B": ["B1", "Event"], "B1": ["B"], "C": ["Event"], "D": ["Event"],
    "StartEvent": ["S1", "S2"], "S1": ["StartEvent", "S11"], "S11": ["S1"], "S2": ["StartEvent"],
    "StopEvent": ["T1", "T2"], "T1": ["StopEvent", "T11"], "T11": ["T1"], "T2": ["StopEvent"],
    "InputRequiredEvent": ["I1", "I2"], "I1": ["InputRequiredEvent", "I11"], "I11": ["I1"], "I2": ["InputRequiredEvent"],
    "HumanResponseEvent": ["H1", "H2"], "H1": ["HumanResponseEvent", "H11"], "H11": ["H1"], "H2": ["HumanResponseEvent"],
    "StepFailedEvent": ["F1"], "F1": ["StepFailedEvent"], "Event": ["A", "B"],
}
STEP_CHECKS = ["reachability", "dead_end"]
WF_CHECKS = ["reachability", "terminal_event", "dead_end"]


def plan(tier, seed):
    n = 16 if tier == "quick" else 64
    per = 2500 if tier == "quick" else 30000
    return [{"seed": seed * 1000 + i, "n": per} for i in range(n)]


# ----------------------------------------------------------------- model (from the statement)
def _reach(seeds, out):
    seen = set()
    stack = list(seeds)
    while stack:
        n = stack.pop()
        if n in seen:
            continue
        seen.add(n)
        stack.extend(out.get(n, ()))
    return seen


def model_reject_rule(case, lenient: bool, ignore_skips: bool = False):
    """None if the step set is well-formed under the (strictest | most permissive) reading,
    else the name of the first clause of the statement it breaks."""
    L = lenient
    steps = case["steps"]
    wf_skip = set() if ignore_skips else set(case["wf_skip"])
    names = [s["name"] for s in steps]
    acc = {s["name"]: list(s["acc"]) for s in steps}
    ret = {s["name"]: [e for e in s["ret"] if e != "None"] for s in steps}
    skip = {s["name"]: (set() if ignore_skips else set(s.get("skip", []))) for s in steps}
    consumed = set(e for v in acc.values() for e in v)
    produced = set(e for v in ret.values() for e in v)

    # "exactly one StartEvent type and one StopEvent type"
    starts = {e for e in consumed if KIND[e] == "start"}
    if len(starts) != 1:
        return "start_count"
    stops = {e for e in produced if KIND[e] == "stop"}
    if len(stops) != 1:
        return "stop_count"
    # "no step consumes a StopEvent"
    if any(KIND[e] == "stop" for e in consumed):
        return "stop_consumed"
    start = next(iter(starts))

    # "every consumed event is produced (or is a boundary event) ..."
    for e in sorted(consumed - produced):
        k = KIND[e]
        if e == start or k in ("hre", "failed"):
            continue  # inbound boundary events
        if k == "ire" and L:
            continue  # silent: is an InputRequiredEvent a boundary event on the consuming side?
        return "consumed_not_produced"
    # "... and vice versa"
    relax = L and "terminal_event" in wf_skip  # silent: does skipping terminal_event waive this clause?
    for e in sorted(produced - consumed):
        k = KIND[e]
        if k in ("stop", "ire"):
            continue  # outbound boundary events
        if relax:
            continue
        if L and k in ("hre", "failed", "start"):
            continue  # silent: inbound boundary kinds on the producing side
        return "produced_not_consumed"

    # "the @catch_error handlers are consistent"
    handlers = [s for s in steps if s.get("role") == "catch_error"]
    hnames = {s["name"] for s in handlers}
    wild = [s for s in handlers if s.get("for_steps") is None]
    if len(wild) > 1:
        return "handler_inconsistent"
    owner: dict[str, str] = {}
    for hd in handlers:
        fs = hd.get("for_steps")
        if fs is None:
            continue
        for t in fs:
            if t not in names:
                return "handler_inconsistent"
            if t in hnames:
                return "handler_inconsistent"
            if t in owner:
                if owner[t] == hd["name"] and L:
                    continue  # silent: the same handler naming a step twice
                return "handler_inconsistent"
            owner[t] = hd["name"]
    cover = dict(owner)
    if wild:
        for n in names:
            if n not in hnames and n not in cover:
                cover[n] = wild[0]["name"]

    # "every step is reachable and can reach an output event except where a check is skipped"
    out: dict = {}
    for n in names:
        for e in acc[n]:
            out.setdefault(("e", e), set()).add(("s", n))
        for e in ret[n]:
            out.setdefault(("s", n), set()).add(("e", e))
    if L:
        for n, hn in cover.items():  # silent: does exhausting retries count as a path into the handler?
            out.setdefault(("s", n), set()).add(("s", hn))
    ev_nodes = consumed | produced
    seeds = [("e", start)] + [("e", e) for e in sorted(ev_nodes) if KIND[e] == "hre"]
    for hd in handlers:
        if L or hd["name"] in cover.values():  # silent: a handler that covers no step
            seeds.append(("s", hd["name"]))
    if "reachability" not in wf_skip:
        fwd = _reach(seeds, out)
        for n in names:
            if "reachability" in skip[n]:
                continue
            if ("s", n) not in fwd:
                return "unreachable"
    if "dead_end" not in wf_skip:
        outputs = {("e", e) for e in ev_nodes if KIND[e] in ("stop", "ire")}
        for n in names:
            if "dead_end" in skip[n]:
                continue
            if L and not ret[n]:
                continue  # silent: a step that returns no event at all
            if not (_reach([("s", n)], out) & outputs):
                return "dead_end"
    return None


def model_hitl(case) -> tuple[bool, bool]:
    """(flag, flag under exact-class membership) — the second is only used to name the mechanism."""
    produced = {e for s in case["steps"] for e in s["ret"] if e != "None"}
    consumed = {e for s in case["steps"] for e in s["acc"]}
    flag = any(KIND[e] == "ire" for e in produced) or any(KIND[e] == "hre" for e in consumed)
    exact = ("InputRequiredEvent" in produced) or ("HumanResponseEvent" in consumed)
    return flag, exact


# ----------------------------------------------------------------- generator
def _mk_step(name, acc, ret, rnd, role="step", for_steps=None, max_rec=1, skip=None):
    return {"name": name, "acc": list(acc), "ret": list(ret), "skip": list(skip or []), "role": role,
            "for_steps": for_steps, "max_rec": max_rec, "ctx": rnd.random() < 0.2,
            "uform": rnd.choice(["typing", "pipe", "optional"]), "bare": rnd.random() < 0.3}


def gen_backbone(rnd):
    """A step set that is well-formed by construction (before mutations)."""
    start = rnd.choice(["StartEvent"] * 3 + BY_KIND["start"])
    stop = rnd.choice(["StopEvent"] * 3 + BY_KIND["stop"])
    pool = [e for e in BY_KIND["plain"] if e != "Event"]
    rnd.shuffle(pool)
    if rnd.random() < 0.1:
        pool.insert(0, "Event")
    n_main = rnd.randint(1, 5)
    steps = []
    open_events = [start]  # produced, not yet consumed
    all_produced = [start]
    use_hitl = rnd.random() < 0.5
    for i in range(n_main):
        last = i == n_main - 1
        if last:
            acc = list(open_events) or [rnd.choice(all_produced)]
            open_events = []
        else:
            k = min(len(open_events), rnd.choice([1, 1, 2]))
            acc = [open_events.pop(rnd.randrange(len(open_events))) for _ in range(k)] if k else [rnd.choice(all_produced)]
            if rnd.random() < 0.15 and len(all_produced) > 1:
                x = rnd.choice(all_produced)
                if x not in acc and KIND[x] != "start":
                    acc.append(x)
        ret = []
        if last:
            ret.append(stop)
        else:
            for _ in range(rnd.choice([1, 1, 2])):
                if pool:
                    e = pool.pop()
                    ret.append(e)
                    open_events.append(e)
                    all_produced.append(e)
            if rnd.random() < 0.25:
                ret.append(stop)
            if rnd.random() < 0.15 and len(all_produced) > 2:  # back edge (cycle with exit)
                x = rnd.choice(all_produced[1:])
                if x not in ret:
                    ret.append(x)
        if use_hitl and rnd.random() < 0.4:
            ret.append(rnd.choice(BY_KIND["ire"]))
        if rnd.random() < 0.15:
            ret.append("None")
        if len(acc) > 3:
            # keep unions small: split the surplus into an extra step
            extra, acc = acc[3:], acc[:3]
            steps.append(_mk_step(f"x{i}", extra, [stop], rnd))
        steps.append(_mk_step(f"s{i}", list(dict.fromkeys(acc)), list(dict.fromkeys(ret)), rnd))
    if use_hitl and rnd.random() < 0.7:
        hre = rnd.choice(BY_KIND["hre"])
        tgt = rnd.choice([stop] + [e for e in all_produced[1:]][:2])
        steps.append(_mk_step("hr", [hre], [tgt], rnd))
    # handlers
    if rnd.random() < 0.45:
        normal = [s["name"] for s in steps]
        nh = rnd.choice([1, 1, 2, 3])
        free = list(normal)
        rnd.shuffle(free)
        have_wild = False
        for j in range(nh):
            if not have_wild and rnd.random() < 0.5:
                fs = None
                have_wild = True
            else:
                k = rnd.randint(0 if rnd.random() < 0.1 else 1, 2)
                fs = [free.pop() for _ in range(min(k, len(free)))]
            tgt = rnd.choice([stop, stop] + all_produced[1:2])
            steps.append(_mk_step(f"h{j}", ["StepFailedEvent"], [tgt], rnd, role="catch_error", for_steps=fs,
                                  max_rec=rnd.choice([1, 1, 2, 5])))
    return steps, start, stop


def mutate(steps, rnd, start, stop):
    names = [s["name"] for s in steps]
    normal = [s for s in steps if s["role"] == "step"]
    handlers = [s for s in steps if s["role"] == "catch_error"]
    m = rnd.choice(["add_produce", "add_consume", "drop_step", "swap_rel", "swap_rel", "stop_consumer", "second_start",
                    "second_stop", "orphan", "closed_cycle", "none_ret", "h_second_wild", "h_unknown", "h_covers_handler",
                    "h_double_claim", "h_dup_same", "h_empty", "h_new", "plain_failed_consumer", "drop_ret", "drop_acc",
                    "produce_hre", "consume_ire", "produce_start", "sink_none"])
    s = rnd.choice(steps)
    if m == "add_produce":
        s["ret"].append(rnd.choice(list(KIND)))
    elif m == "add_consume" and s["role"] == "step":
        s["acc"].append(rnd.choice(list(KIND)))
    elif m == "drop_step" and len(steps) > 1:
        steps.remove(s)
    elif m == "swap_rel":
        fld = rnd.choice(["acc", "ret"])
        if s["role"] == "catch_error" and fld == "acc":
            fld = "ret"
        idx = [i for i, e in enumerate(s[fld]) if e in RELATIVES]
        if idx:
            i = rnd.choice(idx)
            s[fld][i] = rnd.choice(RELATIVES[s[fld][i]])
    elif m == "stop_consumer" and s["role"] == "step":
        s["acc"].append(rnd.choice([stop] + BY_KIND["stop"]))
    elif m == "second_start" and s["role"] == "step":
        s["acc"].append(rnd.choice([e for e in BY_KIND["start"] if e != start]))
    elif m == "second_stop":
        s["ret"].append(rnd.choice([e for e in BY_KIND["stop"] if e != stop]))
    elif m == "orphan":
        a, b = rnd.choice(list(KIND)), rnd.choice(list(KIND) + [stop, stop])
        steps.append(_mk_step("o0", [a], [b], rnd))
    elif m == "closed_cycle":
        # reachable (or not) pair that can never reach an output
        src = rnd.choice(normal) if normal else s
        src["ret"].append("C")
        steps.append(_mk_step("c0", ["C", "D"] if rnd.random() < 0.7 else ["D"], ["D"] if rnd.random() < 0.5 else ["D", "None"], rnd))
        if rnd.random() < 0.5:
            steps.append(_mk_step("c1", ["D"], ["C"], rnd))
    elif m == "none_ret":
        s["ret"] = ["None"] if rnd.random() < 0.5 else s["ret"] + ["None"]
    elif m == "sink_none":
        src = rnd.choice(normal) if normal else s
        src["ret"].append("B1")
        steps.append(_mk_step("k0", ["B1"], ["None"], rnd))
    elif m == "h_second_wild":
        steps.append(_mk_step("hw", ["StepFailedEvent"], [stop], rnd, role="catch_error", for_steps=None))
        if not any(x["for_steps"] is None for x in handlers) and rnd.random() < 0.7:
            steps.append(_mk_step("hv", ["StepFailedEvent"], [stop], rnd, role="catch_error", for_steps=None))
    elif m == "h_unknown":
        steps.append(_mk_step("hu", ["StepFailedEvent"], [stop], rnd, role="catch_error",
                              for_steps=[rnd.choice(["nope", "S0", "s99", ""])] + ([rnd.choice(names)] if rnd.random() < 0.3 else [])))
    elif m == "h_covers_handler":
        tgt = rnd.choice([x["name"] for x in handlers] + ["hc"])
        steps.append(_mk_step("hc", ["StepFailedEvent"], [stop], rnd, role="catch_error", for_steps=[tgt]))
    elif m == "h_double_claim" and normal:
        t = rnd.choice(normal)["name"]
        steps.append(_mk_step("hd", ["StepFailedEvent"], [stop], rnd, role="catch_error", for_steps=[t]))
        steps.append(_mk_step("he", ["StepFailedEvent"], [stop], rnd, role="catch_error", for_steps=[t]))
    elif m == "h_dup_same" and normal:
        t = rnd.choice(normal)["name"]
        steps.append(_mk_step("hs", ["StepFailedEvent"], [stop], rnd, role="catch_error", for_steps=[t, t]))
    elif m == "h_empty":
        steps.append(_mk_step("hz", ["StepFailedEvent"], [rnd.choice([stop, "A"])], rnd, role="catch_error", for_steps=[]))
    elif m == "h_new" and normal:
        k = rnd.randint(1, min(2, len(normal)))
        fs = None if rnd.random() < 0.4 else [x["name"] for x in rnd.sample(normal, k)]
        steps.append(_mk_step("hn", ["StepFailedEvent"], [rnd.choice([stop, "A", "None", "I1"])], rnd, role="catch_error", for_steps=fs))
    elif m == "plain_failed_consumer":
        steps.append(_mk_step("pf", [rnd.choice(BY_KIND["failed"])], [stop], rnd))
    elif m == "drop_ret" and len(s["ret"]) > 1:
        s["ret"].pop(rnd.randrange(len(s["ret"])))
    elif m == "drop_acc" and len(s["acc"]) > 1 and s["role"] == "step":
        s["acc"].pop(rnd.randrange(len(s["acc"])))
    elif m == "produce_hre":
        s["ret"].append(rnd.choice(BY_KIND["hre"]))
    elif m == "consume_ire" and s["role"] == "step":
        s["acc"].append(rnd.choice(BY_KIND["ire"]))
    elif m == "produce_start":
        s["ret"].append(rnd.choice(BY_KIND["start"] + [start]))
    return m


def add_skips(case, rnd):
    """Skip flags: random, and (often) aimed exactly at the steps the model finds unreachable / dead-ended."""
    r = rnd.random()
    if r < 0.35:
        return
    if r < 0.55:
        case["wf_skip"] = rnd.sample(WF_CHECKS, rnd.randint(1, 3))
    if r >= 0.45:
        # aimed step-level skips: find failing steps by dropping them one check at a time
        for _ in range(4):
            rule = model_reject_rule(case, lenient=False)
            if rule not in ("unreachable", "dead_end"):
                break
            chk = "reachability" if rule == "unreachable" else "dead_end"
            cands = [s for s in case["steps"] if chk not in s["skip"] and s["role"] == "step"]
            if not cands:
                break
            # skip every candidate whose own skipping changes the verdict or rule; fall back to a random one
            hit = False
            for s in cands:
                s["skip"].append(chk)
                if model_reject_rule(case, lenient=False) != rule:
                    hit = True
                    break
                s["skip"].remove(chk)
            if not hit:
                if rnd.random() < 0.5:
                    for s in cands:
                        s["skip"].append(chk)
                else:
                    rnd.choice(cands)["skip"].append(chk)
        if rnd.random() < 0.3:
            s = rnd.choice(case["steps"])
            if s["role"] == "step":
                c = rnd.choice(STEP_CHECKS)
                if c not in s["skip"]:
                    s["skip"].append(c)


def gen_random_graph(rnd):
    ev = rnd.sample(list(KIND), rnd.randint(3, 6)) + ["StartEvent", "StopEvent"]
    steps = []
    for i in range(rnd.randint(1, 5)):
        acc = rnd.sample(ev, rnd.randint(1, 2))
        ret = rnd.sample(ev + ["None"], rnd.randint(1, 2))
        steps.append(_mk_step(f"s{i}", acc, ret, rnd))
    return steps


def normalise(case):
    for s in case["steps"]:
        s["acc"] = list(dict.fromkeys(s["acc"]))[:4]
        s["ret"] = list(dict.fromkeys(s["ret"]))[:4]
        if s["role"] == "catch_error":
            s["acc"] = ["StepFailedEvent"]
            s["skip"] = []
        if not s["ret"]:
            s["ret"] = ["None"]
        if not s["acc"]:
            s["acc"] = ["A"]
        s["skip"] = sorted(set(s["skip"]))
    case["wf_skip"] = sorted(set(case["wf_skip"]))
    # unique names
    seen = set()
    out = []
    for s in case["steps"]:
        if s["name"] in seen:
            continue
        seen.add(s["name"])
        out.append(s)
    case["steps"] = out[:9]
    return case


def gen_case(rnd):
    r = rnd.random()
    muts = []
    if r < 0.12:
        steps = gen_random_graph(rnd)
    else:
        steps, start, stop = gen_backbone(rnd)
        nm = rnd.choice([0, 0, 1, 1, 1, 2, 2, 3])
        for _ in range(nm):
            muts.append(mutate(steps, rnd, start, stop))
    case = {"style": rnd.choice(["free", "method", "mixed"]), "wf_skip": [], "steps": steps, "muts": muts}
    normalise(case)
    add_skips(case, rnd)
    normalise(case)
    return case


# ----------------------------------------------------------------- real side
def build_and_validate(case):
    """Run the real code.  Returns ("accept", flag) or ("reject", stage, exc_type_name)."""
    import typing

    from workflows import Context, Workflow
    from workflows.decorators import catch_error, step
    from workflows.workflow import WorkflowMeta

    from vf.c23_events import UNIVERSE

    def ann(names, form, is_ret):
        ts = []
        for n in names:
            ts.append(type(None) if n == "None" else UNIVERSE[n])
        if len(ts) == 1:
            return None if ts[0] is type(None) else ts[0]
        if form == "pipe":
            a = ts[0]
            for t in ts[1:]:
                a = a | t
            return a
        non_none = [t for t in ts if t is not type(None)]
        if form == "optional" and len(non_none) == 1 and len(ts) == 2:
            return typing.Optional[non_none[0]]
        return typing.Union[tuple(ts)]

    def mk_fn(s, as_method):
        name = s["name"]
        if as_method:
            if s["ctx"]:
                async def f(self, ctx, ev):  # noqa: ANN001
                    return None
            else:
                async def f(self, ev):  # noqa: ANN001
                    return None
            f.__qualname__ = f"W.{name}"
        else:
            if s["ctx"]:
                async def f(ctx, ev):  # noqa: ANN001
                    return None
            else:
                async def f(ev):  # noqa: ANN001
                    return None
            f.__qualname__ = name
        f.__name__ = name
        a = {"ev": ann(s["acc"], s["uform"], False), "return": ann(s["ret"], s["uform"], True)}
        if s["ctx"]:
            a["ctx"] = Context
        f.__annotations__ = a
        return f

    def decorate(s, fn, wf_cls):
        if s["role"] == "catch_error":
            if s["for_steps"] is None and s["max_rec"] == 1 and s["bare"]:
                d = catch_error(fn)
            else:
                d = catch_error(for_steps=s["for_steps"], max_recoveries=s["max_rec"])(fn)
            if wf_cls is not None:
                wf_cls.add_step(d)
            return d
        if wf_cls is None:
            if not s["skip"] and s["bare"]:
                return step(fn)
            return step(skip_graph_checks=list(s["skip"]) or None)(fn)
        return step(workflow=wf_cls, skip_graph_checks=list(s["skip"]) or None)(fn)

    stage = "decorator"
    try:
        style = case["style"]
        meth, free = [], []
        for i, s in enumerate(case["steps"]):
            as_m = style == "method" or (style == "mixed" and i % 2 == 0)
            (meth if as_m else free).append(s)
        dct = {"__module__": __name__, "__qualname__": "W"}
        for s in meth:
            dct[s["name"]] = decorate(s, mk_fn(s, True), None)
        W = WorkflowMeta("W", (Workflow,), dct)
        for s in free:
            decorate(s, mk_fn(s, False), W)
        stage = "ctor"
        wf = W(skip_graph_checks=set(case["wf_skip"]) or None)
        stage = "validate"
        flag = wf.validate()
        return ("accept", flag)
    except Exception as e:  # noqa: BLE001  — any exception is a rejection; only the fact is compared
        return ("reject", stage, type(e).__name__)


# ----------------------------------------------------------------- oracle
def check_case(case, acc: Acc):
    strict = model_reject_rule(case, lenient=False)
    lenient = model_reject_rule(case, lenient=True)
    # monotonicity of the bracketing (harness self-check): permissive reading rejects => strict rejects
    if lenient is not None and strict is None:
        acc.inconclusive.append(f"model bracketing not monotone on {case}")
        return
    real = build_and_validate(case)
    has_handlers = any(s["role"] == "catch_error" for s in case["steps"])
    if real[0] == "accept" or real[1] == "validate":
        acc.hit("validate_called")

    ambiguous = (strict is None) != (lenient is None)
    if ambiguous:
        acc.note("ambiguous_not_compared")
        acc.note("ambiguous_real_accepts" if real[0] == "accept" else "ambiguous_real_rejects")
    else:
        if len(case["steps"]) >= 2:
            acc.sig(h({k: v for k, v in case.items() if k != "muts"}))
        if has_handlers:
            acc.hit("handler_case_compared")
        if strict is None:
            if real[0] == "accept":
                acc.hit("accept_agree")
                if model_reject_rule(case, lenient=True, ignore_skips=True) is not None:
                    acc.hit("skip_decisive_accept")
            else:
                acc.violation({"mech": "rejects_well_formed_graph", "stage": real[1], "exc": real[2]},
                              f"well-formed step set rejected at {real[1]} with {real[2]}", case)
        else:
            if real[0] == "reject":
                acc.hit("reject_agree")
                acc.hit("rule_" + lenient)
                if real[1] == "ctor":
                    acc.hit("ctor_reject_agree")
                if real[2] not in ("WorkflowValidationError", "WorkflowConfigurationError"):
                    acc.note("reject_with_other_exception_" + real[2])
            else:
                acc.violation({"mech": "accepts_ill_formed_graph", "rule": lenient},
                              f"step set breaking clause '{lenient}' (under every reading) was accepted", case)

    # HITL flag: compared whenever validate() returned
    if real[0] == "accept":
        flag = real[1]
        want, exact = model_hitl(case)
        acc.hit("hitl_flag_compared")
        acc.hit("hitl_expected_true" if want else "hitl_expected_false")
        if want and not exact:
            acc.hit("hitl_expected_true_via_subclass_only")
        if not isinstance(flag, bool):
            acc.violation({"mech": "hitl_flag_not_bool"}, f"validate() returned {flag!r}", case)
        elif flag != want:
            if want and not exact and flag is False:
                acc.violation({"mech": "hitl_flag_false_for_subclassed_hitl_event"},
                              "validate() returned False although an InputRequiredEvent subclass is produced / a "
                              "HumanResponseEvent subclass is consumed (flag only recognises the exact base classes)", case)
            else:
                acc.violation({"mech": "hitl_flag_mismatch", "expected": want},
                              f"validate() returned {flag} but the statement gives {want}", case)


def sanity_universe(acc: Acc):
    """The hand-written kind table must describe the classes the helper really defines."""
    from workflows.events import HumanResponseEvent, InputRequiredEvent, StartEvent, StepFailedEvent, StopEvent

    from vf.c23_events import UNIVERSE

    bases = {"start": StartEvent, "stop": StopEvent, "ire": InputRequiredEvent, "hre": HumanResponseEvent, "failed": StepFailedEvent}
    for n, cls in UNIVERSE.items():
        ks = [k for k, b in bases.items() if issubclass(cls, b)]
        k = ks[0] if ks else "plain"
        if len(ks) > 1 or k != KIND[n]:
            acc.inconclusive.append(f"kind table wrong for {n}: {ks} vs {KIND[n]}")
    if set(UNIVERSE) != set(KIND):
        acc.inconclusive.append("kind table and universe differ")


def run_shard(shard):
    acc = Acc()
    sanity_universe(acc)
    rnd = random.Random(shard["seed"])
    for _ in range(shard["n"]):
        case = gen_case(rnd)
        acc.case()
        acc.sample(case)
        check_case(case, acc)
    return acc.to_dict()


def replay(rp_file):
    acc = Acc()
    sanity_universe(acc)
    check_case(rp_file["case"], acc)
    return acc.to_dict()
