"""C25 — KeyedLock: per-key mutual exclusion, key independence, progress, cleanup.

Monitor shape: invariant hooks inside the critical section of the *real*
`llama_agents.server._keyed_lock.KeyedLock`, driven by generated task programs
under the virtual clock (tasks over 2-3 keys, virtual hold times, nested
acquisition in key order, bodies that raise, `task.cancel()` delivered at
enumerated virtual instants shifted by 0-3 loop iterations so that it lands while
queued, while holding, at the hand-over instant and before the first await).

Decided per case:
  * occupancy of a key never exceeds 1 (checked inside the critical section; the
    monitor's counter is maintained in a `finally` that mirrors the lock's own
    release path, so a cancelled holder cannot leak a count);
  * a request for a key that has no holder and no queued requester enters at the
    same virtual instant, whatever is going on with other keys;
  * the case reaches completion — `quiescent and not done` (no timer, no ready
    callback, some acquirer still queued) is the "waiter never enters" verdict;
  * whenever no requester/holder exists (intermediate idle points and at the end)
    `_locks == {} and _refs == {}` (also attached as an icontract class invariant
    that records instead of raising when icontract is importable).
"""
from __future__ import annotations

import random

from vf.common import Acc, h

ID = "C25"
LEVEL = "exploration"
TECHNIQUE = ("runtime monitoring: critical-section occupancy / same-instant-entry / cleanup invariants on the real "
             "KeyedLock under generated acquire-hold-cancel programs on a virtual-time event loop; quiescence detector for progress")
LEVEL_TEXT = ("Randomised schedule exploration: thousands of generated task programs (2-8 tasks / 1-3 keys quick, 2-12 tasks / 1-4 keys thorough, dyadic virtual "
              "times so ties are exact, cancellation at every kind of await, raising bodies, nested keys) run on the real "
              "class; monitors decide inside the critical section and at idle points. 'Eventually enters' is decided as "
              "quiescence-without-completion, which is exact under the virtual clock for the executed schedule.")
LEVEL_NOTE = ("Trusted: CPython 3.12 asyncio.Lock, the virtual-time loop (vf/vclock.py), the monitor in this file. "
              "Only interleavings produced by the generated timings are covered; nested acquisition is generated in a fixed "
              "key order only (an order inversion deadlock is a caller error, not a KeyedLock defect).")
DESIGN_REF = "§5 C25"
RULE = ("case = one generated program of tasks (key, start, hold, cancel instant, body kind); distinct = hash of the program; "
        "non-trivial = at least one acquirer was observed queued behind a holder of the same key")
REQUIRED_REACH = ["cs_entry", "contended_entry", "free_key_entry", "free_key_entry_other_key_held",
                  "cancel_while_queued", "cancel_while_holding", "body_raised", "idle_point_checked", "final_empty_checked"]
ASSUMPTIONS = ["virtual-time asyncio loop; all tasks are coroutines on one loop (KeyedLock is documented for asyncio coroutines)",
               "nested acquisition only in ascending key order"]
VCLOCK = True
PIP_DEPS = ["icontract"]
SHARD_TIMEOUT = {"quick": 300, "thorough": 1800}

KEYS = ["k0", "k1", "k2", "k3"]
ODD_KEYS = ["", "0", " ", "k0\n"]   # legal str keys that are falsy / look like numbers / differ only in whitespace
TIMES = [0, 0, 0.25, 0.5, 0.5, 1, 1, 1.5, 2, 3]
HOLDS = [0, "y", "y", 0.25, 0.5, 0.5, 1, 1, 2]


def _lock_state(kl):
    """whatever per-key state the lock object still holds (any dict / set attribute of the instance that is not empty): the
    property speaks of 'no lock state', not of particular attribute names"""
    out = {}
    for name, val in vars(kl).items():
        if isinstance(val, (dict, set, list)) and val:
            out[name] = sorted(map(str, val)) if not isinstance(val, dict) else {str(k): str(v)[:40] for k, v in val.items()}
    return out


def plan(tier, seed):
    n = 16 if tier == "quick" else 64
    per = 4000 if tier == "quick" else 20000
    return [{"seed": seed * 1000 + i, "n": per, "deep": tier != "quick"} for i in range(n)]


def gen_case(rnd, deep=False):
    nkeys = rnd.choice([1, 2, 2, 3, 4] if deep else [1, 2, 2, 3])
    keys = KEYS[:nkeys]
    if rnd.random() < 0.15:
        keys = list(keys)
        keys[rnd.randrange(len(keys))] = rnd.choice(ODD_KEYS)
    nt = rnd.randint(2, 12 if deep else 8)
    tasks = []
    for _ in range(nt):
        t = {"key": rnd.choice(keys), "start": rnd.choice(TIMES), "hold": rnd.choice(HOLDS), "kind": "ok"}
        r = rnd.random()
        if r < 0.12:
            t["kind"] = "raise"
        elif r < 0.3 and nkeys > 1:
            bigger = [k for k in keys if k > t["key"]]
            if bigger:
                t["kind"] = "nested"
                t["key2"] = rnd.choice(bigger)
                t["hold2"] = rnd.choice(HOLDS)
        if rnd.random() < 0.4:
            t["cancel"] = [rnd.choice(TIMES + [0.75, 1.25, 2.5]), rnd.randint(0, 3)]
        tasks.append(t)
    return {"tasks": tasks}


class Boom(Exception):
    pass


def _install_invariant(KeyedLock, mon_ref):
    """Attach the emptiness condition as an icontract class invariant (records, never raises)."""
    if getattr(KeyedLock, "_vf_inv", False):
        return KeyedLock._vf_inv_kind

    def emptiness(self) -> bool:
        mon = mon_ref.get("mon")
        if mon is not None and mon["kl"] is self:
            mon["inv_evals"] += 1
            if mon["live"] == 0 and _lock_state(self):
                mon["inv_fail"].append(_lock_state(self))
        return True

    kind = "plain"
    try:
        import icontract

        icontract.invariant(emptiness, error=lambda self: AssertionError("KeyedLock state not empty when idle"))(KeyedLock)
        kind = "icontract"
    except Exception:  # noqa: BLE001 - icontract missing or refuses the class: plain wrapper with the same condition
        orig = KeyedLock.__call__

        def __call__(self, key):
            emptiness(self)
            cm = orig(self, key)
            emptiness(self)
            return cm

        KeyedLock.__call__ = __call__
    KeyedLock._vf_inv = True
    KeyedLock._vf_inv_kind = kind
    KeyedLock._vf_emptiness = staticmethod(emptiness)
    return kind


_MON_REF: dict = {}


def run_case(case, acc: Acc):
    import asyncio

    from llama_agents.server._keyed_lock import KeyedLock

    from vf import vclock

    _install_invariant(KeyedLock, _MON_REF)
    specs = case["tasks"]
    n = len(specs)
    occ = {k: 0 for k in KEYS + ODD_KEYS}
    waiting = {k: 0 for k in KEYS + ODD_KEYS}
    st = ["not_started"] * n          # not_started | queued | holding | done
    cancel_req = [False] * n
    viol: list = []
    mon = {"kl": None, "live": 0, "inv_evals": 0, "inv_fail": []}
    _MON_REF["mon"] = mon
    contended = [0]
    stuck: dict = {}
    trace: list = []

    def idle_check(where):
        kl = mon["kl"]
        if mon["live"] == 0:
            acc.hit("idle_point_checked")
            if _lock_state(kl):
                viol.append(({"mech": "lock_state_left_when_idle", "where": where},
                             f"no holder/waiter exists but lock state {_lock_state(kl)} ({where})"))

    async def section(i, key, hold, inner):
        kl = mon["kl"]
        req_vt = vclock.vnow()
        free = occ[key] == 0 and waiting[key] == 0
        others_held = any(occ[k] for k in occ if k != key)
        waiting[key] += 1
        entered = False
        try:
            async with kl(key):
                entered = True
                waiting[key] -= 1
                occ[key] += 1
                try:
                    st[i] = "holding"
                    acc.hit("cs_entry")
                    trace.append(["enter", i, key, vclock.vnow()])
                    if occ[key] > 1:
                        viol.append(({"mech": "two_holders_same_key"},
                                     f"{occ[key]} holders inside the critical section of {key} at vt={vclock.vnow()}"))
                    if free:
                        acc.hit("free_key_entry")
                        if others_held:
                            acc.hit("free_key_entry_other_key_held")
                        if vclock.vnow() != req_vt:
                            viol.append(({"mech": "free_key_request_blocked"},
                                         f"task {i} asked for free key {key} at vt={req_vt} but entered at vt={vclock.vnow()}"))
                    else:
                        acc.hit("contended_entry")
                        contended[0] += 1
                    if hold == "y":
                        await asyncio.sleep(0)
                    elif hold:
                        await asyncio.sleep(hold)
                    if occ[key] > 1:
                        viol.append(({"mech": "two_holders_same_key"},
                                     f"{occ[key]} holders inside the critical section of {key} at vt={vclock.vnow()}"))
                    if inner is not None:
                        await inner()
                finally:
                    # mirrors the lock's own release path: runs right before `async with` releases
                    occ[key] -= 1
                    trace.append(["exit", i, key, vclock.vnow()])
        finally:
            if not entered:
                waiting[key] -= 1

    async def worker(i):
        sp = specs[i]
        if sp["start"]:
            await asyncio.sleep(sp["start"])
        mon["live"] += 1
        st[i] = "queued"
        try:
            if sp["kind"] == "nested":
                async def inner():
                    await section(i, sp["key2"], sp["hold2"], None)
                await section(i, sp["key"], sp["hold"], inner)
            elif sp["kind"] == "raise":
                async def inner():
                    acc.hit("body_raised")
                    raise Boom()
                await section(i, sp["key"], sp["hold"], inner)
            else:
                await section(i, sp["key"], sp["hold"], None)
        except asyncio.CancelledError:
            if not cancel_req[i]:
                # cancelled by the driver's cleanup after quiescence: keep what the task was stuck in
                stuck[i] = st[i]
            raise
        finally:
            st[i] = "done"
            mon["live"] -= 1
            if i not in stuck:
                idle_check("after_task")

    async def canceller(i, task):
        t, j = specs[i]["cancel"]
        if t:
            await asyncio.sleep(t)
        for _ in range(j):
            await asyncio.sleep(0)
        if not task.done():
            if st[i] == "queued":
                # "queued" covers requested-not-yet-entered; refine by what the task is doing
                acc.hit("cancel_while_queued")
            elif st[i] == "holding":
                acc.hit("cancel_while_holding")
            else:
                acc.hit("cancel_before_request")
            cancel_req[i] = True
            task.cancel()

    async def main():
        mon["kl"] = KeyedLock()
        tasks = [asyncio.ensure_future(worker(i)) for i in range(n)]
        cs = [asyncio.ensure_future(canceller(i, tasks[i])) for i in range(n) if "cancel" in specs[i]]
        res = await asyncio.gather(*tasks, return_exceptions=True)
        if cs:
            await asyncio.gather(*cs)
        return res

    r = vclock.run(main)
    kl = mon["kl"]
    if r.livelock:
        acc.inconclusive.append(f"livelock guard fired in case {h(case)}")
    elif r.quiescent:  # computed by vclock.run before it cancelled the leftovers: quiescent and main not done
        acc.hit("quiescence_verdicts")
        viol.append(({"mech": "waiter_never_enters"},
                     f"loop quiescent at vt={r.vt} (no timer, nothing runnable) with non-cancelled acquirers stuck: "
                     f"{ {i: [v, specs[i]['key']] for i, v in sorted(stuck.items())} }"))
    elif r.done and not r.task.cancelled():
        exc = r.exception()
        if exc is not None:
            viol.append(({"mech": "harness_main_raised", "exc": type(exc).__name__}, f"driver raised {exc!r}"))
        else:
            for i, out in enumerate(r.result()):
                ok = out is None or isinstance(out, asyncio.CancelledError) and cancel_req[i] \
                    or isinstance(out, Boom) and specs[i]["kind"] == "raise"
                if not ok:
                    viol.append(({"mech": "acquirer_raised", "exc": type(out).__name__},
                                 f"task {i} ended with unexpected {out!r}"))
            acc.hit("final_empty_checked")
            if _lock_state(kl):
                viol.append(({"mech": "lock_state_left_when_idle", "where": "final"},
                             f"all tasks finished but lock state {_lock_state(kl)}"))
    acc.hit("invariant_evals_" + KeyedLock._vf_inv_kind, mon["inv_evals"])
    for bad in mon["inv_fail"]:
        viol.append(({"mech": "lock_state_left_when_idle", "where": "class_invariant"},
                     f"class invariant: idle but state {bad}"))
    _MON_REF["mon"] = None
    seen = set()
    for sig, what in viol:
        k = h(sig)
        if k in seen:
            continue
        seen.add(k)
        acc.violation(sig, what, case)
    return contended[0], trace


def run_shard(shard):
    acc = Acc()
    rnd = random.Random(shard["seed"])
    for _ in range(shard["n"]):
        case = gen_case(rnd, shard.get("deep", False))
        acc.case()
        contended, trace = run_case(case, acc)
        if contended:
            acc.sig(h(case))
            if len(acc.samples) < 2:
                acc.sample({"case": case, "trace": trace[:20]})
    return acc.to_dict()


def replay(rp_file):
    acc = Acc()
    run_case(rp_file["case"], acc)
    return acc.to_dict()
