"""C26 — idle release and resume never lose an event or double-run a workflow."""
import asyncio
import os
import random
import shutil

from vf.common import Acc, h

ID = "C26"
LEVEL = "exploration"
VCLOCK = True
TECHNIQUE = ("runtime monitoring: (a) real server stacks (in-process; DBOS chain over a substitute engine) with senders placed exactly on / around the release "
             "instant, concurrent senders, restarts, seeded yields and virtual latency at the store's async boundaries, internal wake-ups inside the release "
             "handler's store round trip — monitors: live control loops per run (<=1), runner snapshot at every release (must be truly idle), conservation of "
             "sent event ids; (b) real SqliteRunLifecycleLock driven by concurrent release / resume / crash-timeout scripts against the 3-state machine")
LEVEL_TEXT = ("Senders at t_release-eps, t_release, t_release+eps under a virtual clock (exact instants), duplicates and concurrent senders, process restarts "
              "racing sends, yield injection where the Postgres store would suspend; the lifecycle lock is checked as: per released period exactly one "
              "try_begin_resume returns 'released', state only moves active->releasing->released->active (or the documented crash-timeout takeover).")
LEVEL_NOTE = ("In-process stack, and the DBOS server stack with the ENGINE SUBSTITUTED: the real DBOSIdleReleaseDecorator / EventInterceptorDecorator / "
              "TickPersistenceDecorator / SqliteRunLifecycleLock chain (as DBOSRuntime.build_server_runtime wires it) over a BasicRuntime, single replica; the "
              "lifecycle lock additionally as a component against its 3-state machine. Store calls take virtual latency in part of the scenarios (networked "
              "store). Not decided: DBOS's own message durability / recovery and cross-replica interleavings (dbos package absent). A multi-lock-object "
              "thread stress on one SQLite file is reported as information only.")
DESIGN_REF = "§5 C26"
RULE = "case = (program, idle_timeout, send/restart schedule, yield seed) or (lifecycle script); distinct = hash of the scenario; non-trivial = >=1 release and >=1 send at/after it"
REQUIRED_REACH = ["scenario", "release_snapshot_eval", "send_at_release_instant", "concurrent_senders", "restart_scenario", "conservation_eval", "slow_store", "stack_inproc", "stack_dbos_sub", "two_replicas", "engine_round_trips_take_time", "engine_clock_takes_time", "wake_scenario", "waiter_timeout_inside_release_round_trip", "lifecycle_script", "lifecycle_stalled_releaser",
                  "lifecycle_released_period", "lifecycle_crash_timeout_takeover"]
ASSUMPTIONS = ["an event whose send_event call raised is not counted as sent (the caller was told)"]


def plan(tier, seed):
    n = 16 if tier == "quick" else 32
    per = 10 if tier == "quick" else 120
    return [{"seed": seed * 1_000_000 + i * 10_000, "n": per} for i in range(n)]


def gen_case(seed):
    from vf import idle_cases as ic

    rnd = random.Random(seed)
    spec, keys = ic.gen_program(rnd, n=rnd.randint(2, 3))
    spec["sched_seed"] = seed
    return {"seed": seed, "spec": spec, "keys": keys, "I": rnd.choice([0.5, 1, 2]), "offsets": [rnd.choice([-0.2, -0.05, -0.001, 0, 0, 0.001, 0.25]) for _ in keys],
            "store_latency": rnd.choice([None, None, 0.02, 0.1, 0.3]),
            "concurrent": rnd.random() < 0.5, "dup": rnd.random() < 0.3, "yield_seed": rnd.choice([None, seed]), "restart": rnd.random() < 0.35,
            "restart_off": rnd.choice([-0.25, 0.0, 0.001, 0.3]), "store": "sqlite", "stack": rnd.choice(["inproc", "inproc", "dbos_sub"]),
            "replicas": rnd.choice([1, 2]), "via": [rnd.randrange(2) for _ in range(8)], "engine_latency": rnd.choice([None, None, 0.02, 0.05]),
            "clock_latency": rnd.choice([None, 0.05, 0.2])}


def run_inproc(case, acc):
    from vf import idle_cases as ic

    wit = {"case": case}
    stack = case.get("stack", "inproc")
    if stack != "inproc":
        case = {**case, "restart": False}  # a DBOS process restart is recovered by the DBOS engine itself: not emulated by the substitute
    _acc, _v = acc, acc.violation
    _box = {}

    class _A:
        def __getattr__(self, n):
            return getattr(_acc, n)

        def violation(self, sig, what, w):
            extra = {"stack": stack, "replicas": case.get("replicas", 1), "engine_latency": bool(case.get("engine_latency")),
                     "clock_latency": bool(case.get("clock_latency")) and not case.get("engine_latency"),
                     "lifecycle_end": _box.get("lifecycle_end")} if stack != "inproc" else {}
            _v({**sig, **extra}, (f"[{stack} stack x{case.get('replicas', 1)}] " if stack != "inproc" else "") + what, w)

    acc = _A()
    acc.hit("stack_" + stack)
    clock_lat = case.get("clock_latency") if stack == "dbos_sub" and not case.get("engine_latency") else None
    t_idle = ic.idle_instant(case["spec"], case.get("store_latency"), stack, clock_lat)
    if t_idle is None:
        acc.inconclusive.append(f"reference run never became idle seed={case['seed']}")
        return
    I, keys = case["I"], case["keys"]
    t_rel = t_idle + I
    sends = []
    base = t_rel
    for i, k in enumerate(keys):
        off = case["offsets"][0] if case["concurrent"] else case["offsets"][i]
        at = base + off if case["concurrent"] or i == 0 else base + off + (I + 1.5) * i
        sends.append({"at": max(0.0, at), "pay": {"key": k}})
        if case["dup"] and i == 0:
            sends.append({"at": max(0.0, at), "pay": {"key": k}})
    restarts = []
    if case["restart"]:
        restarts = [max(0.1, sends[-1]["at"] + case["restart_off"])] if case["restart_off"] < 0 else [max(0.1, sends[0]["at"] - case["restart_off"])]
        # after a restart every not yet delivered answer is (re)sent shortly after start()
    replicas = case.get("replicas", 1) if stack == "dbos_sub" else 1
    if replicas > 1:
        # two server replicas over one store / lifecycle table / engine; every send goes through one of them
        for i, sd in enumerate(sends):
            sd["via"] = case["via"][i % len(case["via"])]
        acc.hit("two_replicas")
    scn = {"spec": case["spec"], "idle_timeout": I, "sends": sends, "restarts": restarts, "yield_seed": case["yield_seed"], "store": "sqlite", "end": 300.0,
           "store_latency": case.get("store_latency"), "stack": stack, "replicas": replicas,
           "engine_latency": case.get("engine_latency") if stack == "dbos_sub" else None,
           # the engine's durable clock takes a round trip (only without the other engine latencies, whose race is a recorded finding)
           "clock_latency": case.get("clock_latency") if stack == "dbos_sub" and not case.get("engine_latency") else None}
    if scn["clock_latency"]:
        acc.hit("engine_clock_takes_time")
    if scn["engine_latency"]:
        acc.hit("engine_round_trips_take_time")
    if case.get("store_latency"):
        acc.hit("slow_store")
    obs, cs = ic.run_scenario(scn)
    _box["lifecycle_end"] = next(iter((obs.get("lifecycle") or {}).values()), None)
    acc.case()
    acc.hit("scenario")
    if any(p["exc"] for p in obs["case_phases"]):
        acc.inconclusive.append(f"scenario crashed seed={case['seed']}: {[p['exc'] for p in obs['case_phases'] if p['exc']][0][:300]}")
        return
    if restarts:
        acc.hit("restart_scenario")
    if case["concurrent"]:
        acc.hit("concurrent_senders")
    if any(abs(s["at"] - t_rel) < 1e-9 for s in sends):
        acc.hit("send_at_release_instant")
    # M1: never two live control loops of one run
    if obs["max_live"] > 1:
        acc.note("old_control_loop_still_unwinding_when_new_one_started")
    # two control loops EXECUTING the same run: an older loop processes a tick after a newer loop of that run has processed one
    seen_order, newest = [], {}
    for (rid_obj, run_id, tname, t) in cs.tr.extra.get("proc_log", []):
        if rid_obj not in seen_order:
            seen_order.append(rid_obj)
        cur = newest.get(run_id)
        if cur is None or seen_order.index(rid_obj) >= seen_order.index(cur):
            newest[run_id] = rid_obj
        else:
            acc.violation({"mech": "two_control_loops_executing_one_run"}, f"an older control loop of run {run_id} processed {tname} at vt={t} after a newer loop had taken over; loops: {obs['loop_log'][-6:]}", wit)
            break
    # M2: released only while truly idle
    for r in obs["releases"]:
        if r.get("reason") != "idle_release" or "workers" not in r:
            continue
        acc.hit("release_snapshot_eval")
        busy = {s: w for s, w in r["workers"].items() if w["q"] or w["ip"]}
        pend = [x for x in r["wakeups"] if x == "TickAddEvent"] + [x for x in r["buffer"] + r["recvq"] + r["pulled"] if x in ("TickAddEvent", "TickStepResult")]
        if busy or pend:
            acc.violation({"mech": "released_while_not_idle", "busy_steps": bool(busy), "pending_ticks": bool(pend)},
                          f"run released at vt={r['t']} with step work {busy} / pending ticks {pend} (wakeups {r['wakeups']}, recvq {r['recvq']})", wit)
    # M3: conservation of sent events
    processed = {t["uid"] for t in cs.tr.ticks if t["tick"] == "TickAddEvent"}
    sent_ok = [r["uid"] for r in cs.tr.rec.of("send_ok")]
    final = obs["phases"][-1]["h"]
    acc.hit("conservation_eval")
    lost = [u for u in sent_ok if u not in processed]
    if restarts:
        # an event accepted by a process that dies before its control loop has persisted the tick is gone with the process
        # (no durability is promised for the in-memory mailbox; C13 decides crash semantics): only the last process' sends count here
        last_phase = len(obs["case_phases"]) - 1
        t_last = max(restarts)
        sent_last = {r["uid"] for r in cs.tr.rec.of("send_ok") if r["t"] >= t_last}
        lost = [u for u in lost if u in sent_last]
    to_finished = {c[3] for c in obs.get("sub_calls", []) if c[0] == "send" and c[4]}
    if lost and not (final and final["status"] == "completed"):
        acc.violation({"mech": "sent_event_never_processed", "restart": bool(restarts),
                       **({"forwarded_to_finished_engine_run": bool(set(lost) & to_finished)} if stack != "inproc" else {})},
                      f"events {lost} were accepted by send_event but never reached the run; final handler {final}; releases {[r['t'] for r in obs['releases']]}", wit)
    errs = cs.tr.rec.of("send_error")
    if errs and not restarts:
        if not (final and final["status"] == "completed"):
            acc.violation({"mech": "send_to_idle_run_failed"}, f"send_event failed: {errs[:2]}; final {final}", wit)
    # end state: without restarts every key was answered, so the run must have finished
    if not restarts and not errs:
        if final is None or final["status"] != "completed":
            acc.violation({"mech": "run_did_not_finish_after_all_answers", "status": final and final["status"],
                           **({"forwarded_to_finished_engine_run": bool(to_finished)} if stack != "inproc" else {})},
                          f"all answers sent ({[s['at'] for s in sends]}; release due {t_rel}) but handler is {final}; loops={obs['loops_started']} releases={[r['t'] for r in obs['releases']]}", wit)
    if obs["releases"]:
        acc.sig(h({k: v for k, v in case.items() if k != "spec"}))
    acc.sample({"seed": case["seed"], "I": I, "t_idle": t_idle, "sends": sends, "restarts": restarts, "yield": case["yield_seed"] is not None,
                "loop_log": obs["loop_log"][:8], "releases": [r["t"] for r in obs["releases"]], "final": final})


# ----------------------------------------------------------------- internal wake-up inside the release handler's store round trip
def gen_wake(seed):
    from vf import idle_cases as ic

    rnd = random.Random(seed)
    q = rnd.choice([0.1, 0.3])
    I = rnd.choice([0.5, 1.0])
    W = round(I + q * rnd.choice([3.5, 4, 4.5, 5, 5.5, 6, 6.5, 7, 7.5, 8]), 4)
    spec, keys = ic.gen_program(rnd, n=rnd.randint(1, 2), waiter_timeout=W)
    spec["sched_seed"] = seed
    return {"seed": seed, "kind": "wake", "spec": spec, "keys": keys, "I": I, "W": W, "store_latency": q, "store": rnd.choice(["sqlite", "memory"])}


def run_wake(case, acc):
    """A waiter timeout (internal wake-up, takes no reload lock) lands while _release_idle_handler is suspended in its store
    read: the run must not be released while it is doing the timeout's work.  Only the release-time monitors are evaluated
    (the timer that is lost when a run IS legitimately released is C14's known finding)."""
    from vf import idle_cases as ic

    wit = {"case": case}
    scn = {"spec": case["spec"], "idle_timeout": case["I"], "sends": [], "restarts": [], "yield_seed": None, "store": case["store"], "end": 60.0,
           "store_latency": case["store_latency"]}
    obs, cs = ic.run_scenario(scn)
    acc.case()
    acc.hit("wake_scenario")
    if any(p["exc"] for p in obs["case_phases"]):
        acc.inconclusive.append(f"wake scenario crashed seed={case['seed']}: {[p['exc'] for p in obs['case_phases'] if p['exc']][0][:300]}")
        return
    t_timeouts = [t["t"] for t in cs.tr.ticks if t["tick"] == "TickWaiterTimeout"]
    for (a, b) in obs.get("release_attempts", []):
        if any(a - 1e-9 <= t <= b + 1e-9 for t in t_timeouts):
            acc.hit("waiter_timeout_inside_release_round_trip")
            acc.sig(h({"wake": case["seed"]}))
    for r in obs["releases"]:
        if r.get("reason") != "idle_release" or "workers" not in r:
            continue
        acc.hit("release_snapshot_eval")
        busy = {s: w for s, w in r["workers"].items() if w["q"] or w["ip"]}
        pend = [x for x in r["buffer"] + r["recvq"] + r["pulled"] if x in ("TickAddEvent", "TickStepResult", "TickWaiterTimeout")]
        if busy or pend:
            acc.violation({"mech": "released_while_not_idle", "busy_steps": bool(busy), "pending_ticks": bool(pend), "wake": "waiter_timeout"},
                          f"waiter timeout {case['W']}s, idle_timeout {case['I']}s, store round trip {case['store_latency']}s: run released at vt={r['t']} with step work {busy} / "
                          f"pending ticks {pend}; release attempts {obs.get('release_attempts')}; timeout ticks at {t_timeouts}", wit)


# ----------------------------------------------------------------- lifecycle lock state machine
def run_lifecycle(seed, acc):
    from vf import boot, vclock

    import llama_agents.dbos.journal.lifecycle as lc

    vclock.patch_datetime(lc)
    rnd = random.Random(seed)
    d = boot.scratch_dir()
    try:
        db = os.path.join(d, "l.db")
        import sqlite3

        conn = sqlite3.connect(db)
        conn.executescript(open(os.path.join(os.environ.get("VERIF_REPO", "/repo"), "packages/llama-agents-dbos/src/llama_agents/dbos/_store/sqlite/migrations/0001_init.sql")).read())
        conn.commit()
        conn.close()
        lock = lc.SqliteRunLifecycleLock(db)
        script = []
        n_tasks = rnd.randint(2, 5)
        crash_timeout = rnd.choice([None, 1.0, 5.0])
        log = []

        def state():
            c = sqlite3.connect(db)
            try:
                row = c.execute("SELECT state FROM run_lifecycle WHERE run_id='r'").fetchone()
                return row[0] if row else None
            finally:
                c.close()

        async def releaser(delay, crash):
            await asyncio.sleep(delay)
            ok = await lock.begin_release("r")
            log.append(("begin_release", vclock.vnow(), ok, state()))
            if ok and not crash:
                stall = rnd.choice([0, 0.1, 0.5, 0.5, 3.0, 8.0])  # may exceed the crash timeout: a resumer takes over meanwhile
                await asyncio.sleep(stall)
                await lock.complete_release("r")
                log.append(("complete_release", vclock.vnow(), stall, state()))

        async def resumer(delay, i):
            await asyncio.sleep(delay)
            for _ in range(6):
                r = await lock.try_begin_resume("r", crash_timeout_seconds=crash_timeout)
                log.append(("try_begin_resume", vclock.vnow(), None if r is None else r.value, state(), i))
                if r is None or r.value == "released":
                    return
                await asyncio.sleep(rnd.choice([0.1, 0.5, 2.0, 6.0]))

        crash = rnd.random() < 0.3

        async def main():
            await lock.create("r")
            tasks = [asyncio.ensure_future(releaser(rnd.choice([0, 0.1]), crash))]
            if rnd.random() < 0.3:
                tasks.append(asyncio.ensure_future(releaser(rnd.choice([0, 0.1, 0.2]), False)))
            for i in range(n_tasks):
                tasks.append(asyncio.ensure_future(resumer(rnd.choice([0, 0.05, 0.1, 0.3, 0.6, 1.5, 7.0]), i)))
            await asyncio.gather(*tasks)

        cr = vclock.run(main)
        acc.case()
        acc.hit("lifecycle_script")
        wit = {"case": {"kind": "lifecycle", "seed": seed}}
        if cr.exception() is not None:
            acc.violation({"mech": "lifecycle_lock_raised", "exc": type(cr.exception()).__name__}, f"lifecycle lock script raised {cr.exception()!r}", wit)
            return
        # oracle: replay the log against the state machine
        st = "active"
        owners = 0
        released_periods = 0
        took_over = 0
        for e in sorted(log, key=lambda e: e[1]):
            op = e[0]
            if op == "begin_release":
                if e[2]:
                    if st != "active":
                        acc.violation({"mech": "begin_release_succeeded_from_wrong_state", "from": st}, f"log={log}", wit)
                    st = "releasing"
                    t_rel = e[1]
            elif op == "complete_release":
                if st == "releasing":
                    st = "released"
                    released_periods += 1
                else:
                    acc.hit("lifecycle_stalled_releaser")  # late completion after a takeover: must change nothing
            elif op == "try_begin_resume":
                res = e[2]
                if res == "released":
                    if st == "released":
                        st = "active"
                        owners += 1
                    elif st == "releasing" and crash_timeout is not None and e[1] - t_rel > crash_timeout:
                        st = "active"
                        owners += 1
                        took_over += 1
                    else:
                        acc.violation({"mech": "second_resumer_took_ownership", "state": st}, f"try_begin_resume returned 'released' while the model state is {st}: log={log}", wit)
                elif res is None and st not in ("active",):
                    acc.violation({"mech": "resume_reported_active_while_released", "state": st}, f"log={log}", wit)
                elif res == "releasing" and st != "releasing":
                    acc.violation({"mech": "resume_reported_releasing_wrongly", "state": st}, f"log={log}", wit)
            if e[3] != st:
                acc.violation({"mech": "lifecycle_row_state_differs_from_model", "row": e[3], "model": st}, f"after {e[:3]}: row={e[3]} model={st}", wit)
                break
        if released_periods:
            acc.hit("lifecycle_released_period")
        if took_over:
            acc.hit("lifecycle_crash_timeout_takeover")
        acc.sig(h({"lc": seed}))
    finally:
        shutil.rmtree(d, ignore_errors=True)


def run_shard(shard):
    acc = Acc()
    for i in range(shard["n"]):
        run_inproc(gen_case(shard["seed"] + i), acc)
        for j in range(6):
            run_lifecycle(shard["seed"] + 7000 + i * 10 + j, acc)
        for j in range(2):
            run_wake(gen_wake(shard["seed"] + 9000 + i * 10 + j), acc)
    return acc.to_dict()


def replay(rp):
    acc = Acc()
    c = rp["case"]["case"]
    if c.get("kind") == "wake":
        run_wake(c, acc)
        return acc.to_dict()
    if c.get("kind") == "lifecycle":
        run_lifecycle(c["seed"], acc)
    else:
        run_inproc(c, acc)
    return acc.to_dict()
