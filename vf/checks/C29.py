"""C29 — merge_generators / debounced_sorted_prefix preserve items and order.

Monitor shape: black-box output oracle on the *real* functions of
`llama_agents.core.iter_utils`, driven under the virtual clock by generated
sources whose items arrive on and around the debounce / max-window boundaries
(dyadic virtual times so ties are exact; extra `sleep(0)` shifts move an arrival
by single loop iterations inside one virtual instant).

The order in which `asyncio.wait` reports several tasks completed in the same loop
pass is the iteration order of a `set` of tasks (address dependent).  A probe on the
name `asyncio` *inside iter_utils only* returns the same `done` set with a seeded
iteration order, so tie orders are explored on purpose and every case is replayable.

merge oracle      : per source the yielded items are exactly the source's items in
                    order (no error) / a duplicate-free prefix (error), the source's
                    own exception object is re-raised, the merge terminates.
debounce oracle   : output is a permutation of the input and there is p with
                    out[:p] == in[:p] sorted by key and out[p:] == in[p:], where p
                    lies between the smallest and the largest burst any reading of
                    the docstring allows (ties at the window edge count both ways).
"""
from __future__ import annotations

import random
from collections import Counter

from vf.common import Acc, h

ID = "C29"
LEVEL = "exploration"
TECHNIQUE = ("runtime monitoring: output-sequence oracle (permutation / per-source order / sorted-prefix-then-arrival-order) on the "
             "real merge_generators and debounced_sorted_prefix under a virtual clock with arrivals placed on the window boundaries "
             "and seeded asyncio.wait tie order")
LEVEL_TEXT = ("Randomised + boundary-grid exploration of item timings (exact ties reachable only under the virtual clock), source "
              "errors, sentinel-valued items and completion-set orders; the oracle is a direct restatement of the property over "
              "the yielded sequence, so a reported case is a concrete counterexample and silence means 'held on these timings'.")
LEVEL_NOTE = ("Trusted: CPython asyncio, vf/vclock.py, the oracle here. The probe that orders asyncio.wait's done set is local to "
              "iter_utils and returns a permutation the real set could have produced. Real-clock jitter is not modelled; ties that "
              "need equal float deadlines are exact here and rare (but possible) on a real clock.")
DESIGN_REF = "§5 C29"
RULE = ("case = one generated source schedule (+ parameters, + tie seed); distinct = hash of the case; non-trivial = merge: >=2 "
        "sources with >=1 item each; debounce: >=2 items and an arrival within 1/64 s of a window edge or a non-empty burst "
        "followed by passthrough items")
REQUIRED_REACH = ["merge_cases", "merge_source_error_cases", "merge_multi_done_sets", "merge_order_checked",
                  "debounce_cases", "debounce_tie_at_debounce_edge", "debounce_tie_at_max_window_edge", "debounce_max_window_shorter_than_quiet_period",
                  "debounce_burst_and_passthrough", "sentinel_valued_item_cases", "wait_probe_calls", "merge_source_error_is_a_cancellation"]
ASSUMPTIONS = ["virtual-time asyncio loop (vf/vclock.py); consumer pulls the next item immediately",
               "burst membership is only constrained to the interval allowed by every reading of the docstring "
               "(window from first pull vs from first item; edge ties either way)"]
VCLOCK = True
SHARD_TIMEOUT = {"quick": 300, "thorough": 1800}

SENTINEL = "__COMPLETE__"
EPS = 1e-6
Q = 1 / 64


def plan(tier, seed):
    n = 16 if tier == "quick" else 64
    per = 2500 if tier == "quick" else 14000
    return [{"seed": seed * 1000 + i, "n": per, "deep": tier != "quick"} for i in range(n)]


# ------------------------------------------------------------------ generation
def _gap(rnd, pool):
    g = rnd.choice(pool)
    if g not in (0, "y") and rnd.random() < 0.25:
        return [g, rnd.randint(1, 3)]        # timed sleep followed by j loop-iteration shifts
    return g


def gen_merge(rnd, deep):
    k = rnd.randint(1, 5 if deep else 4)
    pool = [0, 0, "y", "y", 0.25, 0.5, 0.5, 1, 1, 2]
    sources = []
    uid = 0
    for s in range(k):
        items = []
        for _ in range(rnd.randint(0, 6 if deep else 4)):
            items.append([_gap(rnd, pool), [s, uid]])
            uid += 1
        err = None
        if rnd.random() < 0.3:
            err = _gap(rnd, pool)
        sources.append({"items": items, "err": err})
    return {"kind": "merge", "sources": sources, "stop_first": rnd.random() < 0.15,
            "consumer_lat": rnd.choice([0, 0, 0, "y", 0.5, 1]), "tie_seed": rnd.randint(0, 10**6), "err_cancel": rnd.random() < 0.25}


def gen_debounce(rnd, deep):
    if rnd.random() < 0.15:
        d, w = 0.1, 0.1                                   # the function's defaults (non-dyadic)
        pool = [0, "y", 0.025, 0.05, 0.05, 0.1, 0.1, 0.15, 0.2]
    else:
        d = rnd.choice([0.125, 0.25, 0.5])
        w = rnd.choice([d, 2 * d, 2 * d, 4 * d, 4 * d, 64.0, d / 2, d / 4])   # incl. a max window shorter than the quiet period
        pool = [0, 0, "y", d / 4, d / 2, d / 2, d - Q, d, d, d, d + Q, 2 * d, w, w - Q]
        pool = [g for g in pool if g in (0, "y") or g > 0]
    n = rnd.randint(0, 8 if deep else 6)
    sentinel_class = rnd.random() < 0.12
    items = []
    if sentinel_class:
        names = ["a", "b", "c", "d", "zz", "__COMPLETE_", "__COMPLETE__x", "A"]
        rnd.shuffle(names)
        pos = set(rnd.sample(range(n), min(n, rnd.choice([1, 1, 2])))) if n else set()
        for i in range(n):
            items.append([_gap(rnd, pool), SENTINEL if i in pos else names[i % len(names)] + str(i)])
    else:
        # payload next to the sort key: the arrival index, its negation (equal keys then differ in the OPPOSITE order of arrival, so a
        # sort that looks beyond the key is visible), or a dict (items that cannot be ordered at all: only key() may be compared)
        pay = rnd.choice(["idx", "neg", "neg", "dict"])
        for i in range(n):
            items.append([_gap(rnd, pool), [rnd.randint(0, 4), i if pay == "idx" else (-i if pay == "neg" else {"i": i})]])
    return {"kind": "debounce", "d": d, "w": w, "items": items, "strings": sentinel_class,
            "t0": rnd.choice([0, 0, 0.5]), "tie_seed": rnd.randint(0, 10**6)}


def _note_short_window(case, acc):
    if case.get("kind") == "debounce" and case["w"] < case["d"]:
        acc.hit("debounce_max_window_shorter_than_quiet_period")


def grid_cases():
    """Deterministic boundary grid (2 items around the debounce edge, 3 around the max-window edge)."""
    out = []
    d = 0.25
    for g1 in (0, "y", d / 2, d - Q):
        for g2 in (d - Q, d, [d, 1], [d, 2], [d, 3], d + Q):
            for keys in ((3, 1), (1, 3)):
                for ts in (0, 1, 2):
                    out.append({"kind": "debounce", "d": d, "w": 64.0, "strings": False, "t0": 0, "tie_seed": ts,
                                "items": [[g1, [keys[0], 0]], [g2, [keys[1], 1]]]})
    w = 0.5
    for last in (d / 2 - Q, d / 2, [d / 2, 1], [d / 2, 2], d / 2 + Q):
        for ts in (0, 1, 2):
            out.append({"kind": "debounce", "d": d, "w": w, "strings": False, "t0": 0, "tie_seed": ts,
                        "items": [[d / 2, [5, 0]], [d / 2, [4, 1]], [d / 2, [3, 2]], [last, [1, 3]]]})
    # DESIGN §7 #24 witness with the decimal defaults
    out.append({"kind": "debounce", "d": 0.1, "w": 64.0, "strings": False, "t0": 0, "tie_seed": 0,
                "items": [[0.05, [1, 0]], [0.1, [3, 1]]]})
    out.append({"kind": "debounce", "d": 0.1, "w": 64.0, "strings": False, "t0": 0, "tie_seed": 0,
                "items": [[0.05, [3, 0]], [0.1, [1, 1]]]})
    # sentinel hypotheses
    for items in (["b", SENTINEL, "a"], [SENTINEL], ["b", "a", SENTINEL, "d", "c"]):
        out.append({"kind": "debounce", "d": d, "w": 64.0, "strings": True, "t0": 0, "tie_seed": 0,
                    "items": [[0, x] for x in items]})
    out.append({"kind": "debounce", "d": d, "w": 64.0, "strings": True, "t0": 0, "tie_seed": 0,
                "items": [[0, "b"], [0, "a"], [2 * d, SENTINEL], [d / 2, "c"]]})
    return out


# ------------------------------------------------------------------ probes
class _OrderedDone(set):
    """A set whose iteration order is fixed (a permutation of what the real set holds)."""

    def __init__(self, ordered):
        super().__init__(ordered)
        self._ordered = list(ordered)

    def __iter__(self):
        return iter(self._ordered)


class _AsyncioProxy:
    """Stands for the name `asyncio` inside iter_utils: everything delegates, wait() orders `done`."""

    def __init__(self, real, state):
        self._real = real
        self._state = state

    def __getattr__(self, name):
        return getattr(self._real, name)

    async def wait(self, fs, **kw):
        st = self._state
        done, pending = await self._real.wait(fs, **kw)
        st["wait_calls"] += 1
        if len(done) > 1:
            st["multi_done"] += 1
            base = sorted(done, key=_task_no)
            rnd = st.get("rnd")
            if rnd is not None:
                rnd.shuffle(base)
            return _OrderedDone(base), pending
        return done, pending


def _task_no(t):
    try:
        return int(t.get_name().rsplit("-", 1)[1])
    except Exception:  # noqa: BLE001
        return 0


_PROBE: dict = {}


def _install(iu):
    import asyncio

    if "state" not in _PROBE:
        _PROBE["state"] = {"wait_calls": 0, "multi_done": 0, "rnd": None}
        iu.asyncio = _AsyncioProxy(asyncio, _PROBE["state"])
    return _PROBE["state"]


async def _do_gap(g):
    import asyncio

    if isinstance(g, list):
        await asyncio.sleep(g[0])
        for _ in range(g[1]):
            await asyncio.sleep(0)
    elif g == "y":
        await asyncio.sleep(0)
    elif g:
        await asyncio.sleep(g)


def _gap_time(g):
    if isinstance(g, list):
        return g[0]
    return 0 if g in (0, "y") else g


class SrcErr(Exception):
    pass


def _src_cancelled():
    """an input's error that derives from asyncio.CancelledError (an input awaiting something another party cancelled, a transport's
    'peer aborted' error): it is the input's error like any other; the consumer task itself is never cancelled here"""
    import asyncio

    global _SrcCancelled
    if _SrcCancelled is None:
        class SrcCancelled(asyncio.CancelledError):
            pass

        _SrcCancelled = SrcCancelled
    return _SrcCancelled


_SrcCancelled = None


# ------------------------------------------------------------------ merge
def run_merge(case, acc: Acc):
    import llama_agents.core.iter_utils as iu

    from vf import vclock

    st = _install(iu)
    st["rnd"] = random.Random(case["tie_seed"])
    st["multi_done"] = 0
    st["wait_calls"] = 0
    srcs = case["sources"]
    out: list = []
    errs: dict = {}
    produced = [0] * len(srcs)
    res: dict = {}

    async def src(i):
        for g, item in srcs[i]["items"]:
            await _do_gap(g)
            produced[i] += 1
            yield tuple(item)
        if srcs[i]["err"] is not None:
            await _do_gap(srcs[i]["err"])
            errs[i] = _src_cancelled()(i) if case.get("err_cancel") else SrcErr(i)
            raise errs[i]

    async def main():
        gens = [src(i) for i in range(len(srcs))]
        try:
            async for x in iu.merge_generators(*gens, stop_on_first_completion=case["stop_first"]):
                out.append([x, vclock.vnow()])
                await _do_gap(case["consumer_lat"])
            res["end"] = "finished"
        except (SrcErr, _src_cancelled()) as e:
            res["end"] = "raised"
            res["exc"] = e
        except BaseException as e:  # noqa: BLE001
            if type(e).__name__ == "CancelledError":
                raise
            res["end"] = "other"
            res["exc"] = e

    r = vclock.run(main)
    acc.hit("merge_cases")
    if case.get("err_cancel") and any(s_["err"] is not None for s_ in srcs):
        acc.hit("merge_source_error_is_a_cancellation")
    acc.hit("wait_probe_calls", st["wait_calls"])
    if st["multi_done"]:
        acc.hit("merge_multi_done_sets", st["multi_done"])
    st["rnd"] = None
    if r.livelock:
        acc.inconclusive.append(f"livelock guard fired in merge case {h(case)}")
        return
    if r.quiescent or "end" not in res:
        acc.violation({"mech": "merge_never_terminates"},
                      f"merge_generators neither finished nor raised: loop quiescent at vt={r.vt}, yielded {len(out)} items", case)
        return
    any_err = any(s["err"] is not None for s in srcs)
    if any_err:
        acc.hit("merge_source_error_cases")
    stop_first = case["stop_first"]
    # per-source order
    seen = Counter()
    for i in range(len(srcs)):
        want = [tuple(it) for _, it in srcs[i]["items"]]
        got = [x for x, _ in out if x[0] == i]
        acc.hit("merge_order_checked")
        for x in got:
            seen[x] += 1
        if any(c > 1 for c in Counter(got).values()):
            acc.violation({"mech": "merge_item_duplicated"}, f"source {i}: yielded {got}, items {want}", case)
        elif got != want[:len(got)]:
            acc.violation({"mech": "merge_source_order_broken"}, f"source {i}: yielded {got}, source order {want}", case)
        elif len(got) < len(want) and res["end"] == "finished" and not stop_first:
            acc.violation({"mech": "merge_item_lost"},
                          f"source {i}: merge finished normally but only {got} of {want} were yielded", case)
        elif len(got) < produced[i] and res["end"] == "finished" and stop_first:
            acc.note("stop_first_dropped_already_produced_item")
    foreign = [x for x, _ in out if not (isinstance(x, tuple) and len(x) == 2 and 0 <= x[0] < len(srcs))]
    if foreign:
        acc.violation({"mech": "merge_foreign_item"}, f"yielded values that no source produced: {foreign[:3]}", case)
    if res["end"] == "other":
        acc.violation({"mech": "merge_raised_foreign_error", "exc": type(res["exc"]).__name__},
                      f"merge raised {res['exc']!r}", case)
    elif res["end"] == "raised":
        if not any(res["exc"] is e for e in errs.values()):
            acc.violation({"mech": "merge_error_not_reraised_identically"}, "raised a SrcErr that no source raised", case)
    elif errs and not stop_first:
        # a source did raise (errs filled) but the merge finished normally
        acc.violation({"mech": "merge_source_error_swallowed"},
                      f"source(s) {sorted(errs)} raised but merge_generators finished normally", case)
    elif any_err and not errs and not stop_first:
        # merge finished before the failing source was driven to its error: it stopped pulling a live source
        acc.violation({"mech": "merge_item_lost"}, "merge finished while a source was still unfinished", case)
    # stricter reading (informational): yielded at the instant it was produced when the consumer is idle
    return


# ------------------------------------------------------------------ debounce
def _keyfn(strings):
    return (lambda x: x) if strings else (lambda x: x[0])


def burst_interval(arr, t0, d, w):
    """(p_lo, p_hi, tie_debounce, tie_maxwin): smallest / largest burst any reading allows."""
    # reading A (window and max window from the first pull), ties excluded  -> smallest burst
    D, M, lo = t0 + d, t0 + w, 0
    tie_d = tie_m = False
    for a in arr:
        edge = min(D, M)
        if abs(a - edge) <= EPS:
            if D <= M:
                tie_d = True
            if M <= D:
                tie_m = True
        if a < edge - EPS:
            lo += 1
            D = a + d
        else:
            break
    # reading C (first item always opens the burst; max window from the first item), ties included -> largest burst
    hi = 0
    for k, a in enumerate(arr):
        if k == 0:
            hi, D, M = 1, a + d, a + w
        elif a <= min(D, M) + EPS:
            hi += 1
            D = a + d
        else:
            break
    return lo, max(lo, hi), tie_d, tie_m


def run_debounce(case, acc: Acc):
    import asyncio

    import llama_agents.core.iter_utils as iu

    from vf import vclock

    st = _install(iu)
    st["rnd"] = random.Random(case["tie_seed"])
    st["multi_done"] = 0
    st["wait_calls"] = 0
    strings = case["strings"]
    conv = (lambda x: x) if strings else tuple
    items = [conv(it) for _, it in case["items"]]
    keyf = _keyfn(strings)
    arr: list = []
    out: list = []
    res: dict = {}

    async def inner():
        for g, it in case["items"]:
            await _do_gap(g)
            arr.append(vclock.vnow())
            yield conv(it)

    async def main():
        if case["t0"]:
            await asyncio.sleep(case["t0"])
        res["t0"] = vclock.vnow()
        try:
            _note_short_window(case, acc)
            async for x in iu.debounced_sorted_prefix(inner(), key=keyf, debounce_seconds=case["d"],
                                                      max_window_seconds=case["w"]):
                out.append([x, vclock.vnow()])
            res["end"] = "finished"
        except BaseException as e:  # noqa: BLE001
            if type(e).__name__ == "CancelledError":
                raise
            res["end"] = "raised"
            res["exc"] = e

    r = vclock.run(main)
    acc.hit("debounce_cases")
    acc.hit("wait_probe_calls", st["wait_calls"])
    st["rnd"] = None
    has_sentinel = strings and SENTINEL in items
    if has_sentinel:
        acc.hit("sentinel_valued_item_cases")
    if r.livelock:
        acc.inconclusive.append(f"livelock guard fired in debounce case {h(case)}")
        return False
    if r.quiescent or "end" not in res:
        acc.violation({"mech": "debounce_never_terminates"},
                      f"debounced_sorted_prefix neither finished nor raised (quiescent at vt={r.vt})", case)
        return False
    if res["end"] == "raised":
        acc.violation({"mech": "debounce_raised", "exc": type(res["exc"]).__name__},
                      f"debounced_sorted_prefix raised {res['exc']!r} on a non-failing source", case)
        return False
    got = [x for x, _ in out]
    t0 = res["t0"]
    d, w = case["d"], case["w"]
    lo, hi, tie_d, tie_m = burst_interval(arr, t0, d, w)
    if tie_d:
        acc.hit("debounce_tie_at_debounce_edge")
    if tie_m:
        acc.hit("debounce_tie_at_max_window_edge")
    timeline = (f"debounce={d} max_window={w} first pull at vt={t0}; arrivals "
                f"{[[it, a] for it, a in zip(items, arr)]}; yielded {out}")
    nontrivial = len(items) >= 2 and (tie_d or tie_m or 0 < lo < len(items))
    if 0 < lo and hi < len(items):
        acc.hit("debounce_burst_and_passthrough")
    # 1. exactly once
    cin, cout = Counter(map(repr, items)), Counter(map(repr, got))
    if cin != cout:
        missing = list((cin - cout).elements())
        extra = list((cout - cin).elements())
        if missing and not extra and all(m == repr(SENTINEL) for m in missing):
            acc.violation({"mech": "item_equal_to_internal_sentinel_dropped"},
                          f"input item(s) equal to the internal sentinel string were swallowed: missing {missing}. {timeline}", case)
        elif missing:
            acc.violation({"mech": "debounce_item_lost"}, f"missing {missing} extra {extra}. {timeline}", case)
        else:
            acc.violation({"mech": "debounce_item_duplicated"}, f"extra {extra}. {timeline}", case)
        return nontrivial

    # 2. sorted prefix then arrival order
    def fits(p):
        if got[p:] != items[p:]:
            return False
        head = got[:p]
        if Counter(map(repr, head)) != Counter(map(repr, items[:p])):
            return False
        ks = [keyf(x) for x in head]
        return all(ks[i] <= ks[i + 1] for i in range(len(ks) - 1))

    all_p = [p for p in range(len(items) + 1) if fits(p)]
    good = [p for p in all_p if lo <= p <= hi]
    if good:
        # stricter readings, informational only
        if not strings:
            p = good[0]
            if sorted(items[:p], key=keyf) != got[:p] and all(not fits2(q, got, items, keyf) for q in good):
                acc.note("equal_key_order_not_arrival_order")
        if lo not in good and not (tie_d or tie_m):
            acc.note("burst_larger_than_reading_A")
        return nontrivial
    if all_p:
        kind = "too_small" if max(all_p) < lo else "too_large"
        acc.violation({"mech": "burst_window_not_honoured", "burst": kind},
                      f"output is sorted-prefix+passthrough only for p in {all_p}, but every reading of the window puts the "
                      f"burst size in [{lo},{hi}]. {timeline}", case)
        return nontrivial
    # no p at all: find an illegitimate pair (x before y in the output, y arrived earlier and has a smaller key)
    pos_in = {repr(x): i for i, x in reversed(list(enumerate(items)))}
    bad = None
    for i in range(len(got)):
        for j in range(i + 1, len(got)):
            x, y = got[i], got[j]
            if pos_in[repr(y)] < pos_in[repr(x)] and keyf(y) < keyf(x):
                bad = (x, y)
                break
        if bad:
            break
    if bad:
        at_edge = "an arrival sits exactly on the window edge" if (tie_d or tie_m) else "no arrival on the window edge"
        acc.violation({"mech": "later_item_yielded_before_sorted_burst"},
                      f"{bad[0]!r} (arrived later, larger key) was yielded before {bad[1]!r}: neither arrival order nor key "
                      f"order explains it ({at_edge}). {timeline}", case)
    else:
        acc.violation({"mech": "not_sorted_prefix_then_arrival_order"}, f"no split point p fits. {timeline}", case)
    return nontrivial


def fits2(p, got, items, keyf):
    return got[:p] == sorted(items[:p], key=keyf) and got[p:] == items[p:]


# ------------------------------------------------------------------ shard
def run_case(case, acc: Acc):
    if case["kind"] == "merge":
        run_merge(case, acc)
        srcs = case["sources"]
        return sum(1 for s in srcs if s["items"]) >= 2
    return run_debounce(case, acc)


def run_shard(shard):
    acc = Acc()
    rnd = random.Random(shard["seed"])
    cases = []
    if shard["seed"] % 1000 == 0:
        cases += grid_cases()
    deep = shard.get("deep", False)
    for _ in range(shard["n"]):
        cases.append(gen_merge(rnd, deep) if rnd.random() < 0.4 else gen_debounce(rnd, deep))
    for case in cases:
        acc.case()
        if run_case(case, acc):
            acc.sig(h(case))
            acc.sample(case)
    return acc.to_dict()


def replay(rp_file):
    acc = Acc()
    run_case(rp_file["case"], acc)
    return acc.to_dict()
