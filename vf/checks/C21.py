"""C21 — the single-connection SQLite store keeps working after use.

Monitor shape: differential.  One generated operation script (handler update /
query / delete / update_handler_status, event append / query / subscribe,
tick append / get / stream incl. pagination, state-store operations through
``create_state_store`` incl. seeding from serialized state) is executed in
lock-step on

    single    SqliteWorkflowStore(db_a, single_connection=True)   (the AgentCore configuration)
    per_call  SqliteWorkflowStore(db_b)                           (per-call connections)

and the normalised result (or exception type) of every operation must be equal.
Timestamps written by SQLite/`datetime.now` are the only thing normalised away.
The first diverging operation ends the case and is reported with a mechanism
signature derived from what was observed.
"""
from __future__ import annotations

import copy
import os
import random
import shutil

from vf.common import Acc, h

ID = "C21"
LEVEL = "exploration"
VCLOCK = True
TECHNIQUE = ("runtime monitoring: differential oracle — the same generated operation script on the real SqliteWorkflowStore in "
             "single-connection and per-call-connection mode, results and exception types compared operation by operation")
LEVEL_TEXT = ("Generated scripts over the whole AbstractWorkflowStore surface plus the state stores handed out by "
              "create_state_store run on both connection modes of the real store (fresh database files per case); every "
              "operation's normalised result must agree. Exploration: operation sequences are sampled; the comparison is total "
              "over what each operation returns.")
LEVEL_NOTE = ("Trusted: sqlite3, the virtual clock (only subscribe_events waits), result normalisation (drops SQLite "
              "CURRENT_TIMESTAMP columns and replaces datetime.now() stamps by a token). The per-call side is the reference.")
DESIGN_REF = "§5 C21"
RULE = ("case = one script (<=30 ops) on a fresh pair of databases; distinct = hash of the script; non-trivial = the script "
        "uses a state store AND performs a further store operation afterwards")
REQUIRED_REACH = ["handler_ops_compared", "event_ops_compared", "subscribe_compared", "tick_ops_compared",
                  "state_ops_compared", "op_after_state_op_compared", "stream_ticks_paginated", "seeded_state_store_compared"]
ASSUMPTIONS = ["both stores are used by one process / one event loop (the AgentCore deployment model)",
               "one extra idle connection is held on the per-call database (cost only)"]
SHARD_TIMEOUT = {"quick": 300, "thorough": 1800}

RUNS = ["r0", "r1", "r2"]
HANDLERS = ["h0", "h1", "h2", "h3"]
WFS = ["wfA", "wfB"]
STATUSES = ["running", "completed", "failed", "cancelled"]
STATE_KINDS = ("st_set", "st_get", "st_get_state", "st_set_state", "st_clear", "st_edit", "st_seed_memory", "st_seed_copy")


def plan(tier, seed):
    n = 16 if tier == "quick" else 64
    per = 160 if tier == "quick" else 1000
    return [{"seed": seed * 1000 + i, "n": per} for i in range(n)]


# ----------------------------------------------------------------- generation
def _dt(rnd):
    return rnd.choice([None, "2020-01-02T03:04:05+00:00", "2021-06-07T08:09:10.123456+00:00"])


def gen_query(rnd):
    q = {}
    if rnd.random() < 0.5:
        q["handler_id_in"] = rnd.sample(HANDLERS, rnd.randint(0, 2))
    if rnd.random() < 0.3:
        q["run_id_in"] = rnd.sample(RUNS, rnd.randint(0, 2))
    if rnd.random() < 0.3:
        q["workflow_name_in"] = rnd.sample(WFS, rnd.randint(0, 2))
    if rnd.random() < 0.3:
        q["status_in"] = rnd.sample(STATUSES, rnd.randint(0, 2))
    if rnd.random() < 0.2:
        q["is_idle"] = rnd.choice([True, False])
    return q


def gen_state_op(rnd):
    k = rnd.choice(["st_set", "st_set", "st_get", "st_get_state", "st_set_state", "st_clear", "st_edit",
                    "st_seed_memory", "st_seed_copy"])
    op = {"k": k, "run": rnd.choice(RUNS), "typed": False}
    if k == "st_set":
        op.update(p=rnd.choice(["a", "b", "user.name", "cfg.depth.x"]), v=rnd.choice([1, "x", [1, 2], {"k": None}, 2.5]))
    elif k == "st_get":
        op.update(p=rnd.choice(["a", "b", "user.name", "cfg.depth.x", "nope"]), default=rnd.random() < 0.5)
    elif k == "st_set_state":
        op.update(f={rnd.choice(["a", "b", "z"]): rnd.choice([0, "s", [True]])})
    elif k == "st_edit":
        op.update(key=rnd.choice(["n", "a"]))
    elif k == "st_seed_memory":
        op.update(f={"seeded": rnd.randint(0, 9), "a": rnd.choice(["m", 3])})
    elif k == "st_seed_copy":
        op.update(src=rnd.choice(RUNS))
    if k in ("st_get", "st_get_state", "st_set_state", "st_clear", "st_edit") and rnd.random() < 0.25:
        op["typed"] = True  # Child-typed store on a dedicated run id
        op["run"] = "typed-" + op["run"]
        if k == "st_set_state":
            op["f"] = {"count": rnd.randint(0, 9), "name": rnd.choice(["q", "w"])}
            op["cls"] = rnd.choice(["Child", "Parent", "Parent", "Unrelated"])  # Unrelated: set_state must refuse it (raises mid-operation)
        if k == "st_get":
            op["p"] = rnd.choice(["count", "extra", "meta.k", "nope"])
        if k == "st_edit":
            op["key"] = "count"
    return op


def gen_op(rnd, state_density):
    r = rnd.random()
    if r < state_density:
        return gen_state_op(rnd)
    k = rnd.choice(["update", "update", "query", "query", "delete", "update_status", "append_event", "append_event",
                    "query_events", "subscribe_drain", "subscribe_live", "append_tick", "append_tick", "get_ticks",
                    "stream_ticks", "bulk_ticks", "legacy_ctx"])
    op = {"k": k}
    if k == "update":
        res = rnd.choice([None, None, 1, "done", {"a": [1, 2]}])
        op["h"] = {"handler_id": rnd.choice(HANDLERS), "workflow_name": rnd.choice(WFS), "status": rnd.choice(STATUSES),
                   "run_id": rnd.choice(RUNS + [None]), "error": rnd.choice([None, "boom"]),
                   "result": res, "has_result": res is not None or rnd.random() < 0.2,
                   "started_at": _dt(rnd), "updated_at": _dt(rnd), "completed_at": _dt(rnd), "idle_since": _dt(rnd)}
    elif k in ("query", "delete"):
        op["q"] = gen_query(rnd)
    elif k == "update_status":
        op.update(run=rnd.choice(RUNS), status=rnd.choice(STATUSES + [None]), error=rnd.choice([None, "e"]),
                  idle=rnd.choice(["unset", "none", "2020-01-02T03:04:05+00:00"]))
    elif k == "append_event":
        op.update(run=rnd.choice(RUNS), ev=rnd.choice(["EvA", "EvA", "EvB", "StopEvent"]), i=rnd.randint(0, 99))
    elif k == "query_events":
        op.update(run=rnd.choice(RUNS), after=rnd.choice([None, -1, 0, 1, 5]), limit=rnd.choice([None, None, 1, 3]))
    elif k == "subscribe_drain":
        op.update(run=rnd.choice(RUNS), after=rnd.choice([-1, -1, 0, 2]), max=rnd.choice([1, 3, 50]))
    elif k == "subscribe_live":
        during = [{"ev": rnd.choice(["EvA", "EvB"]), "i": rnd.randint(0, 99), "gap": rnd.choice([0, 0.05, 0.7, 1.5])}
                  for _ in range(rnd.randint(0, 3))]
        if rnd.random() < 0.7:
            during.append({"ev": "StopEvent", "i": 0, "gap": rnd.choice([0, 0.3])})
        op.update(run=rnd.choice(RUNS), after=rnd.choice([-1, -1, 0]), during=during)
    elif k == "append_tick":
        op.update(run=rnd.choice(RUNS), data={"type": rnd.choice(["TickAddEvent", "TickStepResult"]), "n": rnd.randint(0, 99),
                                                 "nested": {"l": [1, None, "é"]}})
    elif k in ("get_ticks", "stream_ticks", "legacy_ctx"):
        op.update(run=rnd.choice(RUNS))
    elif k == "bulk_ticks":
        op.update(run=rnd.choice(RUNS), count=rnd.choice([99, 100, 101, 130]))
    return op


def gen_case(rnd):
    density = rnd.choice([0.0, 0.05, 0.15, 0.3, 0.5])
    ops = []
    for _ in range(rnd.randint(3, 30)):
        op = gen_op(rnd, density)
        ops.append(op)
        if op["k"] in ("st_seed_memory", "st_seed_copy") and rnd.random() < 0.8:
            ops.append({"k": "st_get_state", "run": op["run"], "typed": False})
    bulk = [i for i, o in enumerate(ops) if o["k"] == "bulk_ticks"]
    for i in bulk[1:]:  # at most one bulk insert per script (cost)
        ops[i] = {"k": "get_ticks", "run": ops[i]["run"]}
    if bulk and not any(o["k"] == "stream_ticks" and o["run"] == ops[bulk[0]]["run"] for o in ops[bulk[0]:]):
        ops.append({"k": "stream_ticks", "run": ops[bulk[0]]["run"]})
    return {"ops": ops}


def is_nontrivial(case):
    seen = False
    for o in case["ops"]:
        if seen:
            return True
        if o["k"] in STATE_KINDS:
            seen = True
    return False


# ----------------------------------------------------------------- execution of one op on one store
def _parse_dt(s):
    from datetime import datetime

    return None if s is None else datetime.fromisoformat(s)


def _norm_dt(d):
    if d is None:
        return None
    return "NOW" if d.year >= 2024 else d.isoformat()


def norm_handler(hd):
    d = hd.model_dump(mode="json")
    for f in ("started_at", "updated_at", "completed_at", "idle_since"):
        d[f] = _norm_dt(getattr(hd, f))
    return d


def norm_event(e):
    return [e.run_id, e.sequence, e.event.model_dump(mode="json")]


def norm_tick(t):
    return [t.run_id, t.sequence, t.tick_data]


def mk_envelope(name, i):
    from llama_agents.client.protocol.serializable_events import EventEnvelopeWithMetadata
    from workflows.events import StopEvent

    from vf.events import EvA, EvB

    ev = StopEvent(result={"i": i}) if name == "StopEvent" else (EvA if name == "EvA" else EvB)(i=i)
    return EventEnvelopeWithMetadata.from_event(ev)


async def exec_op(store, op):
    """Run one script operation on one store; returns a JSON-comparable result."""
    import asyncio

    from llama_agents.server._store.abstract_workflow_store import HandlerQuery, PersistentHandler
    from workflows.context.serializers import JsonSerializer
    from workflows.context.state_store import DictState, InMemoryStateStore
    from workflows.events import StopEvent

    from vf.c19_models import Child, Parent

    k = op["k"]
    if k == "update":
        hd = dict(op["h"])
        has = hd.pop("has_result")
        res = hd.pop("result")
        for f in ("started_at", "updated_at", "completed_at", "idle_since"):
            hd[f] = _parse_dt(hd[f])
        await store.update(PersistentHandler(**hd, result=StopEvent(result=copy.deepcopy(res)) if has else None))
        return None
    if k == "query":
        return [norm_handler(x) for x in await store.query(HandlerQuery(**op["q"]))]
    if k == "delete":
        return await store.delete(HandlerQuery(**op["q"]))
    if k == "update_status":
        kw = {}
        if op["idle"] != "unset":
            kw["idle_since"] = _parse_dt(None if op["idle"] == "none" else op["idle"])
        await store.update_handler_status(op["run"], status=op["status"], error=op["error"], **kw)
        return None
    if k == "append_event":
        await store.append_event(op["run"], mk_envelope(op["ev"], op["i"]))
        return None
    if k == "query_events":
        return [norm_event(e) for e in await store.query_events(op["run"], after_sequence=op["after"], limit=op["limit"])]
    if k == "subscribe_drain":
        got = []

        async def drain():
            async for e in store.subscribe_events(op["run"], after_sequence=op["after"]):
                got.append(norm_event(e))
                if len(got) >= op["max"]:
                    return "max"
            return "terminal"

        try:
            how = await asyncio.wait_for(drain(), timeout=2.5 * max(store.poll_interval, 0.1))
        except asyncio.TimeoutError:
            how = "timeout"
        return [how, got]
    if k == "subscribe_live":
        got = []

        async def sub():
            async for e in store.subscribe_events(op["run"], after_sequence=op["after"]):
                got.append(norm_event(e))
            return "terminal"

        t = asyncio.ensure_future(sub())
        await asyncio.sleep(0.01)
        wr = None
        for d in op["during"]:
            if d["gap"]:
                await asyncio.sleep(d["gap"])
            try:
                await store.append_event(op["run"], mk_envelope(d["ev"], d["i"]))
            except Exception as e:  # noqa: BLE001
                wr = type(e).__name__
                break
        try:
            how = await asyncio.wait_for(t, timeout=5.0)
        except asyncio.TimeoutError:
            how = "timeout"
        return [how, wr, got]
    if k == "append_tick":
        await store.append_tick(op["run"], copy.deepcopy(op["data"]))
        return None
    if k == "bulk_ticks":
        for i in range(op["count"]):
            await store.append_tick(op["run"], {"type": "bulk", "i": i})
        return None
    if k == "get_ticks":
        return [norm_tick(t) for t in await store.get_ticks(op["run"])]
    if k == "stream_ticks":
        return [norm_tick(t) async for t in store.stream_ticks(op["run"])]
    if k == "legacy_ctx":
        return store.get_legacy_ctx(op["run"])
    # ---- state stores handed out by create_state_store
    st_type = Child if op.get("typed") else None
    if k == "st_seed_memory":
        ser = JsonSerializer()
        payload = InMemoryStateStore(DictState(**copy.deepcopy(op["f"]))).to_dict(ser)
        store.create_state_store(op["run"], None, payload, ser)
        return None  # what was seeded is read by a later st_get_state (kept separate so the closer can be attributed)
    if k == "st_seed_copy":
        store.create_state_store(op["run"], None, {"store_type": "sqlite", "run_id": op["src"]}, JsonSerializer())
        return None
    ss = store.create_state_store(op["run"], st_type)
    if k == "st_set":
        await ss.set(op["p"], copy.deepcopy(op["v"]))
        return None
    if k == "st_get":
        return await (ss.get(op["p"], default="__d__") if op["default"] else ss.get(op["p"]))
    if k == "st_get_state":
        s = await ss.get_state()
        return [type(s).__name__, s.model_dump() if op.get("typed") else dict(s.items())]
    if k == "st_set_state":
        if op.get("typed"):
            if op["cls"] == "Unrelated":
                from vf.c19_models import Unrelated

                await ss.set_state(Unrelated(x=op["f"]["count"]))
            else:
                await ss.set_state((Child if op["cls"] == "Child" else Parent)(**op["f"]))
        else:
            await ss.set_state(DictState(**copy.deepcopy(op["f"])))
        return None
    if k == "st_clear":
        await ss.clear()
        return None
    if k == "st_edit":
        async with ss.edit_state() as s:
            if op.get("typed"):
                s.count += 1
            else:
                cur = s.get(op["key"], 0)
                s[op["key"]] = (cur + 1) if isinstance(cur, int) and not isinstance(cur, bool) else 1
        return None
    raise AssertionError(k)


async def guarded(store, op):
    try:
        return ["ok", await exec_op(store, op)], None
    except Exception as e:  # noqa: BLE001
        return ["exc", type(e).__name__], e


def _conn_alive(single):
    """classification aid only: is the store's persistent connection still usable?"""
    try:
        single._persistent_conn.execute("SELECT 1").fetchone()
        return True
    except Exception:  # noqa: BLE001
        return False


FAMILY = {"update": "handler", "query": "handler", "delete": "handler", "update_status": "handler", "legacy_ctx": "handler",
          "append_event": "event", "query_events": "event", "subscribe_drain": "subscribe", "subscribe_live": "subscribe",
          "append_tick": "tick", "get_ticks": "tick", "stream_ticks": "tick", "bulk_ticks": "tick"}


def run_case(case, acc, base_dir, idx):
    import sqlite3

    from llama_agents.server._store.sqlite.sqlite_workflow_store import SqliteWorkflowStore

    from vf import vclock

    d = os.path.join(base_dir, f"case{idx}")
    os.makedirs(d)
    holder = {}

    async def main():
        per_call = SqliteWorkflowStore(os.path.join(d, "per_call.db"))
        try:
            single = SqliteWorkflowStore(os.path.join(d, "single.db"), single_connection=True)
        except Exception as e:  # noqa: BLE001  (the per-call store opened fine on an equally fresh path)
            acc.violation({"mech": "single_connection_store_cannot_open", "exc": type(e).__name__},
                          f"SqliteWorkflowStore(single_connection=True) on a fresh path raised {type(e).__name__}: {e}",
                          {"ops": []})
            return
        holder["single"] = single
        holder["keeper"] = sqlite3.connect(os.path.join(d, "per_call.db"))
        holder["keeper"].execute("SELECT count(*) FROM handlers").fetchall()
        last_state_kind = None
        closed_after = None  # kind of the first operation after which the shared connection was found closed
        bulk_run = None
        for i, op in enumerate(case["ops"]):
            ra, ea = await guarded(single, op)
            rb, eb = await guarded(per_call, op)
            k = op["k"]
            fam = FAMILY.get(k, "state")
            acc.hit(f"{fam}_ops_compared" if fam != "subscribe" else "subscribe_compared")
            if last_state_kind is not None:
                acc.hit("op_after_state_op_compared")
            if k in ("st_seed_memory", "st_seed_copy"):
                acc.hit("seeded_state_store_compared")
            if k == "bulk_ticks":
                bulk_run = op["run"]
            if k == "stream_ticks" and op["run"] == bulk_run and rb[0] == "ok" and len(rb[1]) > 100:
                acc.hit("stream_ticks_paginated")
            if closed_after is None and not _conn_alive(single):
                closed_after = k
            if ra != rb:
                witness = {"ops": case["ops"][: i + 1]}
                closed = isinstance(ea, sqlite3.ProgrammingError) and "closed" in str(ea).lower()
                if closed:
                    closer = {"st_seed_memory": "create_state_store_seed_in_memory",
                              "st_seed_copy": "create_state_store_seed_copy"}.get(
                                  closed_after, "state_store_operation" if closed_after in STATE_KINDS else "other")
                    acc.violation({"mech": "shared_connection_closed", "closed_by": closer},
                                  f"single_connection=True: {k} raised sqlite3.ProgrammingError('{ea}'); the shared connection "
                                  f"was closed during {closed_after}; per-call store gave {_short(rb)}", witness)
                elif ra[0] == "exc" or rb[0] == "exc":
                    acc.violation({"mech": "exception_mismatch", "op": k,
                                   "single": ra[1] if ra[0] == "exc" else "ok", "per_call": rb[1] if rb[0] == "exc" else "ok"},
                                  f"{k}: single -> {_short(ra)} ({ea!r}), per_call -> {_short(rb)} ({eb!r})", witness)
                else:
                    acc.violation({"mech": "result_mismatch", "op": k},
                                  f"{k}: single -> {_short(ra[1])}, per_call -> {_short(rb[1])}", witness)
                return
            if k in STATE_KINDS:
                last_state_kind = k

    try:
        res = vclock.run(main)
        if not res.done:
            acc.violation({"mech": "operations_never_complete"},
                          f"script never finishes (quiescent={res.quiescent}, livelock={res.livelock})", case)
        elif res.exception() is not None:
            acc.inconclusive.append(f"harness error in case: {res.exception()!r}")
    finally:
        for key in ("keeper",):
            try:
                holder[key].close()
            except Exception:  # noqa: BLE001
                pass
        try:
            if holder.get("single") is not None and holder["single"]._persistent_conn is not None:
                holder["single"]._persistent_conn.close()
        except Exception:  # noqa: BLE001
            pass
        shutil.rmtree(d, ignore_errors=True)


def _short(x, n=200):
    s = repr(x)
    return s if len(s) <= n else s[:n] + "…"


def run_shard(shard):
    from vf import boot

    acc = Acc()
    rnd = random.Random(shard["seed"])
    base = boot.scratch_dir()
    try:
        for i in range(shard["n"]):
            case = gen_case(rnd)
            acc.case()
            if is_nontrivial(case):
                acc.sig(h(case))
            if len(case["ops"]) <= 5:
                acc.sample(case)
            run_case(case, acc, base, i)
    finally:
        shutil.rmtree(base, ignore_errors=True)
    return acc.to_dict()


def replay(rp_file):
    from vf import boot

    acc = Acc()
    base = boot.scratch_dir()
    try:
        run_case(rp_file["case"], acc, base, 0)
    finally:
        shutil.rmtree(base, ignore_errors=True)
    return acc.to_dict()
