"""C22 — resource injection: caching and cycle detection under concurrent steps.

Monitor shape: reference oracle over recorded factory calls / injected object identities of
*real* workflows (vf/c22_programs.py builds a `Workflow` subclass per generated program:
dependency DAGs, diamonds and genuine cycles of sync / async factories, cached and not;
worker steps with num_workers 2-4 declaring `Annotated[T, Resource(...)]` parameters; a fan
step delivers items at generated virtual instants so invocations resolve at the same time
or staggered while another resolution is still awaiting a factory; 1-2 runs per instance).

Every factory call and every step body is attributed to its step invocation by the asyncio
task it runs in (the engine resolves resources inside the invocation's own task).  A probe
on `step_function.partial` (observation only) records when resolutions of two invocations
overlap, which is the reach counter of the whole check.

Oracle (from the statement):
  cached      : at most one factory call per workflow instance; one object identity in every
                step parameter and every factory argument;
  non-cached  : an object seen by an invocation (step parameter or argument of a factory called
                for that invocation) was created for that invocation; inside one invocation it is
                created at most once per top-level parameter that reaches it;
  cycles      : a program whose step parameters reach a genuine cycle => every run fails with the
                circular-dependency error; an acyclic program => no run ever fails with it.
"""
from __future__ import annotations

import random

from vf.common import Acc, h

ID = "C22"
LEVEL = "exploration"
TECHNIQUE = ("runtime monitoring: reference oracle over recorded factory calls and injected object identities of real "
             "workflows with Resource(...) step parameters, concurrent step invocations under a virtual clock")
LEVEL_TEXT = ("Randomised exploration over generated dependency graphs (DAG / diamond / genuine cycle, sync / async, cached or "
              "not) and invocation timings (same instant and staggered, 2-4 workers, 1-2 runs per instance); the oracle restates "
              "the property on factory-call counts, object identities and run outcomes, so each report is a concrete counterexample.")
LEVEL_NOTE = ("Trusted: CPython asyncio, vf/vclock.py, the instrumentation shim (tracing only), vf/c22_programs.py (builds step "
              "functions with explicit __signature__/__annotations__), the oracle. Attribution of factory calls to invocations "
              "relies on the engine resolving resources inside the invocation's task (checked: unattributed calls => inconclusive).")
DESIGN_REF = "§5 C22"
RULE = ("case = one generated program (resource graph + steps + send schedule + runs); distinct = hash of the program; "
        "non-trivial = two step invocations were observed resolving resources at overlapping times")
REQUIRED_REACH = ["partial_probe_calls", "overlapping_resolutions", "cached_checked", "noncached_checked",
                  "genuine_cycle_programs", "acyclic_runs_checked", "async_factory_calls", "second_run_on_same_instance", "none_valued_resource_observed"]
ASSUMPTIONS = ["virtual-time asyncio loop; BasicRuntime; async steps",
               "resource names are distinct per factory (ResourceManager keys on __qualname__)",
               "sharing of a non-cached resource between two parameters of one invocation is accepted either way"]
VCLOCK = True
SHARD_TIMEOUT = {"quick": 400, "thorough": 2400}

LATS = [0, "y", 0.25, 0.25, 0.5, 1]
GAPS = [0, 0, 0, "y", 0.25, 0.5, 1]


def plan(tier, seed):
    n = 16 if tier == "quick" else 64
    per = 400 if tier == "quick" else 3000
    return [{"seed": seed * 1000 + i, "n": per, "deep": tier != "quick"} for i in range(n)]


# ------------------------------------------------------------------ generation
def gen_case(rnd, deep=False):
    nn = rnd.randint(1, 6 if deep else 5)
    names = [f"R{i}" for i in range(nn)]
    nodes = []
    for i, nm in enumerate(names):
        later = names[i + 1:]
        k = rnd.choice([0, 0, 1, 1, 2, 3])
        deps = rnd.sample(later, min(k, len(later)))
        is_async = rnd.random() < 0.7
        nodes.append({"name": nm, "async": is_async, "lat": rnd.choice(LATS) if is_async else 0,
                      "cache": rnd.random() < 0.5, "deps": deps, "none": rnd.random() < 0.12})
    cyclic = rnd.random() < 0.15
    if cyclic:
        j = rnd.randrange(nn)
        i = rnd.randint(0, j)              # back edge j -> i (i <= j): self loop or longer cycle
        if names[i] not in nodes[j]["deps"]:
            nodes[j]["deps"].append(names[i])
        # make sure the cycle is really closed: a path i -> ... -> j
        for a in range(i, j):
            if names[a + 1] not in nodes[a]["deps"]:
                nodes[a]["deps"].append(names[a + 1])
    nsteps = rnd.choice([1, 1, 2])
    steps = []
    for s in range(nsteps):
        k = rnd.randint(1, min(3, nn))
        steps.append({"name": f"work{s}", "workers": rnd.randint(2, 4), "params": rnd.sample(names, k),
                      "body_lat": rnd.choice([0, 0, 0.25, 0.5])})
    sends = [[rnd.choice(GAPS), rnd.randrange(nsteps)] for _ in range(rnd.randint(2, 6 if deep else 5))]
    runs = [{"at": 0}]
    if rnd.random() < 0.5:
        runs.append({"at": rnd.choice([0, 0.25, 1, 8])})
    # transient factory failure followed by later, strictly sequential runs on the same instance
    if not cyclic and rnd.random() < 0.2:
        rnd.choice(nodes)["fail_first"] = 1
        runs = [{"at": 0}, {"at": 20}, {"at": 40}]
    return {"nodes": nodes, "steps": steps, "sends": sends, "runs": runs, "fresh_descriptors": rnd.random() < 0.5}


def analyse(case):
    """Static facts of the program: reachability, which nodes sit on / lead to a genuine cycle."""
    deps = {n["name"]: list(n["deps"]) for n in case["nodes"]}
    reach = {}
    for a in deps:
        seen, stack = set(), list(deps[a])
        while stack:
            x = stack.pop()
            if x not in seen:
                seen.add(x)
                stack.extend(deps[x])
        reach[a] = seen
    on_cycle = {a for a in deps if a in reach[a]}
    hits_cycle = {a for a in deps if a in on_cycle or reach[a] & on_cycle}
    return deps, reach, on_cycle, hits_cycle


# ------------------------------------------------------------------ probe
_PROBE: dict = {}


def _install_probe():
    import asyncio

    import workflows.runtime.types.step_function as sf

    if "state" in _PROBE:
        return _PROBE["state"]
    state = {"rec": None}
    orig = sf.partial

    async def partial(*a, **kw):
        rec = state["rec"]
        if rec is None:
            return await orig(*a, **kw)
        cfg = kw.get("step_config")
        rec.probe_calls += 1
        if not getattr(cfg, "resources", None):
            return await orig(*a, **kw)
        t = asyncio.current_task()
        rec.keep.append(t)
        w = {"task": t, "seq0": rec.tick(), "others_open": len(rec.open)}
        if rec.open:
            rec.overlaps += 1
        rec.open.append(w)
        rec.windows.append(w)
        from vf import c22_programs as _progs

        tok = _progs.INV.set(w)
        try:
            return await orig(*a, **kw)
        finally:
            _progs.INV.reset(tok)
            rec.open.remove(w)
            w["seq1"] = rec.tick()

    sf.partial = partial          # looked up as a module global by the step wrapper at call time
    _PROBE["state"] = state
    return state


# ------------------------------------------------------------------ one case
def run_case(case, acc: Acc):
    import asyncio

    from vf import c22_programs as progs
    from vf import vclock

    state = _install_probe()
    rec = progs.Recorder()
    rec.probe_calls = 0
    rec.overlaps = 0
    rec.open = []
    rec.windows = []
    state["rec"] = rec
    deps, reach, on_cycle, hits_cycle = analyse(case)
    nodes = {n["name"]: n for n in case["nodes"]}
    step_params = {s["name"]: list(s["params"]) for s in case["steps"]}
    used_steps = {case["steps"][w]["name"] for _, w in case["sends"]}
    expect_cycle = any(p in hits_cycle for s in used_steps for p in step_params[s])
    outcomes: list = []

    async def one_run(wf, idx, at):
        if at:
            await asyncio.sleep(at)
        try:
            res = await wf.run(run=idx)
            outcomes.append([idx, "ok", res, vclock.vnow()])
        except asyncio.CancelledError:
            raise
        except BaseException as e:  # noqa: BLE001
            outcomes.append([idx, type(e).__name__, str(e), vclock.vnow()])

    async def main():
        W = progs.build(case, rec)
        wf = W(timeout=None)
        await asyncio.gather(*[one_run(wf, i, r["at"]) for i, r in enumerate(case["runs"])])

    try:
        r = vclock.run(main)
    finally:
        state["rec"] = None
    acc.hit("partial_probe_calls", rec.probe_calls)
    if rec.overlaps:
        acc.hit("overlapping_resolutions", rec.overlaps)
    if len(case["runs"]) > 1:
        acc.hit("second_run_on_same_instance")
    acc.hit("async_factory_calls", sum(1 for c in rec.calls if nodes[c["res"]]["async"]))
    viol: list = []
    if r.livelock:
        acc.inconclusive.append(f"livelock guard fired in case {h(case)}")
        return rec
    if r.quiescent:
        acc.inconclusive.append(f"case {h(case)} went quiescent with a run unfinished (not a C22 question)")
        return rec
    if r.done and not r.task.cancelled() and r.exception() is not None:
        viol.append(({"mech": "program_build_or_driver_raised", "exc": type(r.exception()).__name__},
                     f"building/running the program raised {r.exception()!r}"))

    # ---- attribution sanity: every factory call belongs to a task that has a resolution window
    win_tasks = {id(w["task"]) for w in rec.windows}
    if any(id(c["task"]) not in win_tasks for c in rec.calls):
        acc.inconclusive.append("factory call outside any step invocation's resolution window (attribution assumption broken)")
        return rec

    creator = {}
    for c in rec.calls:
        if c["obj"] is not None:
            creator[id(c["obj"])] = c
    task_step = {}
    for b in rec.bodies:
        task_step[id(b["task"])] = b["step"]

    # observations: (consumer task, node, obj, where)
    obs = []
    for b in rec.bodies:
        for p, o in b["params"].items():
            node = p[2:]
            obs.append((b["task"], node, o, f"parameter {p} of step {b['step']} (run {b['run']}, item {b['k']}, vt={b['vt']})"))
    for c in rec.calls:
        for p, o in c["deps"].items():
            obs.append((c["task"], p[2:], o, f"argument {p} of factory {c['res']} (called at vt={c['vt0']})"))
    for _t, node, o, where in obs:
        if nodes[node].get("none"):
            acc.hit("none_valued_resource_observed")
            if o is not None:
                viol.append(({"mech": "wrong_resource_injected"}, f"{where} received {o!r}, expected None (the product of {node})"))
            continue
        if not isinstance(o, progs.Obj) or o.res != node:
            viol.append(({"mech": "wrong_resource_injected"}, f"{where} received {o!r}, expected a {node}"))

    # ---- cached
    for name, n in nodes.items():
        calls = [c for c in rec.calls if c["res"] == name]
        seen = [(o, where) for _t, nd, o, where in obs if nd == name]
        if n["cache"]:
            if calls or seen:
                acc.hit("cached_checked")
            made = [c for c in calls if c.get("done")]      # a call cancelled before it returned created nothing
            if len(made) > 1:
                viol.append(({"mech": "cached_resource_created_more_than_once"},
                             f"cached resource {name}: factory ran to completion {len(made)} times on one workflow instance "
                             f"(called at vt {[c['vt0'] for c in made]}, returned at vt {[c['vt1'] for c in made]})"))
            elif len(calls) > 1:
                acc.note("cached_factory_called_again_after_cancelled_call")
            ids = {id(o) for o, _ in seen}
            if len(ids) > 1:
                viol.append(({"mech": "cached_resource_identity_differs"},
                             f"cached resource {name}: {len(ids)} different objects injected: {[(repr(o), w) for o, w in seen][:4]}"))
        else:
            if seen:
                acc.hit("noncached_checked")
            for t, nd, o, where in obs:
                if nd != name or id(o) not in creator:
                    continue
                c = creator[id(o)]
                if c["task"] is not t:
                    # "concurrent": from the creation to the consumer's resolution some resolution scope was open all the time
                    # (the manager's shared depth never returned to 0, which is the known concurrency defect); False means the
                    # manager was completely idle in between and STILL handed out the old object
                    wt = next((w for w in rec.windows if w["task"] is t), None)
                    lo, hi = c["seq"], (wt["seq0"] if wt else c["seq"])
                    cover = lo
                    for w in sorted(rec.windows, key=lambda w: w["seq0"]):
                        if w["seq0"] <= cover and w.get("seq1", 1e18) > cover:
                            cover = w.get("seq1", 1e18)
                    conc = cover >= hi
                    viol.append(({"mech": "noncached_instance_shared_across_step_invocations", "concurrent": conc},
                                 f"non-cached resource {name}: object {o!r} created at vt={c['vt0']} for one step invocation "
                                 f"was injected into another invocation: {where}"))
            per_task = {}
            for c in calls:
                per_task.setdefault(id(c["task"]), []).append(c)
            for tid, cs in per_task.items():
                stp = task_step.get(tid)
                if stp is None:
                    continue          # invocation never reached its body (run failed first)
                tops = [p for p in step_params[stp] if p == name or name in reach[p]]
                if len(cs) > max(1, len(tops)):
                    viol.append(({"mech": "noncached_created_more_than_once_in_one_resolution"},
                                 f"non-cached resource {name}: created {len(cs)} times for one invocation of {stp} "
                                 f"whose parameters reach it through {len(tops)} top-level parameter(s)"))
                elif len(cs) > 1:
                    acc.note("noncached_not_shared_between_parameters_of_one_invocation")

    # ---- cycles / outcomes
    if expect_cycle:
        acc.hit("genuine_cycle_programs")
    for idx, kind, detail, vt in outcomes:
        circular = kind != "ok" and "ircular" in str(detail)
        if expect_cycle:
            if circular:
                acc.hit("genuine_cycle_reported")
            elif kind == "ok":
                viol.append(({"mech": "genuine_cycle_not_reported", "outcome": "run_succeeded"},
                             f"step parameters reach the genuine cycle {sorted(on_cycle)} but run {idx} succeeded"))
            else:
                viol.append(({"mech": "genuine_cycle_not_reported", "outcome": kind},
                             f"step parameters reach the genuine cycle {sorted(on_cycle)} but run {idx} failed with {kind}: {detail[:200]}"))
        else:
            acc.hit("acyclic_runs_checked")
            if circular:
                ov = [w for w in rec.windows if w["others_open"]]
                viol.append(({"mech": "false_cycle_error_on_concurrent_resolution", "overlapping_resolutions": bool(ov)},
                             f"acyclic resource graph {deps} but run {idx} failed at vt={vt} with: {detail[:300]} "
                             f"({rec.overlaps} step invocation(s) started resolving while another invocation's resolution was "
                             f"still awaiting a factory; steps {step_params}, workers {[s['workers'] for s in case['steps']]})"
                             + ("" if ov else " [no overlapping resolution observed]")))
            elif kind != "ok" and "factory boom" in str(detail):
                acc.hit("run_failed_by_injected_factory_error")
            elif kind != "ok":
                viol.append(({"mech": "run_failed_unexpectedly", "exc": kind}, f"run {idx} failed with {kind}: {detail[:300]}"))
    seen_sig = set()
    for sig, what in viol:
        k = h(sig)
        if k in seen_sig:
            continue
        seen_sig.add(k)
        acc.violation(sig, what, case)
    return rec


def run_shard(shard):
    acc = Acc()
    rnd = random.Random(shard["seed"])
    for _ in range(shard["n"]):
        case = gen_case(rnd, shard.get("deep", False))
        acc.case()
        rec = run_case(case, acc)
        if rec.overlaps:
            acc.sig(h(case))
            if len(acc.samples) < 2:
                acc.sample(case)
    return acc.to_dict()


def replay(rp_file):
    acc = Acc()
    run_case(rp_file["case"], acc)
    return acc.to_dict()
