"""C08 — exhausted failures route to the owning error handler within budget (and validation on/off agree)."""
import json

from vf import engine_check
from vf.common import Acc

ID = "C08"
LEVEL = "exploration"
VCLOCK = True
TECHNIQUE = ("runtime monitoring: failure-routing / recovery-budget reference model evaluated over recorded handler entries (StepFailedEvent fields, "
             "lineage encoded in event ids), run outcome and WorkflowFailedEvent; differential run of the same program with disable_validation=True")
LEVEL_TEXT = ("Generated handler layouts (scoped, two scoped, wildcard, scoped+wildcard, none), budgets 1-3, lineages that re-enter the handler, "
              "handlers that raise, fan-out lineages under several workers; every run is executed twice (validation on / off) and both the model "
              "verdict and the observable routing facts of the two runs must agree.")
LEVEL_NOTE = "Trusted: virtual clock (identical schedules for the two runs), lineage encoding in the generated event payloads, instrumentation shim."
DESIGN_REF = "§5 C08"
RULE = "case = catch-family program x {validation on, off}; distinct = tick-order signature hash; non-trivial = >=1 step exhausted its retries"
REQUIRED_REACH = ["exhausted_failure", "route_to_handler_expected", "owner_scoped", "owner_wildcard", "lineage_reentered", "budget_exhausted_or_no_owner",
                  "handler_entry_eval", "handler_step_failed", "failed_run_eval", "validation_pair_eval"]
ASSUMPTIONS = ["retry exhaustion is read off the run itself (last attempt of a (step, event) raised); C05 decides whether the budget is right"]
FAMILIES = [("catch", 1)]


def plan(tier, seed):
    return engine_check.std_plan(tier, seed, quick_per=90, thorough_per=1200)


def _oracles():
    from vf import oracles

    return [oracles.c08]


def _nontrivial(tr):
    return any(b["how"].startswith("raise:") for b in tr.bodies())


def _pair(case, tr, acc):
    """Same program with disable_validation=True: identical observable routing."""
    from vf import engine_run, oracles

    spec2 = json.loads(json.dumps(case["spec"]))
    spec2["disable_validation"] = True
    tr2 = engine_run.run_case(spec2)
    acc.case()
    acc.hit("validation_pair_eval")
    if tr2.errors:
        acc.inconclusive.append(f"harness error (validation off) seed={case['seed']}: {tr2.errors[0][:300]}")
        return
    case2 = {"case": {**case, "spec": spec2}}
    oracles.c08(tr2, acc, case2)
    f1, f2 = oracles.c08_facts(tr), oracles.c08_facts(tr2)
    if f1 != f2:
        # ties between simultaneous failures may be broken differently (asyncio.wait returns a set): informational only;
        # the model above is the verdict for each of the two configurations
        acc.note("observable_routing_differs_between_validation_on_off")


def run_shard(shard):
    return engine_check.run_shard(shard, FAMILIES, _oracles(), _nontrivial, post=_pair)


def replay(rp):
    return engine_check.replay(rp, _oracles(), post=_pair)
