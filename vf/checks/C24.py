"""C24 — handler stores answer queries consistently and retain the newest completions.

Monitor shape: model-based differential monitoring.  A generated script of handler
upserts, `update_handler_status` calls, deletes (>= 1 filter) and queries over all
filter-presence combinations (including empty lists and `is_idle`) is executed on

  memory(max_completed=None) / sqlite / sqlite(single_connection)   -> one shared table model
  memory(max_completed=M), M in {0,1,2,3,5}                         -> table model + retention model

After every mutation the full table and a batch of filtered queries are compared
with a reference model written from the property statement.  Retention oracle (memory
store): all non-terminal handlers present; #terminal handlers == min(M, #terminal not
deleted); the retained terminal set is the newest under at least one of the two
readings of "most recently completed" (first completion of the current terminal period
/ last terminal update).  The model follows every *legitimate* eviction the store made,
so later operations are judged against what the store may rightfully hold.
"""
from __future__ import annotations

import os
import random
import shutil

from vf.common import Acc, h

ID = "C24"
LEVEL = "exploration"
TECHNIQUE = ("runtime monitoring: reference-model (handler table + filter semantics + retention) differential oracle over "
             "generated operation scripts on the real MemoryWorkflowStore / SqliteWorkflowStore")
LEVEL_TEXT = ("Randomised operation scripts (<= 40 ops, small id universes to force collisions, hostile strings, repeated terminal "
              "updates, every filter-presence combination) run on the real stores; an independent table model decides query, "
              "delete and retention results after every mutation. Right level: the property quantifies over operation "
              "sequences and filter combinations, which are sampled.")
LEVEL_NOTE = ("Trusted: CPython sqlite3/asyncio, pydantic, the model in this file. Postgres store not exercised (no asyncpg). "
              "Deletes without any filter are outside the statement and only reported as an informational counter.")
DESIGN_REF = "§5 C24"
RULE = ("case = one operation script run on 4 store configurations (memory uncapped, sqlite, sqlite single-connection, memory "
        "with max_completed in {0,1,2,3,5}); distinct = hash of (operation kinds and statuses, filter masks used, eviction "
        "decisions observed on the capped store, id pool); non-trivial = >= 3 effective mutations (upsert, status update that "
        "hit a handler, delete that removed >= 1 handler)")
REQUIRED_REACH = ["query_checked", "query_nonempty_checked", "empty_list_filter_checked", "is_idle_filter_checked",
                  "all_masks_checked", "delete_checked", "delete_nonempty_checked", "status_update_checked",
                  "stores_equal_checked", "sqlite_single_conn_checked", "retention_checked", "retention_eviction_checked",
                  "repeated_terminal_update_checked"]
ASSUMPTIONS = [
    "update_handler_status is only issued for run_ids owned by at most one handler (found[0] is otherwise unspecified)",
    "'most recently completed' accepted under either reading (first completion of the current terminal period / last terminal update)",
    "only the filterable fields (handler_id, workflow_name, status, run_id, idle flag) are compared strictly; other fields are informational",
]
VCLOCK = False
SHARD_TIMEOUT = {"quick": 300, "thorough": 1800}

TERMINAL = ("completed", "failed", "cancelled")
STATUSES = ("running", "completed", "failed", "cancelled")
ID_POOLS = [
    ["h0", "h1", "h2", "h3", "h4", "h5"],
    ["h0", "h1", "h2", "h3", "h4", "h5", "h6", "h7", "h8", "h9"],
    ["h1", "H1", "h1 ", "", "1", "01", "1.0", "a'b", 'a"b', "%", "_", "h\u00e9", "h\u2028x", "NULL", "a;--"],
]
WF_POOL = ["wfA", "wfB", "wf a", "", "WFA", "w'f"]
FILTERS = ["handler_id_in", "run_id_in", "workflow_name_in", "status_in", "is_idle"]


def plan(tier, seed):
    if tier == "quick":
        n, per = 16, 70
    else:
        n, per = 64, 1000
    return [{"seed": seed * 1000 + i, "n": per, "tier": tier} for i in range(n)]


# ------------------------------------------------------------------ generator
def _gen_query(rnd, ids, runs, mask=None, at_least_one=False):
    if mask is None:
        mask = [rnd.random() < 0.4 for _ in FILTERS]
        if at_least_one and not any(mask):
            mask[rnd.randrange(len(FILTERS))] = True
    q = {}

    def subset(pool, extra):
        r = rnd.random()
        if r < 0.12:
            return []
        k = rnd.randint(1, min(4, len(pool)))
        out = rnd.sample(pool, k)
        if rnd.random() < 0.2:
            out.append(extra)
        if rnd.random() < 0.1:
            out.append(out[0])  # duplicate value inside the IN list
        return out

    if mask[0]:
        q["handler_id_in"] = subset(ids, "nope")
    if mask[1]:
        q["run_id_in"] = subset(runs, "r-none")
    if mask[2]:
        q["workflow_name_in"] = subset(WF_POOL, "other")
    if mask[3]:
        q["status_in"] = subset(list(STATUSES), "completed")
    if mask[4]:
        q["is_idle"] = rnd.random() < 0.5
    return q


def gen_case(rnd: random.Random, tier: str) -> dict:
    ids = rnd.choice([ID_POOLS[0], ID_POOLS[0], ID_POOLS[1], ID_POOLS[2]])
    n_ops = rnd.randint(6, 25 if tier == "quick" else 40)
    runs = [f"r-{i}" for i in range(len(ids))] + ["r-x", ""]
    term_bias = rnd.choice([0.4, 0.6, 0.8])
    ops = []
    for _ in range(n_ops):
        r = rnd.random()
        if r < 0.45:
            hi = rnd.randrange(len(ids))
            run = runs[hi]
            rr = rnd.random()
            if rr < 0.08:
                run = None
            elif rr < 0.14:
                run = rnd.choice(runs)  # may be shared with another handler
            status = rnd.choice(TERMINAL) if rnd.random() < term_bias else "running"
            ops.append({"op": "upsert", "h": {
                "id": ids[hi], "wf": rnd.choice(WF_POOL[:3] if rnd.random() < 0.8 else WF_POOL), "status": status, "run": run,
                "idle": rnd.choice([None, None, 5, 90]), "error": rnd.choice([None, None, "boom"]),
                "result": rnd.choice([None, None, "res"]), "started": rnd.choice([None, 0, 7])}})
        elif r < 0.72:
            status = rnd.choice(TERMINAL) if rnd.random() < term_bias else rnd.choice(["running", None])
            ops.append({"op": "status", "run": rnd.choice(runs), "status": status,
                        "error": rnd.choice([None, None, "err2"]), "result": rnd.choice([None, None, "r2"]),
                        "idle": rnd.choice(["unset", "unset", None, 30])})
        elif r < 0.84:
            ops.append({"op": "delete", "q": _gen_query(rnd, ids, runs, at_least_one=True)})
        else:
            ops.append({"op": "query", "q": _gen_query(rnd, ids, runs)})
    # systematic sweep of all 32 filter-presence masks at the end
    sweep_seed = rnd.randrange(1 << 30)
    return {"ids": ids, "runs": runs, "ops": ops, "max_completed": rnd.choice([0, 1, 1, 2, 2, 3, 5]),
            "sweep_seed": sweep_seed, "q_seed": rnd.randrange(1 << 30), "final_unfiltered_delete": rnd.random() < 0.1}


# ------------------------------------------------------------------ reference model (from the statement)
def m_matches(rec: dict, q: dict) -> bool:
    for f, key in (("handler_id_in", "id"), ("run_id_in", "run"), ("workflow_name_in", "wf"), ("status_in", "status")):
        if f in q:
            if len(q[f]) == 0:
                return False  # an empty filter list matches nothing
            if rec[key] not in q[f]:
                return False
    if "is_idle" in q:
        if q["is_idle"] != (rec["idle"] is not None):
            return False
    return True


class Model:
    """The handler table a correct store holds (follows legitimate evictions of the observed store)."""

    def __init__(self, max_completed):
        self.t: dict[str, dict] = {}
        self.max = max_completed
        self.clock = 0
        self.done_updates: dict[str, int] = {}  # terminal updates ever issued per handler id (diagnosis only)
        self.terminal_deleted = False  # a terminal handler was removed by delete() (diagnosis only)
        self.terminal_demoted = False  # a terminal handler was upserted back to non-terminal (diagnosis only)

    def _stamp(self, rec_old, rec_new):
        self.clock += 1
        if rec_new["status"] in TERMINAL:
            self.done_updates[rec_new["id"]] = self.done_updates.get(rec_new["id"], 0) + 1
            was_term = rec_old is not None and rec_old["status"] in TERMINAL
            rec_new["first_done"] = rec_old["first_done"] if was_term else self.clock
            rec_new["last_done"] = self.clock
        else:
            if rec_old is not None and rec_old["status"] in TERMINAL:
                self.terminal_demoted = True
            rec_new["first_done"] = rec_new["last_done"] = None

    def upsert(self, hspec):
        rec = {"id": hspec["id"], "wf": hspec["wf"], "status": hspec["status"], "run": hspec["run"], "idle": hspec["idle"],
               "error": hspec["error"], "result": hspec["result"]}
        self._stamp(self.t.get(rec["id"]), rec)
        self.t[rec["id"]] = rec

    def status_target(self, run):
        return [r for r in self.t.values() if r["run"] == run]

    def status(self, op):
        tg = self.status_target(op["run"])
        if not tg:
            return None
        old = tg[0]
        rec = dict(old)
        if op["status"] is not None:
            rec["status"] = op["status"]
        if op["result"] is not None:
            rec["result"] = op["result"]
        if op["error"] is not None:
            rec["error"] = op["error"]
        if op["idle"] != "unset":
            rec["idle"] = op["idle"]
        self._stamp(old, rec)
        self.t[rec["id"]] = rec
        return rec["id"]

    def delete(self, q):
        if not q:
            return None
        victims = [i for i, r in self.t.items() if m_matches(r, q)]
        for i in victims:
            if self.t[i]["status"] in TERMINAL:
                self.terminal_deleted = True
            del self.t[i]
        return victims

    def query(self, q):
        return {i for i, r in self.t.items() if m_matches(r, q)}

    # retention: admissible terminal sets after a mutation
    def admissible_terminal_sets(self):
        term = [r for r in self.t.values() if r["status"] in TERMINAL]
        if self.max is None or len(term) <= self.max:
            return [{r["id"] for r in term}], len(term)
        keep = self.max
        a = {r["id"] for r in sorted(term, key=lambda r: r["first_done"], reverse=True)[:keep]}
        b = {r["id"] for r in sorted(term, key=lambda r: r["last_done"], reverse=True)[:keep]}
        return [a, b], keep


# ------------------------------------------------------------------ store drivers
def _dt(minutes):
    from datetime import datetime, timedelta, timezone

    if minutes is None:
        return None
    return datetime(2026, 1, 1, tzinfo=timezone.utc) + timedelta(minutes=minutes)


def _mk_handler(hspec):
    from llama_agents.server._store.abstract_workflow_store import PersistentHandler
    from workflows.events import StopEvent

    return PersistentHandler(
        handler_id=hspec["id"], workflow_name=hspec["wf"], status=hspec["status"], run_id=hspec["run"],
        error=hspec["error"], result=StopEvent(result=hspec["result"]) if hspec["result"] is not None else None,
        started_at=_dt(hspec["started"]), updated_at=_dt(hspec["started"]),
        completed_at=_dt(1) if hspec["status"] in TERMINAL else None, idle_since=_dt(hspec["idle"]))


def _mk_query(q):
    from llama_agents.server._store.abstract_workflow_store import HandlerQuery

    return HandlerQuery(**{k: (list(v) if isinstance(v, list) else v) for k, v in q.items()})


def _row(hd):
    return (hd.handler_id, hd.workflow_name, hd.status, hd.run_id, hd.idle_since is not None)


def _extra(hd):
    try:
        res = hd.result.result if hd.result is not None else None
    except Exception:  # noqa: BLE001
        res = "?"
    return (hd.error, res, hd.idle_since.isoformat() if hd.idle_since else None)


def _mrow(rec):
    return (rec["id"], rec["wf"], rec["status"], rec["run"], rec["idle"] is not None)


def _mextra(rec):
    idle = _dt(rec["idle"])
    return (rec["error"], rec["result"], idle.isoformat() if idle else None)


def make_store(kind, tmp, max_completed):
    from llama_agents.server._store.memory_workflow_store import MemoryWorkflowStore
    from llama_agents.server._store.sqlite.sqlite_workflow_store import SqliteWorkflowStore

    if kind == "memory":
        return MemoryWorkflowStore(max_completed=None), lambda: None
    if kind == "memory_capped":
        return MemoryWorkflowStore(max_completed=max_completed), lambda: None
    import sqlite3

    path = os.path.join(tmp, f"{kind}.db")
    for suffix in ("", "-wal", "-shm", "-journal"):
        try:
            os.unlink(path + suffix)
        except FileNotFoundError:
            pass
    if kind == "sqlite":
        s = SqliteWorkflowStore(path)
        k = sqlite3.connect(path, timeout=30.0)  # harness-side keeper connection: avoids WAL teardown per op (speed only)
        k.execute("SELECT count(*) FROM sqlite_master").fetchall()
        return s, k.close
    s = SqliteWorkflowStore(path, single_connection=True)
    return s, s._persistent_conn.close


KINDS = ["memory", "sqlite", "sqlite_single", "memory_capped"]


async def run_on_store(case, kind, store, acc: Acc, viols: list, trace: list):
    """Execute the script on one store, judging every step against the model.  Returns per-step table snapshots."""
    capped = kind == "memory_capped"
    model = Model(case["max_completed"] if capped else None)
    qrnd = random.Random(case["q_seed"])
    snaps = []
    mutations = 0
    stopped = False

    def emit(sig, what):
        viols.append(({**sig, "backend": kind}, f"[{kind}] {what}"))

    async def check_query(q, tag):
        got = await store.query(_mk_query(q))
        rows = [_row(x) for x in got]
        exp_ids = model.query(q)
        exp_rows = sorted(_mrow(model.t[i]) for i in exp_ids)
        acc.hit("query_checked")
        if exp_ids:
            acc.hit("query_nonempty_checked")
        if any(isinstance(v, list) and len(v) == 0 for v in q.values()):
            acc.hit("empty_list_filter_checked")
        if "is_idle" in q:
            acc.hit("is_idle_filter_checked")
        if len(rows) != len(set(r[0] for r in rows)):
            emit({"mech": "query_returned_duplicates"}, f"query {q} returned a handler twice: {sorted(rows)}")
            return False
        if sorted(rows) != exp_rows:
            got_ids = {r[0] for r in rows}
            kind_ = "missing" if exp_ids - got_ids and not got_ids - exp_ids else (
                "extra" if got_ids - exp_ids and not exp_ids - got_ids else "wrong_rows")
            emit({"mech": "query_result_mismatch", "kind": kind_,
                  "empty_list": any(isinstance(v, list) and len(v) == 0 for v in q.values())},
                 f"{tag} query {q}: got {sorted(rows)} expected {exp_rows}")
            return False
        ex = sorted((x.handler_id,) + _extra(x) for x in got)
        if ex != sorted((i,) + _mextra(model.t[i]) for i in exp_ids):
            acc.note("non_filter_fields_differ")
        return True

    async def check_table(tag, retention_point):
        nonlocal stopped
        got = await store.query(_mk_query({}))
        rows = {_row(x)[0]: _row(x) for x in got}
        if capped and retention_point:  # a delete never evicts: after it only the plain table comparison applies
            acc.hit("retention_checked")
            adm, keep = model.admissible_terminal_sets()
            nonterm = {i for i, r in model.t.items() if r["status"] not in TERMINAL}
            all_term = {i for i, r in model.t.items() if r["status"] in TERMINAL}
            got_term = {i for i in rows if i in all_term}
            if len(all_term) > keep:
                acc.hit("retention_eviction_checked")
            if any(model.done_updates.get(i, 0) >= 2 for i in all_term):
                acc.hit("repeated_terminal_update_checked")
            missing_nt = nonterm - set(rows)
            ghosts = set(rows) - set(model.t)
            if missing_nt:
                emit({"mech": "nonterminal_handler_evicted"}, f"{tag}: non-terminal handlers {sorted(missing_nt)} missing")
                stopped = True
                return
            if ghosts:
                emit({"mech": "unknown_handler_present"}, f"{tag}: handlers {sorted(ghosts)} present but never stored/deleted")
                stopped = True
                return
            if len(got_term) < keep:
                # diagnosis only: was any handler id ever given more than one terminal update in this script?
                trig = ("after_repeated_terminal_update" if any(c >= 2 for c in model.done_updates.values())
                        else "after_delete_of_terminal_handler" if model.terminal_deleted
                        else "after_terminal_handler_became_nonterminal" if model.terminal_demoted else "other")
                emit({"mech": "evicted_below_max_completed", "trigger": trig},
                     f"{tag}: max_completed={model.max}, terminal handlers not deleted={sorted(all_term)}, "
                     f"store keeps only {sorted(got_term)} (evicted {sorted(all_term - got_term)}; terminal-update counts "
                     f"{ {v: model.done_updates.get(v, 0) for v in sorted(all_term)} })")
                stopped = True
                return
            if len(got_term) > keep:
                emit({"mech": "retained_above_max_completed"},
                     f"{tag}: max_completed={model.max} but {len(got_term)} terminal handlers kept: {sorted(got_term)}")
                stopped = True
                return
            if got_term not in adm:
                emit({"mech": "retained_set_not_newest"},
                     f"{tag}: kept {sorted(got_term)}; newest by first completion {sorted(adm[0])}, by last terminal update {sorted(adm[-1])}")
                stopped = True
                return
            if len(adm) > 1 and adm[0] != adm[1]:
                acc.note("retention_readings_differ")
                acc.note("retention_matches_first_completion" if got_term == adm[0] else "retention_matches_last_update")
            # follow the store's legitimate eviction
            evicted = all_term - got_term
            for i in evicted:
                del model.t[i]
            trace.append(["E", sorted(evicted)] if evicted else ["k"])
        exp = {i: _mrow(r) for i, r in model.t.items()}
        if rows != exp:
            emit({"mech": "table_content_mismatch"},
                 f"{tag}: table {sorted(rows.values())} expected {sorted(exp.values())}")
            stopped = True
            return
        snaps.append(sorted(rows.values()))

    for n, op in enumerate(case["ops"]):
        if stopped:
            break
        tag = f"after op#{n} {op['op']}"
        if op["op"] == "upsert":
            await store.update(_mk_handler(op["h"]))
            model.upsert(op["h"])
            mutations += 1
            await check_table(tag, True)
        elif op["op"] == "status":
            tg = model.status_target(op["run"])
            if len(tg) > 1:
                acc.note("status_update_skipped_shared_run_id")
                continue
            from workflows.events import StopEvent

            kw = {}
            if op["idle"] != "unset":
                kw["idle_since"] = _dt(op["idle"])
            await store.update_handler_status(op["run"], status=op["status"], error=op["error"],
                                              result=StopEvent(result=op["result"]) if op["result"] is not None else None, **kw)
            hit = model.status(op)
            acc.hit("status_update_checked")
            if hit is not None:
                mutations += 1
            await check_table(tag, True)
        elif op["op"] == "delete":
            ret = await store.delete(_mk_query(op["q"]))
            victims = model.delete(op["q"])
            acc.hit("delete_checked")
            if victims:
                acc.hit("delete_nonempty_checked")
                mutations += 1
            if ret != len(victims):
                acc.note("delete_return_count_differs")
            before = len(viols)
            await check_table(tag, False)
            if len(viols) > before and viols[-1][0]["mech"] == "table_content_mismatch":
                viols[-1] = ({"mech": "delete_removed_wrong_set", "backend": kind,
                              "empty_list": any(isinstance(v, list) and len(v) == 0 for v in op["q"].values())},
                             viols[-1][1].replace("table", f"delete({op['q']}) left table", 1))
        else:
            await check_query(op["q"], tag)
        if stopped:
            break
        if op["op"] != "query":
            for _ in range(3):
                await check_query(_gen_query(qrnd, case["ids"], case["runs"]), tag)
    if not stopped:
        srnd = random.Random(case["sweep_seed"])
        okall = True
        for m in range(32):
            mask = [(m >> b) & 1 == 1 for b in range(5)]
            okall = await check_query(_gen_query(srnd, case["ids"], case["runs"], mask=mask), f"final sweep mask={m}") and okall
        acc.hit("all_masks_checked")
        if case.get("final_unfiltered_delete"):
            # outside the statement ("a delete with at least one filter"): informational only
            n0 = len(await store.query(_mk_query({})))
            ret = await store.delete(_mk_query({}))
            n1 = len(await store.query(_mk_query({})))
            acc.note(f"unfiltered_delete_{'removed_all' if n1 == 0 and n0 > 0 else 'removed_nothing' if n1 == n0 else 'partial'}_{kind}")
    return snaps, mutations, stopped


def check_case(case: dict, acc: Acc, tmp: str, loop) -> None:
    viols: list = []
    results = {}
    trace: list = []
    for kind in KINDS:
        store, closer = make_store(kind, tmp, case["max_completed"])
        try:
            try:
                results[kind] = loop.run_until_complete(run_on_store(case, kind, store, acc, viols, trace))
            except Exception as e:  # noqa: BLE001
                viols.append(({"mech": "store_operation_raised", "backend": kind, "exc": type(e).__name__},
                              f"[{kind}] script raised {type(e).__name__}: {e}"))
                results[kind] = None
        finally:
            closer()
        if kind == "sqlite_single":
            acc.hit("sqlite_single_conn_checked")
    # identical behaviour of the uncapped memory store and the SQLite stores (direct comparison, safety net)
    ref = results.get("memory")
    for kind in ("sqlite", "sqlite_single"):
        r = results.get(kind)
        if ref is None or r is None:
            continue
        acc.hit("stores_equal_checked")
        if ref[0] != r[0] and not viols:
            viols.append(({"mech": "stores_differ", "backend": kind}, f"memory vs {kind}: table histories differ"))
    for sig, what in viols:
        acc.violation(sig, what, case)
    if ref is not None and ref[1] >= 3:
        kinds = [o["op"] for o in case["ops"]]
        masks = sorted({tuple(sorted(o["q"])) for o in case["ops"] if "q" in o})
        acc.sig(h([kinds, masks, trace, case["ids"][:3], [o.get("h", {}).get("status") or o.get("status") for o in case["ops"]]]))


def run_shard(shard):
    import asyncio

    from vf import boot

    acc = Acc()
    rnd = random.Random(shard["seed"])
    tmp = boot.scratch_dir()
    loop = asyncio.new_event_loop()
    try:
        for i in range(shard["n"]):
            case = gen_case(rnd, shard["tier"])
            acc.case()
            if i < 1:
                acc.sample({"max_completed": case["max_completed"], "ids": case["ids"][:4], "ops": case["ops"][:6]})
            check_case(case, acc, tmp, loop)
    finally:
        loop.close()
        shutil.rmtree(tmp, ignore_errors=True)
    return acc.to_dict()


def replay(rp_file):
    import asyncio

    from vf import boot

    acc = Acc()
    tmp = boot.scratch_dir()
    loop = asyncio.new_event_loop()
    try:
        check_case(rp_file["case"], acc, tmp, loop)
    finally:
        loop.close()
        shutil.rmtree(tmp, ignore_errors=True)
    return acc.to_dict()
