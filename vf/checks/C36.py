"""C36 — idle runs are released after the idle timeout and reloaded on demand (in-process server stack)."""
import random

from vf.common import Acc, h

ID = "C36"
LEVEL = "exploration"
VCLOCK = True
TECHNIQUE = ("runtime monitoring on the real in-process server stack under a virtual clock: probes count live control loops per run and snapshot the runner "
             "at every release; handler record / liveness sampled at exact virtual instants just before and after idle_timeout; sends before and after the release")
LEVEL_TEXT = ("HITL programs (1-3 concurrent waits) x idle_timeout grid x send schedules (none before release, one shortly before release, all after "
              "release) x both stores; exact virtual instants make 'released after idle_timeout, not before' a comparison of numbers; the reloaded run must "
              "finish with the uninterrupted result.")
LEVEL_NOTE = ("Both server stacks: in-process (IdleReleaseDecorator + PersistenceDecorator + ServerRuntimeDecorator over BasicRuntime, SQLite and memory stores) and "
              "the DBOS chain with the engine substituted (real DBOSIdleReleaseDecorator / EventInterceptorDecorator / TickPersistenceDecorator / "
              "SqliteRunLifecycleLock over a BasicRuntime; the DBOS name used by idle_release is bound to a 2-method stand-in), single replica. "
              "The real DBOS engine (recovery, message durability, cross-replica) cannot run here: the dbos package is absent.")
DESIGN_REF = "§5 C36"
RULE = "case = (program, idle_timeout, send schedule, store); distinct = hash of the scenario; non-trivial = a release happened and a later send reloaded the run"
REQUIRED_REACH = ["scenario", "released_checked", "not_released_early_checked", "send_before_release_kept_in_memory", "reload_after_release", "finished_after_reload",
                  "store_sqlite", "store_memory", "slow_store", "stack_inproc", "stack_dbos_sub", "idle_after_a_delayed_retry", "released_with_a_long_tick_history"]
ASSUMPTIONS = ["DBOS half decided on the substitute-engine stack only (see level_note)"]


def plan(tier, seed):
    n = 16 if tier == "quick" else 32
    per = 12 if tier == "quick" else 150
    return [{"seed": seed * 1_000_000 + i * 10_000, "n": per} for i in range(n)]


def gen_case(seed):
    from vf import idle_cases as ic

    rnd = random.Random(seed)
    if rnd.random() < 0.3:
        # a step fails once and is retried after a delay while everything else already waits for the human: the run is busy only
        # through the pending retry; once that is done it is idle like any other run
        spec, keys = ic.gen_program(rnd, retry_delay=rnd.choice([0.3, 0.6, 1.5]))
        for it in spec["steps"][0]["acts"][0]["items"]:
            it["lat"] = [0]
    elif rnd.random() < 0.25:
        # a run with a long history (> 100 persisted ticks) before it goes idle
        spec, keys = ic.gen_program(rnd, warmup=rnd.choice([40, 70]))
    else:
        spec, keys = ic.gen_program(rnd)
    spec["sched_seed"] = seed
    return {"seed": seed, "spec": spec, "keys": keys, "I": rnd.choice([0.5, 1, 2, 5]), "mode": rnd.choice(["after", "after", "before_one", "before_one"]),
            "gap": rnd.choice([0.25, 1, 3]), "store": rnd.choice(["sqlite", "memory"]), "delta": rnd.choice([0.1, 0.25]),
            "store_latency": rnd.choice([None, None, 0.01, 0.04]), "stack": rnd.choice(["inproc", "inproc", "dbos_sub"])}


def run_one(case, acc):
    from vf import idle_cases as ic

    wit = {"case": case}
    stack = case.get("stack", "inproc")

    def V(sig, what, w):
        acc.violation({**sig, "stack": stack} if stack != "inproc" else sig, (f"[{stack} stack] " if stack != "inproc" else "") + what, w)

    t_idle = ic.idle_instant(case["spec"], case.get("store_latency"), case.get("stack", "inproc"))
    if t_idle is None:
        ref = dict(ic.LAST_REFERENCE)
        if ref.get("never_announced"):
            V({"mech": "idle_run_never_announced_idle", "after_delayed_retry": case["spec"]["meta"].get("retry_delay") is not None},
              f"reference run (no input for 60 virtual s): every wait registered and nothing executing or scheduled since vt={ref['quiet_since']}, but no WorkflowIdleEvent "
              f"was published from then on (earlier announcements at {ref['announcements']}): the run can never be released", wit)
            return
        acc.inconclusive.append(f"reference run never became idle seed={case['seed']}")
        return
    I, keys = case["I"], case["keys"]
    sends, probes = [], []
    if case["mode"] == "after":
        t_rel = t_idle + I
        probes = [t_rel - case["delta"], t_rel + 0.5]
        for i, k in enumerate(keys):
            sends.append({"at": t_rel + 0.5 + case["gap"] + 0.125 * i, "pay": {"key": k}})
    else:
        t_first = t_idle + I - case["delta"]
        sends.append({"at": t_first, "pay": {"key": keys[0]}})
        probes = [t_first + 0.05]
        # the run is busy again for a moment; afterwards it idles again and must be released I later; then the rest arrives
        t_late = t_first + 3.0 + I + 1.0
        probes.append(t_late - 0.25)
        for i, k in enumerate(keys[1:]):
            sends.append({"at": t_late + 0.125 * i, "pay": {"key": k}})
    scn = {"spec": case["spec"], "idle_timeout": I, "sends": sends, "probes": probes, "store": case["store"], "end": 200.0,
           "store_latency": case.get("store_latency"), "stack": case.get("stack", "inproc")}
    if case.get("store_latency"):
        acc.hit("slow_store")
    acc.hit("stack_" + case.get("stack", "inproc"))
    if case["spec"]["meta"].get("retry_delay") is not None:
        acc.hit("idle_after_a_delayed_retry")
    if any(s_["name"] == "warm" for s_ in case["spec"]["steps"]):
        acc.hit("released_with_a_long_tick_history")
    wit["stack"] = case.get("stack", "inproc")
    obs, cs = ic.run_scenario(scn)
    acc.case()
    acc.hit("scenario")
    acc.hit("store_" + case["store"])
    ph = obs["case_phases"][-1]
    if ph["exc"]:
        acc.inconclusive.append(f"scenario crashed seed={case['seed']}: {ph['exc'][:300]}")
        return
    samples = sorted(obs["handler_samples"], key=lambda s: s["t"])
    final = obs["phases"][-1]["h"]
    if obs["max_live"] > 1:
        acc.note("old_control_loop_still_unwinding_when_new_one_started")
    # two control loops EXECUTING the same run: an older loop processes a tick after a newer loop of that run has processed one
    seen_order, newest = [], {}
    for (rid_obj, run_id, tname, t) in cs.tr.extra.get("proc_log", []):
        if rid_obj not in seen_order:
            seen_order.append(rid_obj)
        cur = newest.get(run_id)
        if cur is None or seen_order.index(rid_obj) >= seen_order.index(cur):
            newest[run_id] = rid_obj
        else:
            V({"mech": "two_control_loops_executing_one_run"}, f"an older control loop of run {run_id} processed {tname} at vt={t} after a newer loop had taken over; loops: {obs['loop_log'][-6:]}", wit)
            break
    if case["mode"] == "after":
        before, after = samples[0], samples[1]
        acc.hit("not_released_early_checked")
        if before["live"] != 1:
            V({"mech": "released_before_idle_timeout"}, f"idle since vt={t_idle}, idle_timeout={I}: at vt={before['t']} no control loop is alive (handler {before['h']})", wit)
        acc.hit("released_checked")
        if after["live"] != 0:
            V({"mech": "idle_run_not_released"}, f"idle since vt={t_idle}, idle_timeout={I}: control loop still alive at vt={after['t']}", wit)
        elif not (after["h"] and after["h"]["idle"] and after["h"]["status"] == "running"):
            V({"mech": "released_handler_not_marked_idle"}, f"released run's handler record is {after['h']}", wit)
        if obs["releases"] and obs["loops_started"] >= 2:
            acc.hit("reload_after_release")
            acc.sig(h({"s": case["seed"], "I": I, "m": case["mode"], "st": case["store"]}))
    else:
        s0 = samples[0]
        if s0["h"] and s0["h"]["status"] == "completed":
            acc.note("early_answer_finished_the_run")
        elif s0["live"] == 1 and obs["loops_started"] == 1 or (s0["live"] == 1 and not [r for r in obs["releases"] if r["t"] <= s0["t"]]):
            acc.hit("send_before_release_kept_in_memory")
        else:
            V({"mech": "send_before_release_did_not_keep_run"}, f"send at {sends[0]['at']} (release due at {t_idle + I}): sample {s0}, releases {obs['releases'][:2]}", wit)
        if len(samples) > 1:
            acc.hit("released_checked")
            if samples[1]["live"] != 0 and len(keys) > 1:
                V({"mech": "idle_run_not_released", "after": "second_idle_period"}, f"run idle again after the early send but still alive at vt={samples[1]['t']}", wit)
        if obs["releases"] and obs["loops_started"] >= 2:
            acc.hit("reload_after_release")
            acc.sig(h({"s": case["seed"], "I": I, "m": case["mode"], "st": case["store"]}))
    bad_sends = [s for s in obs["sends"] if not s["ok"]]
    if bad_sends:
        V({"mech": "send_to_idle_run_failed"}, f"sending to the (released) run failed: {cs.tr.rec.of('send_error')[:2]}", wit)
    if final is None or final["status"] != "completed" or final["result"] != {"done": True, "in": "joined"} and final["result"] is None:
        V({"mech": "reloaded_run_did_not_finish", "status": final and final["status"]}, f"after all answers were sent the handler is {final}; releases={len(obs['releases'])} loops={obs['loops_started']}", wit)
    else:
        acc.hit("finished_after_reload")
    acc.sample({"seed": case["seed"], "idle_timeout": I, "mode": case["mode"], "store": case["store"], "t_idle": t_idle, "sends": sends,
                "samples": samples, "releases": [r["t"] for r in obs["releases"]], "loops": obs["loops_started"], "final": final})


def run_shard(shard):
    acc = Acc()
    for i in range(shard["n"]):
        run_one(gen_case(shard["seed"] + i), acc)
    return acc.to_dict()


def replay(rp):
    acc = Acc()
    run_one(rp["case"]["case"], acc)
    return acc.to_dict()
