"""C05 — retry budgets count attempts and elapsed time correctly."""
from vf import engine_check

ID = "C05"
LEVEL = "exploration"
VCLOCK = True
TECHNIQUE = ("runtime monitoring: independent retry-policy evaluator (any/all over the generated policy AST) fed with the observed virtual timestamps of "
             "every attempt, compared with the executions, retry_info() values and failure-event fields the real engine produced")
LEVEL_TEXT = ("Generated composed policies (retry/stop combinators, attempt and elapsed-time limits, legacy constructors) on a failing step; the virtual "
              "clock keeps wall and monotonic epochs apart (as real clocks are) so clock-mixing shows up as wrong elapsed times; exact numbers, no deadlines.")
LEVEL_NOTE = ("Trusted: virtual clock (time.time / time.monotonic patched before import, distinct epochs), the model evaluator. Runtime clock "
              "configuration covered here: BasicRuntime as shipped; the server decorator stack is exercised by C15's workload.")
DESIGN_REF = "§5 C05"
RULE = "case = retry-family program (policy AST, per-attempt latencies and exception types); distinct = hash of (policy, failure pattern); non-trivial = >=2 executions"
REQUIRED_REACH = ["retry_run", "retry_decision_eval", "stop_after_delay_eval", "non_retryable_eval", "retry_info_eval", "failure_report_eval", "queued_items_case", "family_syncfan"]
ASSUMPTIONS = ["stop_after_delay bounds are chosen away from ties with reachable elapsed sums", "wait strategies are wait_fixed here (C06 covers the others)"]
FAMILIES = [("retry", 6), ("syncfan", 1)]


def plan(tier, seed):
    return engine_check.std_plan(tier, seed, quick_per=150, thorough_per=2500)


def _oracles():
    from vf import oracles

    return [oracles.c05]


def _nontrivial(tr):
    bodies = [b for b in tr.bodies() if b["step"] == "work"]
    if len(bodies) < 2:
        return False
    return {"policy": tr.spec["meta"]["policy"], "pattern": [(b["t0"], b["t1"], b["how"]) for b in bodies]}


def _sample(case, tr):
    return {"policy": case["spec"]["meta"]["policy"], "n_fail": case["spec"]["meta"]["n_fail"],
            "attempts": [(b["att"], b["t0"], b["t1"], b["how"]) for b in tr.bodies() if b["step"] == "work"], "outcome": tr.outcome}


def run_shard(shard):
    from vf.common import h
    from vf import oracles as _o

    return engine_check.run_shard(shard, FAMILIES, _oracles(), _nontrivial, sample=_sample)


def replay(rp):
    return engine_check.replay(rp, _oracles())
