"""C18 — events and ticks survive serialization unchanged (direct calls, no engine).

Monitor shape: round-trip oracle.  Events are generated from JSON specs over a fixed
universe of module-level classes (`vf.c18_events` + the repo's own event classes),
built with the real constructors, pushed through every serialization route the repo
uses and read back with the real readers:

  json            JsonSerializer.serialize -> deserialize
  json_container  the same with the event nested in a dict/list (context queues)
  env_meta_qn     EventEnvelopeWithMetadata.from_event -> model_dump_json -> model_validate_json -> load_event()
  env_meta_reg    ... include_qualified_name=False, load_event(registry)
  env_client      EventEnvelope.from_event -> model_dump -> JSON text -> EventEnvelope.parse(dict, registry)
  env_client_str  ... model_dump_json -> EventEnvelope.parse(str, registry)
  tick_persisted  WorkflowTickAdapter.dump_python(mode="json") -> JSON text -> validate_python  (what the stores do)
  tick_json       WorkflowTickAdapter.dump_json -> validate_json

Oracle (from the statement): same class, equal typed fields, equal dynamic fields
(`_data`), equal `.result`; exceptions carried in failure events / failed results keep
type and str().  Python `==` decides; exact-type equality (1 vs 1.0, -0.0) is only an
informational stricter reading.  Mechanism signatures keep "an exception was rebuilt from
its message" apart from plain event mismatches.
"""
from __future__ import annotations

import json
import random

from vf.common import Acc as _Acc
from vf.common import h


class Acc(_Acc):
    """Violation texts are made ASCII-safe (names / payloads contain arbitrary Unicode incl. lone surrogates)."""

    def violation(self, sig, what, case):
        super().violation(sig, what.encode("ascii", "backslashreplace").decode("ascii"), case)

ID = "C18"
LEVEL = "exploration"
TECHNIQUE = ("runtime monitoring: round-trip oracle over generated events/ticks/exceptions through every real serialization "
             "route (JsonSerializer, client envelopes, WorkflowTickAdapter python<->JSON), direct calls")
LEVEL_TEXT = ("Generated events over a fixed universe of module-level classes (typed fields incl. nested models, enums, "
              "datetimes, optionals, containers; StopEvent subclasses) x JSON-native dynamic fields/results with hostile keys "
              "and numeric/string boundary values x 8 routes, plus every tick kind and a catalogue of exceptions produced by "
              "real failing operations. Right level: serialization is a pure function of the value.")
LEVEL_NOTE = ("Trusted: pydantic, json, the comparison code in this file. Payload domain: JSON-native values (finite floats, "
              "str keys, no lone surrogates); classes importable as module.Name. The exception verdict covers module-level "
              "exception classes; nested classes are informational.")
DESIGN_REF = "\u00a75 C18"
RULE = ("case = (event|tick|exception spec, route); distinct = hash of (class, value-SHAPE of typed/dynamic/result payload "
        "[scalar kinds and boundary classes, container structure, key names], route); non-trivial = the event carries a "
        "non-empty dynamic dict, a non-None result, a nested model/event, or the tick carries results / an exception")
REQUIRED_REACH = ["event_roundtrip_eval", "typed_fields_eval", "dynamic_fields_eval", "stop_result_eval", "nested_model_eval",
                  "stop_subclass_eval", "route_json_eval", "route_envelope_eval", "route_tick_eval", "tick_kind_eval",
                  "tick_step_result_eval", "tick_add_waiter_eval", "exception_roundtrip_eval", "exception_in_tick_eval",
                  "nested_event_eval", "redefined_class_eval", "redefined_exception_class_eval", "envelope_reread_eval"]
ASSUMPTIONS = ["payloads are JSON-representable: None/bool/int/finite float/str/list/dict with str keys",
               "event classes are defined at module level (qualified name = module.ClassName)",
               "AddWaiter.requirements are dropped by design (has_requirements flag) and are not compared"]

ROUTES = ["json", "json_container", "env_meta_qn", "env_meta_reg", "env_client", "env_client_str", "tick_persisted", "tick_json"]
TICK_ROUTES = ["tick_persisted", "tick_json"]
EXC_CARRIERS = ["WorkflowFailedEvent", "StepFailedEvent", "StepWorkerFailed", "TickAddEvent.last_exception"]


def plan(tier, seed):
    n = 16 if tier == "quick" else 64
    per = 1200 if tier == "quick" else 12000
    return [{"seed": seed * 1000 + i, "n": per, "part": i} for i in range(n)]


# ----------------------------------------------------------------- value generators (JSON-native)
INTS = [0, 1, -1, 7, 255, 2 ** 31 - 1, 2 ** 31, -2 ** 31, 2 ** 53, 2 ** 53 + 1, 2 ** 63 - 1, 2 ** 63, -2 ** 63, -2 ** 63 - 1,
        2 ** 64, 2 ** 70, 10 ** 30, -10 ** 30]
FLOATS = [0.0, -0.0, 0.1, 1.0, -1.5, 2.5, 1e-7, 1e16, 1e22, 1e23, 1.7976931348623157e308, -1.7976931348623157e308, 5e-324,
          2.2250738585072014e-308, 123456789.12345679, 0.30000000000000004, 1 / 3, 100.0, 9007199254740993.0]
STRS = ["", "a", "hello world", "x" * 300, "\u00e9\u00e8 \u00fc\u00f1\u00ef", "\u4e2d\u6587", "\U0001f600 emoji", "\x00", "line\nbreak\r\n", "\t",
        "\u2028\u2029\u0085", '"quoted"', "back\\slash", "null", "true", "1", "1.0", "NaN", "2024-01-01T00:00:00Z", "__is_pydantic",
        "</script>", "\ufeffbom", "\x7f\x1b[0m", "a\u0301", "workflows.events.StopEvent", " lead/trail "]
KEYS = ["a", "x", "key", "k2", "", "a b", "\u00fcn\u00ef", "0", "result", "value", "type", "types", "qualified_name",
        "__is_pydantic", "__is_component", "step_name", "model_fields", "items", "keys", "get", "event", "exception",
        "data", "name", "params", "kwargs", "_private", "UPPER", "with.dot", "with-dash", "\U0001f600", "x" * 80]
LOOKALIKES = [
    {"__is_pydantic": True, "qualified_name": "workflows.events.StopEvent", "value": {}},
    {"__is_pydantic": True, "qualified_name": "vf.c18_events.Typed", "value": {"i": 1, "f": 1.0, "s": "s"}},
    {"__is_component": True, "qualified_name": "workflows.events.Event", "value": {}},
    {"value": {"_data": {"x": 1}}, "type": "StopEvent", "qualified_name": "workflows.events.StopEvent"},
    {"exception_type": "builtins.ValueError", "exception_message": "m"},
    {"_data": {"nested": 1}, "result": 2},
]
MESSAGES = ["", "boom", "k", "rate limit hit", "HTTP 503", "with 'single' quotes", 'with "double"', "multi\nline", "\u00fcn\u00ef \U0001f600",
            "a" * 200, "42", "(1, 2)", "[Errno 2] fake", "back\\slash", "percent %s {x}", "\x00nul"]


def gen_scalar(rnd):
    r = rnd.random()
    if r < 0.10:
        return None
    if r < 0.20:
        return rnd.random() < 0.5
    if r < 0.45:
        return rnd.choice(INTS) if rnd.random() < 0.6 else rnd.randint(-10 ** 6, 10 ** 6)
    if r < 0.70:
        if rnd.random() < 0.6:
            return rnd.choice(FLOATS)
        return rnd.uniform(-1, 1) * 10 ** rnd.randint(-300, 300)
    return rnd.choice(STRS)


def gen_json(rnd, depth=3):
    r = rnd.random()
    if depth <= 0 or r < 0.55:
        return gen_scalar(rnd)
    if r < 0.75:
        return [gen_json(rnd, depth - 1) for _ in range(rnd.randint(0, 4))]
    if r < 0.97:
        return {rnd.choice(KEYS): gen_json(rnd, depth - 1) for _ in range(rnd.randint(0, 4))}
    return json.loads(json.dumps(rnd.choice(LOOKALIKES)))


def gen_inner(rnd):
    return {"x": rnd.choice(INTS[:12]), "label": rnd.choice(STRS), "tags": [rnd.choice(STRS) for _ in range(rnd.randint(0, 3))]}


def gen_deep(rnd):
    return {"inner": gen_inner(rnd), "maybe": gen_inner(rnd) if rnd.random() < 0.5 else None,
            "many": [gen_inner(rnd) for _ in range(rnd.randint(0, 3))],
            "by_key": {rnd.choice(KEYS): gen_inner(rnd) for _ in range(rnd.randint(0, 3))}}


DATES = ["2024-05-06T07:08:09", "2024-05-06T07:08:09.123456", "2024-05-06T07:08:09.000001+00:00", "2024-05-06T07:08:09Z",
         "1970-01-01T00:00:00+02:00", "2038-01-19T03:14:08-11:30", "0001-01-01T00:00:00", "9999-12-31T23:59:59.999999+14:00",
         "2024-02-29T12:00:00.5-00:00"]


def gen_float_field(rnd):
    return rnd.choice(FLOATS) if rnd.random() < 0.7 else float(rnd.choice(INTS[:9]))


def typed_fields(rnd, cls):
    """JSON-mode field values; the real constructor validates them into python values."""
    if cls in ("Typed", "SubTyped"):
        f = {"i": rnd.choice(INTS), "f": gen_float_field(rnd), "s": rnd.choice(STRS)}
        if rnd.random() < 0.5:
            f["b"] = rnd.random() < 0.5
        if rnd.random() < 0.5:
            f["opt"] = rnd.choice(STRS + [None])
        if rnd.random() < 0.5:
            f["optd"] = rnd.choice(STRS + [None, None])
        if rnd.random() < 0.6:
            f["nums"] = [rnd.choice(INTS) for _ in range(rnd.randint(0, 4))]
        if rnd.random() < 0.6:
            f["mapping"] = {rnd.choice(KEYS): gen_float_field(rnd) for _ in range(rnd.randint(0, 3))}
        if cls == "SubTyped" and rnd.random() < 0.7:
            f["extra"] = [rnd.choice(STRS) for _ in range(rnd.randint(0, 3))]
        return f
    if cls == "Nested":
        f = {"inner": gen_inner(rnd)}
        if rnd.random() < 0.6:
            f["deep"] = gen_deep(rnd)
        if rnd.random() < 0.6:
            f["inners"] = [gen_inner(rnd) for _ in range(rnd.randint(0, 3))]
        return f
    if cls == "Rich":
        f = {}
        if rnd.random() < 0.7:
            f["color"] = rnd.choice(["red", "green", 3])
        if rnd.random() < 0.7:
            f["when"] = rnd.choice(DATES + [None])
        if rnd.random() < 0.5:
            f["mode"] = rnd.choice(["fast", "slow"])
        if rnd.random() < 0.5:
            f["pair"] = [rnd.choice(INTS[:9]), rnd.choice(STRS)]
        if rnd.random() < 0.7:
            f["anyv"] = gen_json(rnd, 2)
        if rnd.random() < 0.5:
            f["int_keys"] = {str(rnd.choice([0, 1, -5, 2 ** 40])): rnd.choice(STRS) for _ in range(rnd.randint(0, 3))}
        return f
    if cls == "MyStart":
        return {"topic": rnd.choice(STRS), **({"limit": rnd.choice(INTS)} if rnd.random() < 0.5 else {})}
    if cls == "MyStop":
        return {"answer": rnd.choice(STRS), **({"score": gen_float_field(rnd)} if rnd.random() < 0.6 else {})}
    if cls == "ModelStop":
        return {"payload": gen_inner(rnd), **({"notes": [rnd.choice(STRS)]} if rnd.random() < 0.5 else {})}
    if cls == "OverrideStop":
        return {"value": rnd.choice(INTS)}
    if cls == "MyInput":
        return {"prompt": rnd.choice(STRS)}
    if cls == "MyHuman":
        return {"response": rnd.choice(STRS)}
    if cls == "Carrier":
        return {"value": rnd.choice(STRS), "type": rnd.choice(["", "StopEvent", "Typed", "x"]),
                "qualified_name": rnd.choice(["", "workflows.events.StopEvent", "nope"])}
    if cls == "WorkflowTimedOutEvent":
        return {"timeout": gen_float_field(rnd), "active_steps": [rnd.choice(STRS) for _ in range(rnd.randint(0, 3))]}
    if cls == "UnhandledEvent":
        return {"event_type": rnd.choice(STRS), "qualified_name": rnd.choice(STRS), "step_name": rnd.choice(STRS + [None]),
                "idle": rnd.random() < 0.5}
    if cls == "StepStateChanged":
        return {"name": rnd.choice(STRS), "step_state": rnd.choice(["preparing", "running", "not_running"]),
                "worker_id": rnd.choice(["0", "1", "w"]), "input_event_name": rnd.choice(STRS),
                "output_event_name": rnd.choice(STRS + [None])}
    if cls == "WorkflowFailedEvent":
        return {"step_name": rnd.choice(STRS), "exception": {"$exc": {"maker": "ValueError", "m": "boom"}},
                "attempts": rnd.choice(INTS[:9]), "elapsed_seconds": gen_float_field(rnd)}
    if cls == "StepFailedEvent":
        return {"step_name": rnd.choice(STRS), "input_event": {"$ev": gen_event(rnd, allow_nested=False)},
                "exception": {"$exc": {"maker": "ValueError", "m": "boom"}}, "attempts": rnd.choice(INTS[:9]),
                "elapsed_seconds": gen_float_field(rnd), "failed_at": rnd.choice(DATES[2:6])}
    return {}


UNIVERSE = ["Plain", "Typed", "SubTyped", "Nested", "Rich", "MyStart", "MyStop", "ModelStop", "OverrideStop", "MyInput",
            "MyHuman", "Carrier"]
BUILTIN = ["Event", "StartEvent", "StopEvent", "InputRequiredEvent", "HumanResponseEvent", "WorkflowTimedOutEvent",
           "WorkflowCancelledEvent", "IdleReleasedEvent", "WorkflowIdleEvent", "UnhandledEvent", "StepStateChanged",
           "WorkflowFailedEvent", "StepFailedEvent"]
STOP_CLASSES = {"StopEvent", "MyStop", "ModelStop", "OverrideStop", "WorkflowTimedOutEvent", "WorkflowCancelledEvent",
                "IdleReleasedEvent", "WorkflowFailedEvent"}
CTOR_FORBIDDEN_KEYS = {"self", "_data", "_result"}


def gen_event(rnd, allow_nested=True, cls=None):
    if cls is None:
        r = rnd.random()
        if r < 0.62:
            cls = rnd.choice(UNIVERSE)
        elif r < 0.80:
            cls = rnd.choice(["Event", "StartEvent", "StopEvent", "StopEvent", "InputRequiredEvent", "HumanResponseEvent"])
        else:
            cls = rnd.choice(BUILTIN if allow_nested else BUILTIN[:-1])
    spec = {"cls": cls, "fields": typed_fields(rnd, cls), "data": {}, "setitem": {},
            # containers with a default_factory are not passed to the constructor but filled in place afterwards (ev.nums.append(...))
            "inplace": rnd.random() < 0.2}
    # dynamic fields
    nd = rnd.choice([0, 0, 1, 1, 2, 3, 5])
    for _ in range(nd):
        k = rnd.choice(KEYS)
        v = gen_json(rnd, 3)
        if k in spec["fields"] or k in FIELD_NAMES.get(cls, ()) or k in CTOR_FORBIDDEN_KEYS or (k == "result" and cls in STOP_CLASSES) \
                or rnd.random() < 0.15:
            spec["setitem"][k] = v  # ev[k] = v : lands in _data even when k names a typed field
        else:
            spec["data"][k] = v
    if cls in STOP_CLASSES and rnd.random() < 0.75:
        spec["has_result"] = True
        spec["result"] = gen_json(rnd, 3) if rnd.random() < 0.8 else rnd.choice([0, False, "", [], {}, 0.0, None])
    return spec


FIELD_NAMES = {
    "Typed": ("i", "f", "s", "b", "opt", "optd", "nums", "mapping"), "SubTyped": ("i", "f", "s", "b", "opt", "optd", "nums", "mapping", "extra"),
    "Nested": ("inner", "deep", "inners"), "Rich": ("color", "when", "mode", "pair", "anyv", "int_keys"),
    "MyStart": ("topic", "limit"), "MyStop": ("answer", "score"), "ModelStop": ("payload", "notes"), "OverrideStop": ("value",),
    "MyInput": ("prompt",), "MyHuman": ("response",), "Carrier": ("value", "type", "qualified_name"),
    "WorkflowTimedOutEvent": ("timeout", "active_steps"), "UnhandledEvent": ("event_type", "qualified_name", "step_name", "idle"),
    "StepStateChanged": ("name", "step_state", "worker_id", "input_event_name", "output_event_name"),
    "WorkflowFailedEvent": ("step_name", "exception", "attempts", "elapsed_seconds"),
    "StepFailedEvent": ("step_name", "input_event", "exception", "attempts", "elapsed_seconds", "failed_at"),
}


def gen_exc(rnd):
    return {"maker": rnd.choice(EXC_NAMES), "m": rnd.choice(MESSAGES)}


EXC_NAMES = ["ValueError", "RuntimeError", "Exception", "TypeError", "TimeoutError", "OneStr", "SubOneStr", "ValueError_noargs",
             "ValueError_int_arg", "ValueError_two_args", "int_parse", "zero_div", "index", "attr", "file_not_found", "os_error_2",
             "key_missing", "KeyError_ctor", "unicode_decode", "unicode_encode", "json_decode", "TwoArg", "KwOnly", "NoArg",
             "CustomStr", "NestedErr"]


def gen_result_item(rnd):
    t = rnd.choice(["result", "result", "failed", "add_collected", "delete_collected", "add_waiter", "add_waiter", "delete_waiter"])
    if t == "result":
        return {"type": t, "result": gen_event(rnd) if rnd.random() < 0.8 else None}
    if t == "failed":
        return {"type": t, "failed_at": rnd.choice(FLOATS[:12])}
    if t == "add_collected":
        return {"type": t, "event_id": rnd.choice(STRS), "event": gen_event(rnd)}
    if t == "delete_collected":
        return {"type": t, "event_id": rnd.choice(STRS)}
    if t == "add_waiter":
        return {"type": t, "waiter_id": rnd.choice(STRS), "waiter_event": gen_event(rnd) if rnd.random() < 0.7 else None,
                "requirements": {} if rnd.random() < 0.5 else {"k": gen_scalar(rnd)}, "timeout": rnd.choice([None, 0.5, 30, 1e9]),
                "event_type": rnd.choice(UNIVERSE + BUILTIN)}
    return {"type": t, "waiter_id": rnd.choice(STRS)}


def gen_tick(rnd):
    t = rnd.choice(["add_event", "add_event", "publish_event", "step_result", "step_result", "step_result", "cancel_run",
                    "idle_release", "timeout", "waiter_timeout", "idle_check"])
    if t == "add_event":
        retry = rnd.random() < 0.5
        return {"t": t, "event": gen_event(rnd), "step_name": rnd.choice(STRS + [None]),
                "attempts": rnd.choice([None, 0, 1, 5]) if retry else None,
                "first_attempt_at": rnd.choice(FLOATS[:12]) if retry else None,
                "last_exception": retry and rnd.random() < 0.7, "last_failed_at": rnd.choice(FLOATS[:12]) if retry else None,
                "recovery_counts": {rnd.choice(KEYS): rnd.choice([0, 1, 3]) for _ in range(rnd.randint(0, 2))}}
    if t == "publish_event":
        return {"t": t, "event": gen_event(rnd)}
    if t == "step_result":
        return {"t": t, "step_name": rnd.choice(STRS), "worker_id": rnd.choice([0, 1, 3, 2 ** 31]), "event": gen_event(rnd),
                "result": [gen_result_item(rnd) for _ in range(rnd.randint(0, 4))]}
    if t == "timeout":
        return {"t": t, "timeout": rnd.choice(FLOATS[:12])}
    if t == "waiter_timeout":
        return {"t": t, "step_name": rnd.choice(STRS), "waiter_id": rnd.choice(STRS)}
    return {"t": t}


# ----------------------------------------------------------------- shapes (distinctness)
def shape(v):
    if v is None:
        return "n"
    if isinstance(v, bool):
        return "b"
    if isinstance(v, int):
        a = abs(v)
        return "i" + ("3" if a >= 2 ** 63 else "2" if a > 2 ** 53 else "1" if a >= 2 ** 31 else "")
    if isinstance(v, float):
        if v == 0:
            return "f0" if str(v) == "0.0" else "f-0"
        a = abs(v)
        return "f" + ("S" if a < 2.3e-308 else "H" if a > 1e300 else "I" if v == int(v) else "")
    if isinstance(v, str):
        if v == "":
            return "s0"
        return "s" + ("c" if any(ord(c) < 32 or c in "\u2028\u2029\u0085\x7f" for c in v) else "") + ("" if v.isascii() else "u") + \
            ("L" if len(v) > 100 else "")
    if isinstance(v, list):
        return [shape(x) for x in v]
    if isinstance(v, dict):
        return {k: shape(x) for k, x in sorted(v.items())}
    return type(v).__name__


def ev_nontrivial(spec):
    return bool(spec["data"] or spec["setitem"] or spec.get("has_result") and spec.get("result") is not None
                or spec["cls"] in ("Nested", "ModelStop", "StepFailedEvent", "Rich"))


# ----------------------------------------------------------------- the real code under test
class Env:
    """Lazy bundle of repo objects (imported inside the worker only)."""

    def __init__(self):
        import workflows.events as we
        from llama_agents.client.protocol.serializable_events import EventEnvelope, EventEnvelopeWithMetadata
        from workflows.context.serializers import JsonSerializer
        from workflows.runtime.types import results as res
        from workflows.runtime.types import ticks as tk

        from vf import c18_events as ce

        self.we, self.ce, self.res, self.tk = we, ce, res, tk
        self.EventEnvelope, self.EventEnvelopeWithMetadata = EventEnvelope, EventEnvelopeWithMetadata
        self.ser = JsonSerializer()
        self.classes = dict(ce.EVENT_CLASSES)
        for n in BUILTIN:
            self.classes[n] = getattr(we, n)
        self.registry_list = list(self.classes.values())
        self.registry = {c.__name__: c for c in self.registry_list}
        self.adapter = tk.WorkflowTickAdapter

    # ---- builders
    def exc(self, spec):
        return self.ce.EXC_MAKERS[spec["maker"]](spec["m"])

    def resolve(self, v):
        if isinstance(v, dict) and len(v) == 1:
            if "$exc" in v:
                return self.exc(v["$exc"])
            if "$ev" in v:
                return self.event(v["$ev"])
        return v

    def event(self, spec):
        cls = self.classes[spec["cls"]]
        kw = {k: self.resolve(v) for k, v in spec["fields"].items()}
        kw.update(spec["data"])
        if spec.get("has_result"):
            kw["result"] = spec["result"]
        later = {}
        if spec.get("inplace"):
            for k in list(kw):
                f = getattr(cls, "model_fields", {}).get(k)
                elems = list(kw[k].values()) if isinstance(kw[k], dict) else (list(kw[k]) if isinstance(kw[k], list) else [])
                if f is not None and f.default_factory in (list, dict) and isinstance(kw[k], (list, dict)) and kw[k] \
                        and not any(isinstance(e, (dict, list)) or hasattr(e, "model_fields") for e in elems) \
                        and (isinstance(kw[k], list) or "dict[str" in str(f.annotation)):
                    # (elements that the constructor would validate into models are left to the constructor)
                    later[k] = kw.pop(k)
        ev = cls(**kw)
        for k, v in later.items():
            cur = getattr(ev, k)
            if isinstance(cur, list):
                cur.extend(v)
            else:
                cur.update(v)
        for k, v in spec["setitem"].items():
            ev[k] = v
        return ev

    def result_item(self, it, exc_spec=None):
        r, t = self.res, it["type"]
        if t == "result":
            return r.StepWorkerResult(result=self.event(it["result"]) if it["result"] else None)
        if t == "failed":
            return r.StepWorkerFailed(exception=self.exc(exc_spec or {"maker": "ValueError", "m": "boom"}), failed_at=it["failed_at"])
        if t == "add_collected":
            return r.AddCollectedEvent(event_id=it["event_id"], event=self.event(it["event"]))
        if t == "delete_collected":
            return r.DeleteCollectedEvent(event_id=it["event_id"])
        if t == "add_waiter":
            return r.AddWaiter(waiter_id=it["waiter_id"], waiter_event=self.event(it["waiter_event"]) if it["waiter_event"] else None,
                               requirements=it["requirements"], timeout=it["timeout"], event_type=self.classes[it["event_type"]])
        return r.DeleteWaiter(waiter_id=it["waiter_id"])

    def tick(self, spec, exc_spec=None):
        tk, t = self.tk, spec["t"]
        if t == "add_event":
            return tk.TickAddEvent(event=self.event(spec["event"]), step_name=spec["step_name"], attempts=spec["attempts"],
                                   first_attempt_at=spec["first_attempt_at"],
                                   last_exception=self.exc(exc_spec or {"maker": "ValueError", "m": "boom"}) if spec["last_exception"] else None,
                                   last_failed_at=spec["last_failed_at"], recovery_counts=spec["recovery_counts"])
        if t == "publish_event":
            return tk.TickPublishEvent(event=self.event(spec["event"]))
        if t == "step_result":
            return tk.TickStepResult(step_name=spec["step_name"], worker_id=spec["worker_id"], event=self.event(spec["event"]),
                                     result=[self.result_item(i, exc_spec) for i in spec["result"]])
        if t == "cancel_run":
            return tk.TickCancelRun()
        if t == "idle_release":
            return tk.TickIdleRelease()
        if t == "timeout":
            return tk.TickTimeout(timeout=spec["timeout"])
        if t == "waiter_timeout":
            return tk.TickWaiterTimeout(step_name=spec["step_name"], waiter_id=spec["waiter_id"])
        return tk.TickIdleCheck()

    # ---- routes: (dump, load) pairs so that the failing stage can be named
    def route(self, name):
        EE, EM, ser, ad, tk = self.EventEnvelope, self.EventEnvelopeWithMetadata, self.ser, self.adapter, self.tk
        if name == "json":
            return (lambda ev: ser.serialize(ev)), (lambda s: ser.deserialize(s))
        if name == "json_container":
            return (lambda ev: ser.serialize({"queue": [ev, 1], "n": None})), (lambda s: ser.deserialize(s)["queue"][0])
        if name == "env_meta_qn":
            return (lambda ev: EM.from_event(ev).model_dump_json()), (lambda s: EM.model_validate_json(s).load_event())
        if name == "env_meta_reg":
            return (lambda ev: EM.from_event(ev, include_qualified_name=False).model_dump_json()), \
                   (lambda s: EM.model_validate_json(s).load_event(registry=self.registry_list))
        if name == "env_client":
            return (lambda ev: json.dumps(EE.from_event(ev).model_dump())), (lambda s: EE.parse(json.loads(s), registry=self.registry))
        if name == "env_client_str":
            return (lambda ev: EE.from_event(ev).model_dump_json()), (lambda s: EE.parse(s, registry=self.registry))
        if name == "tick_persisted":
            return (lambda ev: json.dumps(ad.dump_python(tk.TickPublishEvent(event=ev), mode="json"))), \
                   (lambda s: ad.validate_python(json.loads(s)).event)
        if name == "tick_json":
            return (lambda ev: ad.dump_json(tk.TickPublishEvent(event=ev))), (lambda s: ad.validate_json(s).event)
        raise AssertionError(name)

    def tick_route(self, name):
        ad = self.adapter
        if name == "tick_persisted":
            return (lambda t: json.dumps(ad.dump_python(t, mode="json"))), (lambda s: ad.validate_python(json.loads(s)))
        return (lambda t: ad.dump_json(t)), (lambda s: ad.validate_json(s))


# ----------------------------------------------------------------- comparison
def strict_eq(a, b):
    """Exact-type deep equality (informational stricter reading)."""
    if type(a) is not type(b):
        return False
    if isinstance(a, float):
        return repr(a) == repr(b)
    if isinstance(a, (list, tuple)):
        return len(a) == len(b) and all(strict_eq(x, y) for x, y in zip(a, b))
    if isinstance(a, dict):
        return list(a.keys()) == list(b.keys()) and all(strict_eq(a[k], b[k]) for k in a)
    return a == b


def recon(exc):
    """can (qualified type, str(exc)) -- what the wire format carries -- rebuild an exception of this type with this message?
    False for the shapes of the recorded known finding (constructor rejects one string, str() not idempotent); True means the
    exception MUST survive, so a difference is a different defect"""
    try:
        r = type(exc)(str(exc))
    except Exception:  # noqa: BLE001
        return False
    return str(r) == str(exc)


def exc_diff(orig, got):
    """-> effect or None"""
    if not isinstance(got, BaseException):
        return "not_an_exception"
    if not isinstance(got, type(orig)):
        return "type_changed"
    if str(got) != str(orig):
        return "message_changed"
    return None


def event_diff(env, orig, got, acc, out, path="event"):
    """Append (aspect, detail) for every difference between an event and its round-tripped copy."""
    we = env.we
    if type(got) is not type(orig):
        out.append(("class", f"{path}: {type(orig).__name__} came back as {type(got).__name__}"))
        return
    acc.hit("typed_fields_eval")
    for name in type(orig).model_fields:
        a, b = getattr(orig, name), getattr(got, name)
        if isinstance(a, we.Event):
            acc.hit("nested_event_eval")
            event_diff(env, a, b, acc, out, f"{path}.{name}")
        elif isinstance(a, BaseException):
            eff = exc_diff(a, b)
            if eff:
                out.append(("carried_exception" if not recon(a) else "carried_exception_reconstructible", f"{path}.{name}: {a!r} came back as {b!r} ({eff})"))
        else:
            if hasattr(a, "model_fields") or isinstance(a, (list, dict)) and any(hasattr(x, "model_fields") for x in (a.values() if isinstance(a, dict) else a)):
                acc.hit("nested_model_eval")
            if a != b:
                out.append(("typed", f"{path}.{name}: {a!r} came back as {b!r}"))
            elif not strict_eq(a, b) and not hasattr(a, "model_fields"):
                acc.note("typed_field_equal_but_not_identical_type")
    acc.hit("dynamic_fields_eval")
    if orig._data != got._data:
        if isinstance(orig, we.StopEvent) and orig._data and not got._data:
            out.append(("stop_dynamic_dropped", f"{path}: {type(orig).__name__} dynamic fields {orig._data!r} came back as {got._data!r}"))
        else:
            out.append(("dynamic", f"{path}: dynamic fields {orig._data!r} came back as {got._data!r}"))
    elif not strict_eq(orig._data, got._data):
        acc.note("dynamic_fields_equal_but_not_identical_type_or_order")
    if isinstance(orig, we.StopEvent):
        acc.hit("stop_result_eval")
        if type(orig) is not we.StopEvent:
            acc.hit("stop_subclass_eval")
        if orig.result != got.result:
            out.append(("result", f"{path}: result {orig.result!r} came back as {got.result!r}"))
        elif not strict_eq(orig.result, got.result):
            acc.note("result_equal_but_not_identical_type")


def report_event(acc, diffs, route, case):
    for aspect, detail in diffs:
        if aspect == "stop_dynamic_dropped":
            sig = {"mech": "stopevent_dynamic_fields_dropped"}
        elif aspect in ("carried_exception", "carried_exception_reconstructible"):
            sig = {"mech": "exception_rebuilt_from_message", "effect": "in_event_case", "reconstructible": aspect.endswith("reconstructible")}
        else:
            sig = {"mech": "event_roundtrip_mismatch", "aspect": aspect}
        acc.violation(sig, f"[{route}] {detail}"[:600], case)


def route_hits(acc, route):
    acc.hit("route_json_eval" if route.startswith("json") else "route_envelope_eval" if route.startswith("env") else "route_tick_eval")


def check_event_case(env, case, acc):
    route = case["route"]
    try:
        orig = env.event(case["ev"])
    except Exception as x:  # noqa: BLE001 - constructor rejected the generated spec: not a serialization matter
        acc.note("constructor_rejected_spec:" + type(x).__name__)
        return
    dump, load = env.route(route)
    acc.hit("event_roundtrip_eval")
    route_hits(acc, route)
    try:
        wire = dump(orig)
    except Exception as x:  # noqa: BLE001
        acc.violation({"mech": "event_roundtrip_raises", "stage": "dump", "exc": type(x).__name__},
                      f"[{route}] serializing {type(orig).__name__} raised {type(x).__name__}: {str(x)[:300]}", case)
        return
    try:
        got = load(wire)
    except Exception as x:  # noqa: BLE001
        acc.violation({"mech": "event_roundtrip_raises", "stage": "load", "exc": type(x).__name__},
                      f"[{route}] reading back {type(orig).__name__} raised {type(x).__name__}: {str(x)[:300]}", case)
        return
    diffs = []
    event_diff(env, orig, got, acc, diffs)
    report_event(acc, diffs, route, case)


def _mutate_in_place(ev):
    """what a consumer may do with an event it was handed: change it in place (dynamic fields, containers, the result)"""
    n = 0
    try:
        for k, v in list(ev._data.items()):
            if isinstance(v, list):
                v.append("mutated")
                n += 1
            elif isinstance(v, dict):
                v["mutated"] = True
                n += 1
        ev["__touched"] = 1
        n += 1
    except Exception:  # noqa: BLE001
        pass
    try:
        r = getattr(ev, "result", None)
        if isinstance(r, list):
            r.append("mutated")
            n += 1
        elif isinstance(r, dict):
            r["mutated"] = True
            n += 1
    except Exception:  # noqa: BLE001
        pass
    for name in getattr(type(ev), "model_fields", {}):
        try:
            v = getattr(ev, name)
            if isinstance(v, list):
                v.append("mutated")
                n += 1
            elif isinstance(v, dict):
                v["mutated"] = True
                n += 1
        except Exception:  # noqa: BLE001
            pass
    return n


def check_envelope_reread(env, case, acc):
    """One envelope object, read twice: the first event handed out is changed in place by its consumer; the second read must still
    yield the event that was serialized (an envelope is a value, e.g. a stored event served to several subscribers)."""
    try:
        orig = env.event(case["ev"])
        pristine = env.event(case["ev"])
    except Exception:  # noqa: BLE001
        return
    EM = env.EventEnvelopeWithMetadata
    try:
        envelope = EM.model_validate_json(EM.from_event(orig).model_dump_json())
        first = envelope.load_event()
        if _mutate_in_place(first) == 0:
            return
        second = envelope.load_event()
    except Exception:  # noqa: BLE001  (the one-shot routes report round-trip failures)
        return
    acc.hit("envelope_reread_eval")
    diffs = []
    event_diff(env, pristine, second, acc, diffs)
    if diffs:
        acc.violation({"mech": "event_roundtrip_mismatch", "aspect": diffs[0][0], "second_read_after_consumer_mutation": True},
                      f"[env_meta_qn] {type(orig).__name__}: the first event loaded from an envelope was changed in place; loading the SAME envelope again gives {diffs[0][1]}"[:600],
                      {**case, "kind": "reread"})


def tick_events(env, t):
    """Yield (path, kind, value) for every event / exception / class position of a tick."""
    tk, r = env.tk, env.res
    if isinstance(t, (tk.TickAddEvent, tk.TickPublishEvent, tk.TickStepResult)):
        yield "event", "event", t.event
    if isinstance(t, tk.TickAddEvent):
        yield "last_exception", "exc", t.last_exception
    if isinstance(t, tk.TickStepResult):
        for i, it in enumerate(t.result):
            p = f"result[{i}]"
            yield p, "kind", type(it)
            if isinstance(it, r.StepWorkerResult):
                yield p + ".result", "event", it.result
            elif isinstance(it, r.StepWorkerFailed):
                yield p + ".exception", "exc", it.exception
            elif isinstance(it, r.AddCollectedEvent):
                yield p + ".event", "event", it.event
            elif isinstance(it, r.AddWaiter):
                yield p + ".waiter_event", "event", it.waiter_event
                yield p + ".event_type", "class", it.event_type


SCALARS = {"TickAddEvent": ["step_name", "attempts", "first_attempt_at", "last_failed_at", "recovery_counts"],
           "TickStepResult": ["step_name", "worker_id"], "TickTimeout": ["timeout"], "TickWaiterTimeout": ["step_name", "waiter_id"]}
ITEM_SCALARS = {"StepWorkerFailed": ["failed_at"], "AddCollectedEvent": ["event_id"], "DeleteCollectedEvent": ["event_id"],
                "AddWaiter": ["waiter_id", "timeout"], "DeleteWaiter": ["waiter_id"]}


def check_tick_case(env, case, acc, exc_spec=None):
    route = case["route"]
    try:
        orig = env.tick(case["tick"], exc_spec)
    except Exception as x:  # noqa: BLE001
        acc.note("constructor_rejected_spec:" + type(x).__name__)
        return
    dump, load = env.tick_route(route)
    acc.hit("tick_kind_eval")
    acc.hit("route_tick_eval")
    is_exc_case = exc_spec is not None

    def raised(stage, x):
        if is_exc_case and not _control_fails_too(lambda: env.tick(case["tick"], CONTROL_EXC), dump, load, stage, x):
            acc.violation({"mech": "exception_rebuilt_from_message", "effect": f"{stage}_raises", "exc": type(x).__name__, "reconstructible": recon(env.exc(exc_spec))},
                          f"[{route}] {case['carrier']} carrying {env.exc(exc_spec)!r}: {stage} raised {type(x).__name__}: {str(x)[:300]}", case)
        else:
            acc.violation({"mech": "tick_roundtrip_raises", "stage": stage, "exc": type(x).__name__},
                          f"[{route}] {type(orig).__name__}: {stage} raised {type(x).__name__}: {str(x)[:300]}", case)

    try:
        wire = dump(orig)
    except Exception as x:  # noqa: BLE001
        return raised("dump", x)
    try:
        got = load(wire)
    except Exception as x:  # noqa: BLE001
        return raised("load", x)
    if type(got) is not type(orig):
        bearing = any(True for _ in tick_events(env, orig))
        if bearing:
            acc.violation({"mech": "tick_kind_changed"}, f"[{route}] {type(orig).__name__} came back as {type(got).__name__}", case)
        else:
            acc.note("eventless_tick_kind_changed")
        return
    a_pos, b_pos = list(tick_events(env, orig)), list(tick_events(env, got))
    if [(p, k) for p, k, _ in a_pos] != [(p, k) for p, k, _ in b_pos]:
        acc.violation({"mech": "tick_result_list_changed"},
                      f"[{route}] step results {[p for p, _, _ in a_pos]} came back as {[p for p, _, _ in b_pos]}", case)
        return
    if isinstance(orig, env.tk.TickStepResult):
        acc.hit("tick_step_result_eval")
    for (p, kind, a), (_, _, b) in zip(a_pos, b_pos):
        if kind == "kind":
            if a is not b:
                acc.violation({"mech": "tick_result_list_changed"}, f"[{route}] {p}: {a.__name__} came back as {b.__name__}", case)
        elif kind == "class":
            acc.hit("tick_add_waiter_eval")
            if a is not b:
                acc.violation({"mech": "event_roundtrip_mismatch", "aspect": "event_type_class"},
                              f"[{route}] {p}: {a!r} came back as {b!r}", case)
        elif kind == "event":
            if a is None or b is None:
                if a is not b:
                    acc.violation({"mech": "event_roundtrip_mismatch", "aspect": "class"}, f"[{route}] {p}: {a!r} came back as {b!r}", case)
                continue
            acc.hit("event_roundtrip_eval")
            diffs = []
            event_diff(env, a, b, acc, diffs, p)
            report_event(acc, diffs, route, case)
        elif kind == "exc":
            if a is None and b is None:
                continue
            acc.hit("exception_in_tick_eval")
            eff = "lost" if b is None else exc_diff(a, b)
            if eff:
                if is_exc_case:
                    sig = {"mech": "exception_rebuilt_from_message", "effect": eff, "reconstructible": recon(a)}
                    if case["exc"]["maker"] in env.ce.EXC_NOT_MODULE_LEVEL:
                        acc.note("nested_class_exception_" + eff)
                        continue
                else:
                    sig = {"mech": "exception_rebuilt_from_message", "effect": "in_tick_case", "reconstructible": recon(a)}
                acc.violation(sig, f"[{route}] {p}: {a!r} (str {str(a)!r}) came back as {b!r} (str {str(b)!r})"[:600], case)
            elif type(a) is not type(b):
                acc.note("exception_subclass_instead_of_same_class")
    # informational: scalar tick fields (not demanded by the statement, which speaks of events and exceptions)
    for f in SCALARS.get(type(orig).__name__, []):
        if getattr(orig, f) != getattr(got, f):
            acc.note("tick_scalar_field_changed:" + f)
    if isinstance(orig, env.tk.TickStepResult):
        for x, y in zip(orig.result, got.result):
            for f in ITEM_SCALARS.get(type(x).__name__.split("[")[0], []):
                if getattr(x, f) != getattr(y, f):
                    acc.note("tick_result_scalar_field_changed:" + f)
            if type(x).__name__.startswith("AddWaiter") and bool(x.requirements) != y.has_requirements:
                acc.note("add_waiter_has_requirements_flag_wrong")


CONTROL_EXC = {"maker": "ValueError", "m": "boom"}


def _try(dump, load, orig):
    """-> (failing stage | None, exception | None, read-back value | None)"""
    try:
        wire = dump(orig)
    except Exception as x:  # noqa: BLE001
        return "dump", x, None
    try:
        return None, None, load(wire)
    except Exception as x:  # noqa: BLE001
        return "load", x, None


def _control_fails_too(build, dump, load, stage, x):
    """Differential attribution: does the same carrier+route fail the same way with a plain ValueError('boom')?
    If so the failure is not about how the carried exception is rebuilt."""
    try:
        cstage, cx, _ = _try(dump, load, build())
    except Exception:  # noqa: BLE001
        return True
    return cstage == stage and type(cx) is type(x)


def _carrier_event(env, carrier, exc):
    from datetime import datetime, timezone

    we = env.we
    if carrier == "WorkflowFailedEvent":
        return we.WorkflowFailedEvent(step_name="s", exception=exc, attempts=2, elapsed_seconds=0.5)
    return we.StepFailedEvent(step_name="s", input_event=env.ce.Plain(), exception=exc, attempts=2, elapsed_seconds=0.5,
                              failed_at=datetime(2024, 1, 2, 3, 4, 5, tzinfo=timezone.utc))


def exc_carrier_case(env, case, acc):
    """One exception through one carrier and route; every failure here is the exception mechanism."""
    carrier, route, es = case["carrier"], case["route"], case["exc"]
    if carrier in ("StepWorkerFailed", "TickAddEvent.last_exception"):
        if carrier == "StepWorkerFailed":
            tick = {"t": "step_result", "step_name": "s", "worker_id": 0, "event": {"cls": "Plain", "fields": {}, "data": {}, "setitem": {}},
                    "result": [{"type": "failed", "failed_at": 1.5}]}
        else:
            tick = {"t": "add_event", "event": {"cls": "Plain", "fields": {}, "data": {}, "setitem": {}}, "step_name": "s", "attempts": 1,
                    "first_attempt_at": 1.0, "last_exception": True, "last_failed_at": 2.0, "recovery_counts": {}}
        acc.hit("exception_roundtrip_eval")
        check_tick_case(env, {**case, "tick": tick}, acc, exc_spec=es)
        return
    try:
        exc = env.exc(es)
    except Exception as x:  # noqa: BLE001
        acc.inconclusive.append(f"exception maker {es} failed: {x}")
        return
    orig = _carrier_event(env, carrier, exc)
    dump, load = env.route(route)
    acc.hit("exception_roundtrip_eval")
    route_hits(acc, route)
    nested = es["maker"] in env.ce.EXC_NOT_MODULE_LEVEL
    stage, x, got = _try(dump, load, orig)
    if stage:
        if _control_fails_too(lambda: _carrier_event(env, carrier, env.exc(CONTROL_EXC)), dump, load, stage, x):
            acc.violation({"mech": "event_roundtrip_raises", "stage": stage, "exc": type(x).__name__},
                          f"[{route}] {carrier}: {stage} raised {type(x).__name__}: {str(x)[:300]} (also with a control exception)", case)
        else:
            acc.violation({"mech": "exception_rebuilt_from_message", "effect": f"{stage}_raises", "exc": type(x).__name__, "reconstructible": recon(exc)},
                          f"[{route}] {carrier} carrying {exc!r}: {stage} raised {type(x).__name__}: {str(x)[:300]}", case)
        return
    if type(got) is not type(orig):
        acc.violation({"mech": "event_roundtrip_mismatch", "aspect": "class"}, f"[{route}] {carrier} came back as {type(got).__name__}", case)
        return
    eff = exc_diff(exc, got.exception)
    if eff:
        if nested:
            acc.note("nested_class_exception_" + eff)
        else:
            acc.violation({"mech": "exception_rebuilt_from_message", "effect": eff, "reconstructible": recon(exc)},
                          f"[{route}] {carrier}.exception {exc!r} (str {str(exc)!r}) came back as {got.exception!r} "
                          f"(str {str(got.exception)!r})"[:600], case)
    elif type(got.exception) is not type(exc):
        acc.note("exception_subclass_instead_of_same_class")


def model_in_result_note(env, acc, rnd):
    """Informational stricter reading: a pydantic model / event as StopEvent result or dynamic value."""
    inner = env.ce.Inner(x=1, label="l")
    for name, ev in (("result_is_model", env.we.StopEvent(result=inner)), ("dynamic_is_model", env.ce.Plain(m=inner)),
                     ("result_is_event", env.we.StopEvent(result=env.ce.Plain(a=1)))):
        try:
            got = env.ser.deserialize(env.ser.serialize(ev))
            same = (got.result == ev.result) if name.startswith("result") else (got._data == ev._data)
            acc.note(f"{name}_roundtrip_{'equal' if same else 'comes_back_as_plain_dict'}(stricter reading: non-JSON-native payload)")
        except Exception as x:  # noqa: BLE001
            acc.note(f"{name}_roundtrip_raises_{type(x).__name__}(stricter reading)")


# ----------------------------------------------------------------- driver
def _ev(cls, fields=None, data=None, **kw):
    return {"cls": cls, "fields": fields or {}, "data": data or {}, "setitem": {}, **kw}


PRELUDE = (
    [{"kind": "event", "route": r, "ev": _ev("StopEvent", data={"x": 1}, has_result=True, result=1)} for r in ROUTES]
    + [{"kind": "event", "route": r, "ev": _ev("MyStop", {"answer": "a"}, {"x": 1})} for r in ("json", "tick_persisted")]
    + [{"kind": "event", "route": r, "ev": _ev("Plain", data={"x": 1})} for r in ROUTES]
    + [{"kind": "event", "route": r, "ev": _ev("Typed", {"i": 1, "f": 0.5, "s": "s"}, {"x": [1, {"k": None}]})} for r in ROUTES]
    + [{"kind": "event", "route": r, "ev": _ev("StopEvent", has_result=True, result=v)} for r in ("json", "env_meta_qn", "tick_persisted")
       for v in (0, False, "", [], {}, None, {"a": [1, 2.5, "s"]})]
    + [{"kind": "exc", "carrier": c, "route": "json" if "Event" in c and "Tick" not in c else "tick_persisted", "exc": {"maker": m, "m": "k"}}
       for m in ("ValueError", "key_missing", "unicode_decode", "TwoArg", "CustomStr") for c in EXC_CARRIERS]
)


def redefined_class_case(env, case, acc):
    """Event / exception classes that are (re)defined while the process lives -- a module reloaded, a notebook cell run again:
    the qualified name stays, the class object (and possibly its typed fields) is new.  Reading back what was written with the
    CURRENT class must yield the current class, generation after generation."""
    import sys
    import types

    we = env.we
    modname = "vf_c18_live"
    mod = sys.modules.get(modname)
    if mod is None:
        mod = types.ModuleType(modname)
        sys.modules[modname] = mod
    for gen in range(case["generations"]):
        ann = {"a": int}
        ns = {"__module__": modname}
        if gen % 2 == 1:
            ann["b"] = str       # a typed field only this generation declares
            ns["b"] = "dflt"
        ns["__annotations__"] = ann
        base = we.StopEvent if case["base"] == "stop" else we.Event
        cls = type("LiveEv", (base,), dict(ns))
        exc_cls = type("LiveErr", (Exception,), {"__module__": modname})
        mod.LiveEv, mod.LiveErr = cls, exc_cls
        kw = {"a": gen, "dyn": [gen, "x"]}
        if "b" in ann:
            kw["b"] = f"typed{gen}"
        orig = cls(**kw)
        for route in ("json", "env_meta_qn", "tick_persisted"):
            dump, load = env.route(route)
            acc.hit("redefined_class_eval")
            try:
                got = load(dump(orig))
            except Exception as x:  # noqa: BLE001
                acc.violation({"mech": "event_roundtrip_raises", "stage": "redefined_class", "exc": type(x).__name__},
                              f"[{route}] generation {gen} of {modname}.LiveEv: round trip raised {type(x).__name__}: {str(x)[:300]}", {**case, "route": route})
                return
            diffs = []
            event_diff(env, orig, got, acc, diffs)
            if diffs:
                acc.violation({"mech": "event_roundtrip_mismatch", "aspect": diffs[0][0], "redefined_class": True},
                              f"[{route}] generation {gen} of {modname}.LiveEv (class redefined under the same qualified name): {diffs[0][1]}"[:600], {**case, "route": route})
                return
        # the exception class, carried by a failure event
        dump, load = env.tick_route("tick_persisted")
        t = env.tk.TickStepResult(step_name="s", worker_id=0, event=orig, result=[env.res.StepWorkerFailed(exception=exc_cls(f"g{gen}"), failed_at=1.0)])
        try:
            back = load(dump(t))
            bexc = back.result[0].exception
            acc.hit("redefined_exception_class_eval")
            if type(bexc) is not exc_cls or str(bexc) != f"g{gen}":
                acc.violation({"mech": "exception_roundtrip_mismatch", "redefined_class": True},
                              f"[tick_persisted] generation {gen}: {modname}.LiveErr came back as {type(bexc).__module__}.{type(bexc).__name__} (is current class: {type(bexc) is exc_cls}) {bexc!r}", case)
                return
        except Exception as x:  # noqa: BLE001
            acc.violation({"mech": "tick_roundtrip_raises", "stage": "redefined_class", "exc": type(x).__name__}, f"generation {gen}: {type(x).__name__}: {str(x)[:300]}", case)
            return


def run_case(env, case, acc):
    k = case["kind"]
    if k == "redefined":
        return redefined_class_case(env, case, acc)
    if k == "reread":
        return check_envelope_reread(env, case, acc)
    if k == "event":
        check_event_case(env, case, acc)
    elif k == "tick":
        check_tick_case(env, case, acc)
    else:
        exc_carrier_case(env, case, acc)


def run_shard(shard):
    env = Env()
    acc = Acc()
    rnd = random.Random(shard["seed"])
    model_in_result_note(env, acc, rnd)
    for base in ("event", "stop"):
        acc.case()
        run_case(env, {"kind": "redefined", "base": base, "generations": 3}, acc)
    if shard.get("part") == 0:
        # small fixed cases first, so that the first witness of a signature is a minimal one
        for case in PRELUDE:
            acc.case()
            acc.sig(h(case))
            run_case(env, case, acc)
    for _ in range(shard["n"]):
        r = rnd.random()
        if r < 0.6:
            spec = gen_event(rnd)
            sh = [spec["cls"], shape(spec["fields"]), shape(spec["data"]), shape(spec["setitem"]), shape(spec.get("result", "-"))]
            nt = ev_nontrivial(spec)
            for route in ROUTES:
                case = {"kind": "event", "route": route, "ev": spec}
                acc.case()
                if nt:
                    acc.sig(h([sh, route]))
                run_case(env, case, acc)
            check_envelope_reread(env, {"kind": "reread", "route": "env_meta_qn", "ev": spec}, acc)
            acc.sample({"kind": "event", "route": "(all)", "ev": spec})
        elif r < 0.85:
            spec = gen_tick(rnd)
            for route in TICK_ROUTES:
                case = {"kind": "tick", "route": route, "tick": spec}
                acc.case()
                if spec["t"] in ("add_event", "publish_event", "step_result"):
                    acc.sig(h([shape(spec), route]))
                run_case(env, case, acc)
            acc.sample({"kind": "tick", "route": "(both)", "tick": spec})
        else:
            es = gen_exc(rnd)
            for carrier in EXC_CARRIERS:
                routes = TICK_ROUTES if carrier in ("StepWorkerFailed", "TickAddEvent.last_exception") else ROUTES
                for route in ([rnd.choice(routes)] + ["tick_persisted", "json"]):
                    if route not in routes:
                        continue
                    case = {"kind": "exc", "carrier": carrier, "route": route, "exc": es}
                    acc.case()
                    acc.sig(h([es["maker"], shape(es["m"]), carrier, route]))
                    run_case(env, case, acc)
            acc.sample({"kind": "exc", "exc": es})
    return acc.to_dict()


def replay(rp_file):
    env = Env()
    acc = Acc()
    run_case(env, rp_file["case"], acc)
    return acc.to_dict()
