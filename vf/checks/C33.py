"""C33 — backup archives restore exactly what was backed up (runs under /usr/bin/python3).

Monitor shape: reference comparison at the public boundary.  Random deployment sets
(DNS-1035 label names), JSON-shaped CR documents, secret maps with YAML-hostile and
arbitrary-Unicode keys/values, generation maps (incl. 0) and passwords (incl. empty and
non-ASCII) are pushed through the real `create_backup_archive` / `read_backup_archive`
(and the real `encrypt` / `decrypt`).  The oracle is the property statement itself:

* `read(create(x), same password)` returns, under the same names, type-strictly equal
  CR documents, secret maps and generations;
* when a password was given at creation and the archive holds secrets, reading with a
  *different* password (or none) must not hand back secrets (any exception is accepted).

`cryptography` and PyYAML only exist for the Debian interpreter, so the workers run under
/usr/bin/python3 and load the two files by path (parent packages pre-registered as empty
modules; `control_plane/__init__` is never executed).  Missing interpreter / packages =>
inconclusive, never held.  PBKDF2 (600 000 iterations) is lowered for the bulk through the
module constant; every shard also runs a fixed sample at the real setting.
"""
from __future__ import annotations

import os
import random
import sys
import types

from vf.common import Acc, h

ID = "C33"
LEVEL = "exploration"
TECHNIQUE = ("runtime monitoring: round-trip reference oracle over generated deployment/secret/generation sets and "
             "passwords on the real create_backup_archive/read_backup_archive/encrypt/decrypt")
LEVEL_TEXT = ("Randomised round-trip monitoring of the real archive writer/reader with YAML-hostile and arbitrary-Unicode "
              "content, type-strict comparison, and wrong-password reads; right level because the property is a pure "
              "input/output statement over an unbounded input space.")
LEVEL_NOTE = ("Runs under /usr/bin/python3 (only interpreter with cryptography + PyYAML). Trusted: CPython tarfile/gzip/json, "
              "PyYAML, cryptography (OpenSSL), the generators and the comparison in this file. Bulk cases lower the module "
              "constant PBKDF2_ITERATIONS from the harness (the derived key is irrelevant to the property); a fixed sample "
              "per shard runs at the shipped 600000.")
DESIGN_REF = "§5 C33"
RULE = ("case = one generated (deployments, secrets, generations, password, wrong passwords) tuple pushed through create+read, "
        "or one encrypt/decrypt primitive case; distinct = hash of the full case; non-trivial = >=1 deployment carrying a secret "
        "or a generation (archive cases) / non-empty plaintext (primitive cases)")
REQUIRED_REACH = ["roundtrip_plain_eval", "roundtrip_encrypted_eval", "secret_compare_eval", "generation_compare_eval",
                  "generation_zero_eval", "wrong_password_eval", "real_pbkdf2_eval", "empty_password_eval",
                  "primitive_roundtrip_eval"]
ASSUMPTIONS = [
    "deployment names are DNS-1035 labels and unique within a backup (valid names)",
    "CR documents are JSON-shaped (str keys; str/int/float(finite)/bool/null/list/dict values), secrets are str->str maps",
    "strings contain no lone surrogates; passwords are UTF-8 encodable",
    "a 'different password' differs in the key HMAC-SHA256 derives from it (RFC 2104 zero-padding / pre-hashing: 'pw' and 'pw\\0' "
    "are one PBKDF2 password by construction of the standard, not by a choice of this repository)",
    "secrets/generations keyed by a name that has no deployment in the set are outside the statement (not compared)",
]

_SYS_PY = "/usr/bin/python3"
# When the system interpreter is absent the workers fall back to the default one, where the
# imports below fail and every shard reports inconclusive (exit 2) instead of crashing the run.
INTERP = _SYS_PY if os.access(_SYS_PY, os.X_OK) else "/venv/bin/python"
AUTOSTUB = False           # a fabricated `cryptography` must never stand in for the real one here
SHARD_TIMEOUT = {"quick": 300, "thorough": 1800}

LOW_ITERATIONS = 1000
REAL_ITERATIONS = 600_000


def plan(tier, seed):
    if tier == "quick":
        n, per, real = 16, 220, 1
    else:
        n, per, real = 64, 5000, 6
    return [{"seed": seed * 1000 + i, "n": per, "real": real} for i in range(n)]


# ------------------------------------------------------------------ loading the code under test
class Unavailable(Exception):
    pass


def load_modules():
    """Load encryption.py and archive.py by path under their real dotted names."""
    import importlib.util

    try:
        import cryptography  # noqa: F401
        from cryptography.hazmat.primitives.ciphers.aead import AESGCM  # noqa: F401
        import yaml  # noqa: F401
    except Exception as e:  # noqa: BLE001
        raise Unavailable(f"{sys.executable}: cryptography/PyYAML not importable ({type(e).__name__}: {e})")
    if not getattr(getattr(sys.modules.get("cryptography"), "__spec__", None), "origin", None):
        raise Unavailable("cryptography resolved to a stub module")
    repo = os.environ.get("VERIF_REPO", "/repo")
    base = os.path.join(repo, "packages", "llama-agents-control-plane", "src", "llama_agents", "control_plane", "backup")
    if not os.path.isfile(os.path.join(base, "archive.py")):
        raise Unavailable(f"{base}/archive.py not found")
    pkg = "llama_agents.control_plane.backup"
    parts = pkg.split(".")
    for i in range(1, len(parts) + 1):
        name = ".".join(parts[:i])
        if name not in sys.modules or not isinstance(sys.modules[name], types.ModuleType) or i == len(parts):
            m = types.ModuleType(name)
            m.__path__ = []  # empty namespace: nothing else of the package can be imported by accident
            sys.modules[name] = m
    out = {}
    for leaf in ("encryption", "archive"):
        full = f"{pkg}.{leaf}"
        spec = importlib.util.spec_from_file_location(full, os.path.join(base, leaf + ".py"))
        mod = importlib.util.module_from_spec(spec)
        sys.modules[full] = mod
        spec.loader.exec_module(mod)
        out[leaf] = mod
    return out["archive"], out["encryption"]


# ------------------------------------------------------------------ generators
HOSTILE = [
    "", " ", "  ", "yes", "no", "Yes", "NO", "on", "off", "y", "n", "true", "false", "True", "null", "Null", "~", "123", "0123",
    "0x1f", "0o17", "0b11", "1e3", "1.5", "1.", ".5", "+1", "-1", "1_000", "1:30", "190:20:30", ".inf", "-.inf", ".nan", ".NaN",
    "-", "- a", "-a", "? a", "?", "a: b", "a:b", ":", ": x", "# c", "a #c", "a # c", " lead", "trail ", "\ttab", "tab\t",
    "line1\nline2", "line1\n\nline2", "a\n", "a\n\n", "\na", "\n", " \n ", "a \nb", "a\n b", "\r\n", "a\rb", "'", "''", '"', '""',
    "'q'", '"q"', "\\", "\\n", "a\\", "{}", "[]", "{a: b}", "[a, b]", "{", "}", "[", "]", ",", "&a", "*a", "!tag", "!!str x",
    "%dir", "%YAML 1.1", "@", "`", "|", ">", "|-", ">+", "<<", "=", "2001-12-14", "2001-12-14T21:59:43Z", "2001-12-14 21:59:43",
    "---", "...", "--- x", "---\nx", "...\nx", "key: |\n  x\n", "\x00", "\x01", "\x07", "\x08", "\x0b", "\x0c", "\x1b", "\x7f",
    "\x80", "\x85", "a\x85b", "\xa0", "\xad", "\u2028", "a\u2028b", "\u2029", "\ufeff", "\ufeffa", "\ufffe", "\uffff", "\ufffd",
    "\U0001f600", "\U0010ffff", "\U00010000", "\xe9", "e\u0301", "\u0130", "\u212a", "\xdf", "\u200b", "\u200e", "\u202e",
    "base64==", "cGFzc3dvcmQ=", "a" * 150, "word " * 40, ("x" * 90 + " ") * 3, " " * 100, "\n" * 5, "a\tb", "a  b", "a:  b",
    "-----BEGIN KEY-----\nabc\ndef\n-----END KEY-----\n", "{\"a\": 1}", "k=v;k2=v2", "$(rm -rf /)", "null: null", "? |", "- - -",
]
NAME_EDGE = ["a", "x", "z9", "secret", "meta", "manifest", "yaml", "json", "enc", "unknown", "secret-enc", "secret-yaml",
             "meta-json", "app", "app-secret", "app-meta", "app-secret-yaml", "a-b", "a--b", "a" * 63, "a" + "-" * 61 + "b",
             "m" + "9" * 62, "true", "null", "yes", "no", "on", "off", "y", "n", "e1", "inf", "nan", "x0", "o7"]
PASSWORDS = ["pw", "correct horse battery staple", "p", " ", "  lead", "trail ", "\t", "\n", "\x00", "a\x00b", "\xe9", "e\u0301",
             "\u043f\u0430\u0440\u043e\u043b\u044c", "\u5bc6\u7801", "\U0001f511", "P" * 300, "'\"\\", "None", "0", "False"]


def rnd_text(rnd, maxlen=24):
    n = rnd.randint(0, maxlen)
    out = []
    for _ in range(n):
        r = rnd.random()
        if r < 0.45:
            c = rnd.randint(0x20, 0x7E)
        elif r < 0.55:
            c = rnd.choice([0x09, 0x0A, 0x0D, 0x00, 0x1F, 0x7F, 0x85, 0xA0, 0x2028, 0x2029, 0xFEFF, 0xFFFE, 0xFFFF, 0x20, 0x3A, 0x23, 0x2D])
        elif r < 0.8:
            c = rnd.randint(0xA0, 0xFFFF)
        else:
            c = rnd.randint(0x10000, 0x10FFFF)
        if 0xD800 <= c <= 0xDFFF:
            c = 0xFFFD
        out.append(chr(c))
    return "".join(out)


def gen_str(rnd):
    r = rnd.random()
    if r < 0.55:
        return rnd.choice(HOSTILE)
    if r < 0.7:
        return rnd.choice(HOSTILE) + rnd.choice(HOSTILE)
    if r < 0.75:
        return rnd_text(rnd, 200)
    return rnd_text(rnd)


def gen_name(rnd):
    if rnd.random() < 0.4:
        return rnd.choice(NAME_EDGE)
    n = rnd.randint(1, rnd.choice([3, 8, 20, 63]))
    first = rnd.choice("abcdefghijklmnopqrstuvwxyz")
    if n == 1:
        return first
    mid = "".join(rnd.choice("abcdefghijklmnopqrstuvwxyz0123456789-") for _ in range(n - 2))
    last = rnd.choice("abcdefghijklmnopqrstuvwxyz0123456789")
    return first + mid + last


FLOATS = [0.0, -0.0, 1.0, 1.5, -2.25, 0.1, 1e-7, 1e17, 1e22, 1e300, 5e-324, 123456789.123456789, 3.141592653589793, 1e16, 2.5e-5]
INTS = [0, 1, -1, 7, 10, 255, 2 ** 31, 2 ** 63, -(2 ** 63) - 1, 10 ** 30, 8, 9, 10_000]


def gen_json(rnd, depth):
    r = rnd.random()
    if depth <= 0 or r < 0.45:
        k = rnd.random()
        if k < 0.55:
            return gen_str(rnd)
        if k < 0.7:
            return rnd.choice(INTS) if rnd.random() < 0.7 else rnd.randint(-10 ** 12, 10 ** 12)
        if k < 0.8:
            return rnd.choice(FLOATS) if rnd.random() < 0.7 else rnd.uniform(-1e6, 1e6)
        if k < 0.9:
            return rnd.choice([True, False])
        return None
    if r < 0.7:
        return [gen_json(rnd, depth - 1) for _ in range(rnd.randint(0, 4))]
    return {gen_str(rnd): gen_json(rnd, depth - 1) for _ in range(rnd.randint(0, 4))}


def gen_cr(rnd, name):
    meta = {"name": name}
    if rnd.random() < 0.7:
        meta["namespace"] = rnd.choice(["default", "llama", "ns-1"])
    if rnd.random() < 0.5:
        meta["labels"] = {rnd.choice(["app", "tier", "a.b/c", gen_str(rnd)]): gen_str(rnd) for _ in range(rnd.randint(0, 3))}
    if rnd.random() < 0.4:
        meta["annotations"] = {gen_str(rnd): gen_str(rnd) for _ in range(rnd.randint(1, 3))}
    cr = {"apiVersion": "deploy.llamaindex.ai/v1", "kind": "LlamaDeployment", "metadata": meta}
    if rnd.random() < 0.9:
        cr["spec"] = gen_json(rnd, 3) if rnd.random() < 0.5 else {
            "repoUrl": gen_str(rnd), "gitRef": gen_str(rnd), "replicas": rnd.choice(INTS), "suspended": rnd.choice([True, False, None]),
            "env": [{"name": gen_str(rnd), "value": gen_str(rnd)} for _ in range(rnd.randint(0, 3))], "extra": gen_json(rnd, 2)}
    return cr


def gen_secret(rnd):
    n = rnd.choice([0, 1, 1, 2, 3, 6])
    return {gen_str(rnd): gen_str(rnd) for _ in range(n)}


def hmac_key(pw):
    """The key HMAC-SHA256 actually uses for a password (RFC 2104: keys longer than the 64-byte block are hashed,
    shorter ones are zero-padded).  Two passwords with the same HMAC key are the same PBKDF2 password by
    construction of the standard (e.g. 'pw' and 'pw\0'), so they are not a 'different password' for the oracle."""
    import hashlib

    b = pw.encode("utf-8")
    if len(b) > 64:
        b = hashlib.sha256(b).digest()
    return b.rstrip(b"\x00")


def wrong_passwords(rnd, pw):
    import unicodedata

    cands = [pw + "x", pw + " ", pw + "\x00", pw[:-1], pw.swapcase(), pw.upper(), " " + pw, pw[::-1],
             unicodedata.normalize("NFC", pw), unicodedata.normalize("NFD", pw), unicodedata.normalize("NFKC", pw),
             "", rnd.choice(PASSWORDS), rnd_text(rnd, 8)]
    cands = [c for c in dict.fromkeys(cands) if hmac_key(c) != hmac_key(pw)]
    rnd.shuffle(cands)
    out = cands[: rnd.randint(1, 3)]
    if rnd.random() < 0.3:
        out.append(None)  # no password at all
    return out


def gen_archive_case(rnd, real=False):
    nd = rnd.choice([0, 1, 1, 2, 2, 3, 4, 6]) if not real else rnd.choice([1, 2])
    names = []
    while len(names) < nd:
        n = gen_name(rnd)
        if n not in names:
            names.append(n)
    deployments = [gen_cr(rnd, n) for n in names]
    p_secret = rnd.choice([0.0, 0.5, 0.8, 1.0]) if not real else 1.0
    secrets = {n: gen_secret(rnd) for n in names if rnd.random() < p_secret}
    gk = rnd.random()
    if gk < 0.15:
        generations = None
    elif gk < 0.25:
        generations = {}
    else:
        generations = {n: rnd.choice([0, 0, 1, 2, 17, 2 ** 31, 2 ** 63, rnd.randint(0, 10 ** 6)]) for n in names if rnd.random() < 0.75}
    pk = rnd.random()
    if real:
        pw = rnd.choice(PASSWORDS)
    elif pk < 0.3:
        pw = None
    elif pk < 0.38:
        pw = ""
    elif pk < 0.8:
        pw = rnd.choice(PASSWORDS)
    else:
        pw = rnd_text(rnd, 12) or "k"
    wrong = []
    if pw is not None:
        wrong = wrong_passwords(rnd, pw)
        if real:
            wrong = wrong[:1]
    return {"kind": "archive", "real": bool(real), "deployments": deployments, "secrets": secrets, "generations": generations,
            "namespace": rnd.choice(["default", "llama-agents", gen_str(rnd)]), "timestamp": rnd.choice(["2026-01-02T03:04:05+00:00", gen_str(rnd)]),
            "password": pw, "wrong": wrong}


def gen_prim_case(rnd, real=False):
    k = rnd.random()
    if k < 0.15:
        pt = ""
    elif k < 0.6:
        pt = gen_str(rnd)
    else:
        pt = "".join(chr(rnd.randint(0, 255)) for _ in range(rnd.choice([1, 15, 16, 17, 31, 32, 33, 255, 1000])))
    pw = rnd.choice(PASSWORDS + [""]) if rnd.random() < 0.8 else rnd_text(rnd, 12)
    enc = "latin-1" if all(ord(c) < 256 for c in pt) and rnd.random() < 0.5 else "utf-8"
    wrong = [w for w in wrong_passwords(rnd, pw) if w is not None]
    return {"kind": "prim", "real": bool(real), "plaintext": pt, "encoding": enc, "password": pw, "wrong": wrong[:1] if real else wrong}


# ------------------------------------------------------------------ oracle
def strict_diff(a, b, path="$"):
    """First type-strict difference between two JSON-shaped values, or None."""
    if type(a) is not type(b):
        return f"{path}: type {type(a).__name__} != {type(b).__name__}"
    if isinstance(a, dict):
        for k in a:
            if k not in b:
                return f"{path}: key {k!r} lost"
        for k in b:
            if k not in a:
                return f"{path}: key {k!r} appeared"
        for k in a:
            d = strict_diff(a[k], b[k], f"{path}[{k!r}]")
            if d:
                return d
        return None
    if isinstance(a, list):
        if len(a) != len(b):
            return f"{path}: length {len(a)} != {len(b)}"
        for i, (x, y) in enumerate(zip(a, b)):
            d = strict_diff(x, y, f"{path}[{i}]")
            if d:
                return d
        return None
    if isinstance(a, float):
        if a != b or (a == 0 and str(a) != str(b)):
            return f"{path}: {a!r} != {b!r}"
        return None
    if a != b:
        return f"{path}: {a!r} != {b!r}"[:300]
    return None


def _deep(x):
    import copy

    return copy.deepcopy(x)


def check_archive_case(case, acc, arch, enc, shipped_iterations):
    real = case.get("real", False)
    if real:
        # real setting = the constant as shipped in the tree under test
        enc.PBKDF2_ITERATIONS = shipped_iterations
    else:
        enc.PBKDF2_ITERATIONS = LOW_ITERATIONS
    pw = case["password"]
    deployments = case["deployments"]
    names = [d["metadata"]["name"] for d in deployments]
    secrets = case["secrets"]
    gens = case["generations"]
    tag = {"encrypted": pw is not None}
    try:
        data = arch.create_backup_archive(_deep(deployments), _deep(secrets), case["namespace"], case["timestamp"],
                                          encryption_password=pw, generations=_deep(gens))
    except Exception as x:  # noqa: BLE001
        acc.violation({"mech": "create_archive_raised", "exc": type(x).__name__, **tag},
                      f"create_backup_archive raised {type(x).__name__}: {str(x)[:200]}", case)
        return
    try:
        got = arch.read_backup_archive(data, pw)
    except Exception as x:  # noqa: BLE001
        acc.violation({"mech": "read_archive_raised_with_same_password", "exc": type(x).__name__, **tag},
                      f"read_backup_archive(same password) raised {type(x).__name__}: {str(x)[:200]}", case)
        return
    acc.hit("roundtrip_encrypted_eval" if pw is not None else "roundtrip_plain_eval")
    if pw == "":
        acc.hit("empty_password_eval")
    if real and pw is not None and any(n in secrets for n in names):
        acc.hit("real_pbkdf2_eval")
    by_name = {}
    for e in got.entries:
        if e.name in by_name:
            acc.violation({"mech": "duplicate_entry_name", **tag}, f"entry {e.name!r} returned twice", case)
        by_name[e.name] = e
    if set(by_name) != set(names):
        acc.violation({"mech": "entry_names_mismatch", **tag},
                      f"names written {sorted(names)} != names read {sorted(by_name)}", case)
        return
    for d in deployments:
        n = d["metadata"]["name"]
        e = by_name[n]
        diff = strict_diff(d, e.cr)
        acc.hit("cr_compare_eval")
        if diff:
            acc.violation({"mech": "cr_document_changed", **tag}, f"CR of {n!r} changed: {diff}", case)
        want_secret = secrets.get(n)
        acc.hit("secret_compare_eval")
        if want_secret is None:
            if e.secret is not None:
                acc.violation({"mech": "secret_appeared", **tag}, f"{n!r} had no secret, read {type(e.secret).__name__}", case)
        elif e.secret is None:
            acc.violation({"mech": "secret_lost", **tag}, f"secret of {n!r} not returned", case)
        else:
            diff = strict_diff(want_secret, e.secret)
            if diff:
                acc.violation({"mech": "secret_changed", **tag}, f"secret of {n!r} changed: {diff}", case)
        want_gen = gens.get(n) if gens else None
        acc.hit("generation_compare_eval")
        if want_gen == 0 and gens is not None and n in gens:
            acc.hit("generation_zero_eval")
        if want_gen is None:
            if e.generation is not None:
                acc.violation({"mech": "generation_appeared", **tag}, f"{n!r} had no generation, read {e.generation!r}", case)
        elif type(e.generation) is not int or e.generation != want_gen:
            acc.violation({"mech": "generation_changed", **tag}, f"generation of {n!r}: wrote {want_gen!r}, read {e.generation!r}", case)
    # manifest: not part of the statement -> informational only
    m = got.manifest
    if m.namespace != case["namespace"] or m.timestamp != case["timestamp"] or m.deployment_count != len(deployments):
        acc.note("manifest_field_changed")
    if m.encrypted != (pw is not None):
        acc.note("manifest_encrypted_flag_differs_from_password_given")
    if pw == "" and m.encrypted:
        acc.note("empty_password_manifest_says_encrypted")

    # --- second sentence: encrypted secrets cannot be read with a different password
    have_secret = [n for n in names if n in secrets]
    if pw is None or not have_secret:
        return
    for w in case["wrong"]:
        if w is not None and hmac_key(w) == hmac_key(pw):
            acc.note("hmac_equivalent_password_skipped")
            continue
        acc.hit("wrong_password_eval")
        try:
            other = arch.read_backup_archive(data, w)
        except Exception:  # noqa: BLE001  any refusal is fine
            acc.hit("wrong_password_refused")
            continue
        leaked = [e.name for e in other.entries if e.secret is not None]
        if not leaked:
            acc.note("wrong_password_read_returned_without_secrets")
            continue
        if pw == "" and not m.encrypted:
            # lenient reading: an empty password that the archive itself records as "not encrypted" is "without encryption"
            acc.note("empty_password_treated_as_no_encryption")
        elif pw == "":
            acc.violation({"mech": "empty_password_secrets_stored_plaintext"},
                          f"archive created with encryption_password='' (manifest encrypted={m.encrypted}) returns the secrets of "
                          f"{leaked[:3]} when read with a different password ({'none' if w is None else 'non-empty'})", case)
        else:
            acc.violation({"mech": "wrong_password_returned_secrets", "no_password": w is None},
                          f"read with a different password returned secrets of {leaked[:3]}", case)


def check_prim_case(case, acc, enc, shipped_iterations):
    real = case.get("real", False)
    enc.PBKDF2_ITERATIONS = shipped_iterations if real else LOW_ITERATIONS
    pt = case["plaintext"].encode(case["encoding"])
    pw = case["password"]
    try:
        blob = enc.encrypt(pt, pw)
        back = enc.decrypt(blob, pw)
    except Exception as x:  # noqa: BLE001
        acc.violation({"mech": "encrypt_decrypt_raised", "exc": type(x).__name__},
                      f"encrypt/decrypt with the same password raised {type(x).__name__}: {str(x)[:200]}", case)
        return
    acc.hit("primitive_roundtrip_eval")
    if real:
        acc.hit("real_pbkdf2_eval")
    if back != pt:
        acc.violation({"mech": "decrypt_not_inverse_of_encrypt"}, f"decrypt(encrypt(p)) != p for len {len(pt)}", case)
    if len(pt) >= 12 and pt in blob:   # 12+ bytes: a chance occurrence in ~60 random bytes is < 2^-90
        acc.violation({"mech": "ciphertext_contains_plaintext"}, "encrypted blob contains the plaintext bytes", case)
    for w in case["wrong"]:
        if hmac_key(w) == hmac_key(pw):
            acc.note("hmac_equivalent_password_skipped")
            continue
        acc.hit("wrong_password_eval")
        try:
            out = enc.decrypt(blob, w)
        except Exception:  # noqa: BLE001
            acc.hit("wrong_password_refused")
            continue
        acc.violation({"mech": "decrypt_succeeded_with_wrong_password"},
                      f"decrypt with a different password returned {len(out)} bytes (equal={out == pt})", case)


def check_case(case, acc, arch, enc, shipped):
    if case["kind"] == "archive":
        check_archive_case(case, acc, arch, enc, shipped)
    else:
        check_prim_case(case, acc, enc, shipped)


def nontrivial(case):
    if case["kind"] == "prim":
        return bool(case["plaintext"])
    names = [d["metadata"]["name"] for d in case["deployments"]]
    return any(n in case["secrets"] for n in names) or bool(case["generations"])


def _setup(acc):
    try:
        arch, enc = load_modules()
    except Unavailable as e:
        acc.inconclusive.append(f"C33 cannot run: {e}")
        return None
    shipped = getattr(enc, "PBKDF2_ITERATIONS", None)
    if not isinstance(shipped, int):
        acc.inconclusive.append("encryption.PBKDF2_ITERATIONS not found: cannot lower the iteration count for the bulk")
        return None
    return arch, enc, shipped


def run_shard(shard):
    acc = Acc()
    st = _setup(acc)
    if st is None:
        return acc.to_dict()
    arch, enc, shipped = st
    rnd = random.Random(shard["seed"])
    cases = []
    for i in range(shard["real"]):
        cases.append(gen_archive_case(rnd, real=True) if i % 2 == 0 else gen_prim_case(rnd, real=True))
    for _ in range(shard["n"]):
        cases.append(gen_archive_case(rnd) if rnd.random() < 0.85 else gen_prim_case(rnd))
    try:
        for case in cases:
            acc.case()
            if nontrivial(case):
                acc.sig(h(case))
            if len(repr(case)) < 1500:
                acc.sample(case)
            check_case(case, acc, arch, enc, shipped)
    finally:
        enc.PBKDF2_ITERATIONS = shipped
    if shipped != REAL_ITERATIONS:
        acc.note("shipped_pbkdf2_iterations_not_600000")
    return acc.to_dict()


def replay(rp_file):
    acc = Acc()
    st = _setup(acc)
    if st is None:
        return acc.to_dict()
    arch, enc, shipped = st
    try:
        check_case(rp_file["case"], acc, arch, enc, shipped)
    finally:
        enc.PBKDF2_ITERATIONS = shipped
    return acc.to_dict()
