"""C16 — the stored event log is gap-free and resumable from any cursor.

Monitor shape: scripted interleavings (virtual clock) of N appender tasks and M
subscriber tasks on the real store objects, decided by a reference model written
from the property statement:

* sequences are 0,1,2,... in publication order (append calls that do not overlap
  in time must be numbered in call order; per-appender order is always kept);
* a subscription with cursor k yields exactly the stored events with sequence > k,
  in order, once each, and ends right after the first terminal event;
* a subscriber that disconnects after sequence k and re-subscribes with k sees the
  uninterrupted stream (checked per segment and on the concatenation);
* memory / SQLite / SQLite(single_connection) / SQLite(two store objects on one file)
  give the same per-subscriber output for the same script.

Optional second layer ("layer": "api"): GET /events/{handler_id} of the real
_WorkflowAPI over the starlette shim with after_sequence numeric / "now" /
Last-Event-ID, SSE and NDJSON; ids on the wire must be the stored sequences.
"""
from __future__ import annotations

import os
import random
import shutil

from vf.common import Acc, h

ID = "C16"
LEVEL = "exploration"
TECHNIQUE = ("runtime monitoring: reference-model oracle over scripted append/subscribe/disconnect interleavings on the real "
             "MemoryWorkflowStore / SqliteWorkflowStore under a virtual clock, plus wire-level check of GET /events")
LEVEL_TEXT = ("Randomised scripts (appenders, subscribers with cursors in [-2, n+3], client disconnects by count and by "
              "time, terminal events at random positions, ties with the SQLite poll interval) are executed on the real store "
              "objects; an independent model of 'events above k, in order, once, stop after first terminal' decides. Right "
              "level: the property quantifies over interleavings and cursors, which are sampled, not enumerated.")
LEVEL_NOTE = ("Trusted: CPython asyncio + sqlite3, the virtual clock (vf/vclock.py), pydantic; the API layer additionally trusts "
              "the starlette shim (/verif/shims/starlette) and vf/asgi_transport.py. Postgres store not exercised (no asyncpg).")
DESIGN_REF = "§5 C16"
RULE = ("store case = one script (events x appenders x subscribers x disconnect plan x poll interval) run on 4 store "
        "configurations; distinct = hash of the observed interleaving trace (append / deliver / disconnect / resubscribe order) "
        "on the memory store; non-trivial = >=2 events appended and >=1 subscriber received >=1 event or used a cursor beyond "
        "the log.  api case = one handler + event plan + 1-4 GET /events requests; distinct = hash of (backend, plan, per-request "
        "mode/status/delivered counts); non-trivial = >=1 event delivered on the wire")
REQUIRED_REACH = ["append_order_checked", "segment_checked", "terminal_end_checked", "resume_checked",
                  "cursor_beyond_end_checked", "cursor_mid_checked", "live_delivery_checked", "backend_equal_checked",
                  "sqlite_single_conn_checked", "sqlite_two_objects_checked", "api_stream_checked"]
ASSUMPTIONS = [
    "publication order of overlapping append calls is undefined; only non-overlapping calls and per-appender order are demanded",
    "cursor k at or beyond the first terminal event: only safety (in-order events above k) is demanded, not termination",
    "bounded liveness: an event appended >= 5 poll intervals (+0.5 s) before the end of the script must have been delivered",
]
VCLOCK = True
SHARD_TIMEOUT = {"quick": 300, "thorough": 1800}

BACKENDS = ["memory", "sqlite", "sqlite_single", "sqlite_two"]

TERMINAL_KINDS = [
    ("StopEvent", []),
    ("StopEvent", None),
    ("WorkflowCancelledEvent", ["StopEvent"]),
    ("WorkflowFailedEvent", ["StopEvent"]),
    ("MyStop", ["StopEvent"]),
    # envelopes built from INSTANCES of real classes by EventEnvelopeWithMetadata.from_event (what the server runtime does): plain and
    # deep StopEvent subclasses, and subclasses with a non-Event mixin before / after StopEvent in the bases
    ("@real", 1), ("@real", 2), ("@real", 3), ("@real", 3), ("@real", 4), ("@real", 5), ("@real", 0),
]
PLAIN_KINDS = [
    ("Event", []),
    ("Progress", []),
    ("StepStateChanged", ["InternalDispatchEvent"]),
    ("StopEventLike", ["Other"]),
    ("Progress", None),
    ("@real", 0), ("@real", 1),
]
DELAYS = [0, 0, "y", "y", 0.05, 0.1, 0.1, 0.2, 0.35]


def plan(tier, seed):
    if tier == "quick":
        n, per, api = 16, 220, 20
    else:
        n, per, api = 64, 750, 50
    return [{"seed": seed * 1000 + i, "n": per, "api": api, "tier": tier} for i in range(n)]


# ------------------------------------------------------------------ generator
def gen_case(rnd: random.Random, tier: str) -> dict:
    big = tier == "thorough"
    n = rnd.choice([0, 1, 2, 3, 4, 5, 6, 8, 10, 12] + ([16, 24, 30] if big else []))
    poll = rnd.choice([0.05, 0.1, 0.1, 1.0])
    n_app = rnd.randint(1, 3)
    # terminal positions
    terms: dict[int, int] = {}
    r = rnd.random()
    if n > 0 and r < 0.75:
        pos = rnd.choice([n - 1, n - 1, rnd.randrange(n)])
        terms[pos] = rnd.randrange(len(TERMINAL_KINDS))
        if rnd.random() < 0.12 and n >= 2:
            terms[rnd.randrange(n)] = rnd.randrange(len(TERMINAL_KINDS))
    events = []
    for i in range(n):
        d = rnd.choice(DELAYS)
        if d not in (0, "y") and rnd.random() < 0.3:
            d = poll * rnd.choice([1, 2])  # tie with the poll timer
        events.append({"a": rnd.randrange(n_app), "d": d,
                       "term": terms.get(i), "kind": rnd.randrange(len(PLAIN_KINDS)),
                       "noise": rnd.random() < 0.15})
    subs = []
    for _ in range(rnd.randint(1, 4)):
        k = rnd.choice([-1, -1, rnd.randint(-1, n + 3), rnd.randint(-1, n + 3), rnd.randint(-1, max(-1, n - 1))])
        if rnd.random() < 0.04:
            k = rnd.choice([-2, -5])
        segs = []
        for _ in range(rnd.choice([0, 0, 1, 1, 2, 3])):
            if rnd.random() < 0.6:
                segs.append({"mode": "count", "n": rnd.randint(1, 3), "pause": rnd.choice(DELAYS)})
            else:
                t = rnd.choice([0.05, 0.1, 0.15, 0.3, poll, 2 * poll])
                segs.append({"mode": "time", "t": t, "pause": rnd.choice(DELAYS)})
        start = rnd.choice([0, 0, "y", 0.05, 0.1, 0.2, 0.4, 0.8, 1.5])
        subs.append({"start": start, "k": k, "cd": rnd.choice([0, 0, 0, "y", 0.05, 0.1, poll]), "segs": segs})
    return {"layer": "store", "n_app": n_app, "events": events, "subs": subs, "poll": poll}


# ------------------------------------------------------------------ runner
def _envelope(Env, uid: int, ev: dict, run: str):
    if ev["term"] is not None:
        typ, types = TERMINAL_KINDS[ev["term"]]
    else:
        typ, types = PLAIN_KINDS[ev["kind"]]
    if typ == "@real":
        from vf import c16_events as ce

        cls = (ce.TERMINAL if ev["term"] is not None else ce.PLAIN)[types]
        env = Env.from_event(cls(uid=uid, run=run))
        return env.model_copy(update={"value": {"uid": uid, "run": run}})
    return Env(value={"uid": uid, "run": run}, qualified_name=None, type=typ, types=types)


def make_stores(backend: str, poll: float, tmp: str):
    """-> (append_store, subscribe_store, closer)"""
    from llama_agents.server._store.memory_workflow_store import MemoryWorkflowStore
    from llama_agents.server._store.sqlite.sqlite_workflow_store import SqliteWorkflowStore

    if backend == "memory":
        s = MemoryWorkflowStore()
        return s, s, lambda: None
    path = os.path.join(tmp, f"{backend}.db")
    for suffix in ("", "-wal", "-shm", "-journal"):
        try:
            os.unlink(path + suffix)
        except FileNotFoundError:
            pass
    import sqlite3

    def keeper():
        # harness-side idle connection: keeps the WAL alive so that the store's per-operation
        # connect/close is not a "last connection closes -> checkpoint + unlink" every time (pure speed-up)
        k = sqlite3.connect(path, timeout=30.0)
        k.execute("SELECT count(*) FROM sqlite_master").fetchall()  # really attach to the db + wal
        return k.close

    if backend == "sqlite":
        s = SqliteWorkflowStore(path, poll_interval=poll)
        return s, s, keeper()
    if backend == "sqlite_single":
        s = SqliteWorkflowStore(path, poll_interval=poll, single_connection=True)

        def close():
            try:
                s._persistent_conn.close()
            except Exception:  # noqa: BLE001
                pass

        return s, s, close
    if backend == "sqlite_two":
        a = SqliteWorkflowStore(path, poll_interval=poll)
        b = SqliteWorkflowStore(path, poll_interval=poll)
        return a, b, keeper()
    raise AssertionError(backend)


async def _sleep(d):
    import asyncio

    if d == "y":
        await asyncio.sleep(0)
    elif d:
        await asyncio.sleep(d)


def run_script(case: dict, backend: str, tmp: str) -> dict:
    """Execute the script on one store configuration; returns the observation record."""
    import asyncio

    from llama_agents.client.protocol.serializable_events import EventEnvelopeWithMetadata as Env

    from vf import vclock

    RUN, NOISE = "run-main", "run-noise"
    obs: dict = {"backend": backend, "appends": [], "segments": [], "trace": [], "error": None}
    tick = [0]

    def stamp():
        tick[0] += 1
        return tick[0]

    async def main():
        wstore, rstore, closer = make_stores(backend, case["poll"], tmp)
        try:
            per_app: dict[int, list] = {i: [] for i in range(case["n_app"])}
            for uid, ev in enumerate(case["events"]):
                per_app[ev["a"]].append((uid, ev))
            started = [0]

            async def appender(i):
                for uid, ev in per_app[i]:
                    await _sleep(ev["d"])
                    if ev["noise"]:
                        await wstore.append_event(NOISE, _envelope(Env, 10_000 + uid, {"term": None, "kind": 0}, NOISE))
                    rec = {"uid": uid, "app": i, "s": stamp(), "e": None}
                    obs["appends"].append(rec)
                    started[0] += 1
                    obs["trace"].append(["A", uid])
                    await wstore.append_event(RUN, _envelope(Env, uid, ev, RUN))
                    rec["e"] = stamp()

            async def consume(agen, seg, limit, cd):
                async for ev in agen:
                    seg["got"].append([ev.sequence, ev.event.value.get("uid"), ev.run_id, started[0]])
                    obs["trace"].append(["S", seg["sub"], ev.sequence])
                    if len(seg["got"]) > len(case["events"]) + 3:
                        seg["end"] = "runaway"  # more deliveries than stored events: stop before it loops forever
                        obs["runaway"] = True
                        return
                    if limit is not None and len(seg["got"]) >= limit:
                        seg["end"] = "client_count"
                        return
                    await _sleep(cd)
                seg["end"] = "exhausted"

            async def subscriber(j, sub):
                await _sleep(sub["start"])
                cursor = sub["k"]
                plans = list(sub["segs"]) + [None]
                for si, sp in enumerate(plans):
                    seg = {"sub": j, "seg": si, "k": cursor, "got": [], "end": None,
                           "log_len_at_sub": started[0], "last": sp is None}
                    obs["segments"].append(seg)
                    obs["trace"].append(["R", j, cursor])
                    agen = rstore.subscribe_events(RUN, after_sequence=cursor)
                    try:
                        if sp is None:
                            await consume(agen, seg, None, sub["cd"])
                        elif sp["mode"] == "count":
                            await consume(agen, seg, sp["n"], sub["cd"])
                        else:
                            t = asyncio.ensure_future(consume(agen, seg, None, sub["cd"]))
                            done, _ = await asyncio.wait({t}, timeout=sp["t"])
                            if not done:
                                t.cancel()
                                await asyncio.gather(t, return_exceptions=True)
                                if seg["end"] is None:
                                    seg["end"] = "client_time"
                            else:
                                t.result()
                    except asyncio.CancelledError:
                        if seg["end"] is None:
                            seg["end"] = "open"  # cancelled by the driver at the end of the script
                        try:
                            await agen.aclose()
                        except BaseException:  # noqa: BLE001
                            pass
                        raise
                    try:
                        await agen.aclose()
                    except BaseException:  # noqa: BLE001
                        pass
                    obs["trace"].append(["D", j, seg["end"]])
                    if seg["end"] in ("exhausted", "runaway"):
                        return
                    if seg["got"] and seg["got"][-1][2] == RUN and isinstance(seg["got"][-1][1], int) \
                            and 0 <= seg["got"][-1][1] < len(case["events"]) \
                            and case["events"][seg["got"][-1][1]]["term"] is not None:
                        seg["saw_terminal"] = True
                        return  # a client that has seen the terminal event does not reconnect
                    if seg["got"]:
                        cursor = seg["got"][-1][0]
                    if sp is not None:
                        await _sleep(sp["pause"])

            apps = [asyncio.ensure_future(appender(i)) for i in range(case["n_app"])]
            subs = [asyncio.ensure_future(subscriber(j, s)) for j, s in enumerate(case["subs"])]
            await asyncio.gather(*apps)
            obs["t_last_append"] = vclock.vnow()
            # settle: every subscriber gets >= 5 poll intervals + the longest plan of pauses
            slack = 5 * case["poll"] + 0.5
            longest = 0.0
            for s in case["subs"]:
                tot = s["start"] if isinstance(s["start"], (int, float)) else 0
                for sp in s["segs"]:
                    tot += (sp.get("t") or 0) + (sp["pause"] if isinstance(sp["pause"], (int, float)) else 0)
                    tot += 3 * (s["cd"] if isinstance(s["cd"], (int, float)) else 0)
                cdv = s["cd"] if isinstance(s["cd"], (int, float)) else 0
                tot += cdv * (len(case["events"]) + 2)
                longest = max(longest, tot)
            await asyncio.sleep(longest + slack)
            for t in subs:
                if not t.done():
                    t.cancel()
            res = await asyncio.gather(*subs, return_exceptions=True)
            for r in res:
                if isinstance(r, Exception):
                    obs["error"] = f"subscriber raised {type(r).__name__}: {r}"
            final = await rstore.query_events(RUN)
            obs["final"] = [[e.sequence, e.event.value.get("uid"), e.run_id] for e in final]
            noise = await rstore.query_events(NOISE)
            obs["noise"] = [[e.sequence, e.event.value.get("uid"), e.run_id] for e in noise]
            # query_events cursor arithmetic (basis of the API's "now"/204 resolution)
            qa = {}
            for k in (-1, 0, len(final) // 2, len(final) - 1, len(final) + 2):
                qa[str(k)] = [e.sequence for e in await rstore.query_events(RUN, after_sequence=k)]
            obs["query_after"] = qa
        finally:
            closer()

    r = vclock.run(main, vt_limit=1e5)
    if not r.done:
        obs["error"] = f"script did not finish (quiescent={r.quiescent} livelock={r.livelock})"
    elif r.exception() is not None:
        e = r.exception()
        obs["error"] = f"{type(e).__name__}: {e}"
    return obs


# ------------------------------------------------------------------ oracle (from the property statement)
def expected_after(final_seqs_term: list[tuple[int, bool]], k: int) -> list[int]:
    out = []
    for seq, term in final_seqs_term:
        if seq > k:
            out.append(seq)
            if term:
                break
    return out


def judge(case: dict, obs: dict, acc: Acc, emit) -> None:
    """emit(sig, what) records a violation."""
    b = obs["backend"]
    events = case["events"]
    n = len(events)
    if obs["error"]:
        emit({"mech": "store_script_raised", "backend": b}, f"[{b}] {obs['error']}")
        return
    final = obs["final"]
    # --- (1) sequences consecutive, publication order
    acc.hit("append_order_checked")
    seqs = [f[0] for f in final]
    if seqs != list(range(n)) or any(f[2] != "run-main" for f in final):
        emit({"mech": "sequence_not_consecutive", "backend": b}, f"[{b}] stored sequences {seqs} != 0..{n - 1}")
        return
    nz = [f[0] for f in obs["noise"]]
    if nz != list(range(len(nz))) or len(nz) != sum(1 for e in events if e["noise"]):
        emit({"mech": "sequence_not_consecutive", "backend": b, "run": "other"},
             f"[{b}] second run's sequences {nz} not 0..m-1")
    seq_of = {f[1]: f[0] for f in final}
    if sorted(seq_of) != list(range(n)):
        emit({"mech": "stored_payload_mismatch", "backend": b}, f"[{b}] stored uids {[f[1] for f in final]}")
        return
    recs = obs["appends"]
    bad = None
    last_by_app: dict[int, int] = {}
    for r in recs:
        p = last_by_app.get(r["app"])
        if p is not None and seq_of[p] > seq_of[r["uid"]]:
            bad = ("per-appender", p, r["uid"])
        last_by_app[r["app"]] = r["uid"]
    for x in recs:
        for y in recs:
            if x["e"] is not None and x["e"] < y["s"] and seq_of[x["uid"]] > seq_of[y["uid"]]:
                bad = bad or ("non-overlapping", x["uid"], y["uid"])
    if bad:
        emit({"mech": "sequence_order_not_publication_order", "backend": b, "kind": bad[0]},
             f"[{b}] append of uid {bad[1]} finished before uid {bad[2]} started but got a larger sequence")
    if [seq_of[r["uid"]] for r in recs] != list(range(n)):
        acc.note("strict_call_start_order_differs")
    for ks, got in obs["query_after"].items():
        if got != [s for s in seqs if s > int(ks)]:
            emit({"mech": "query_events_after_mismatch", "backend": b},
                 f"[{b}] query_events(after_sequence={ks}) -> {got}")
    # --- (2) subscriptions
    term_of = {seq_of[uid]: events[uid]["term"] is not None for uid in range(n)}
    fst = [(s, term_of[s]) for s in seqs]
    first_term = next((s for s, t in fst if t), None)
    by_sub: dict[int, list] = {}
    for seg in obs["segments"]:
        by_sub.setdefault(seg["sub"], []).append(seg)
        acc.hit("segment_checked")
        k = seg["k"]
        got = [g[0] for g in seg["got"]]
        exp = expected_after(fst, k)
        beyond = k > seg["log_len_at_sub"] - 1
        cls = "beyond_end" if beyond else ("start" if k < 0 else "within_log")
        if beyond:
            acc.hit("cursor_beyond_end_checked")
        elif k >= 0:
            acc.hit("cursor_mid_checked")
        if any(g[0] >= seg["log_len_at_sub"] for g in seg["got"]):
            acc.hit("live_delivery_checked")
        sigbase = {"backend": b, "cursor": cls}
        # safety: got must be a prefix of exp, payloads must be the stored ones
        viol = None
        for i, g in enumerate(seg["got"]):
            s = g[0]
            if g[2] != "run-main":
                viol = ("foreign_run_event", f"event of run {g[2]} delivered")
            elif s <= k:
                viol = ("yielded_sequence_le_cursor", f"subscribe(after_sequence={k}) with {seg['log_len_at_sub']} stored events "
                                                     f"yielded sequence {s} <= {k} (delivered {got})")
            elif s in got[:i]:
                viol = ("duplicate_delivery", f"sequence {s} delivered twice: {got}")
            elif i < len(exp) and s != exp[i]:
                viol = ("gap_or_reorder", f"after k={k} expected {exp} got {got}")
            elif i >= len(exp):
                viol = ("delivered_past_terminal", f"after k={k} expected {exp} (stop after terminal) got {got}")
            elif seq_of.get(g[1]) != s:
                viol = ("payload_sequence_mismatch", f"sequence {s} carried uid {g[1]}")
            if viol:
                break
        seg["bad"] = bool(viol)
        if viol:
            emit({"mech": viol[0], **sigbase}, f"[{b}] {viol[1]}")
            continue
        lenient = first_term is not None and k >= first_term
        if lenient:
            acc.note("cursor_at_or_after_first_terminal")
        exp_terminal = bool(exp) and term_of[exp[-1]]
        if seg["end"] == "exhausted":
            acc.hit("terminal_end_checked")
            if not (got and term_of[got[-1]]):
                emit({"mech": "ended_without_terminal", **sigbase},
                     f"[{b}] subscription after k={k} ended by itself after {got} with no terminal event")
        elif seg["end"] == "open" and not lenient:
            # still subscribed when the script ended (>= 5 polls after the last append)
            if exp_terminal and got == exp:
                emit({"mech": "not_ended_after_terminal", **sigbase},
                     f"[{b}] subscription after k={k} delivered terminal {got[-1]} but did not end")
            elif got != exp:
                emit({"mech": "events_not_delivered", **sigbase},
                     f"[{b}] subscription after k={k} delivered {got}, stored events above k: {exp}")
        elif seg["end"] == "client_count" and got and term_of[got[-1]]:
            acc.hit("terminal_end_checked")
    # --- (3) resume: concatenation over the segments of one subscriber
    for j, segs in by_sub.items():
        if len(segs) < 2:
            continue
        acc.hit("resume_checked")
        k0 = segs[0]["k"]
        if (first_term is not None and k0 >= first_term) or any(s.get("bad") for s in segs):
            continue  # lenient reading / already reported with the precise mechanism
        cat = [g[0] for s in segs for g in s["got"]]
        exp = expected_after(fst, k0)
        if cat != exp[: len(cat)]:
            # per-segment checks report the precise mechanism; this is the consequence stated in the property
            emit({"mech": "resumed_stream_not_uninterrupted", "backend": b},
                 f"[{b}] subscriber {j} reconnecting with its last seen sequence saw {cat}, uninterrupted stream is {exp}")


def trace_sig(case, obs) -> str:
    return h([obs["trace"], [[s["k"], s["end"], len(s["got"])] for s in obs["segments"]]])


def nontrivial(case, obs) -> bool:
    if len(case["events"]) < 2:
        return False
    return any(s["got"] or s["k"] > s["log_len_at_sub"] - 1 for s in obs["segments"])


def check_store_case(case: dict, acc: Acc, tmp: str, backends=None) -> None:
    viols: list = []
    outs = {}
    for b in backends or BACKENDS:
        obs = run_script(case, b, tmp)
        if obs.get("runaway"):
            acc.note("runaway_subscription")
        outs[b] = obs
        before = len(viols)
        judge(case, obs, acc, lambda sig, what: viols.append((sig, what)))
        if b == "sqlite_single":
            acc.hit("sqlite_single_conn_checked")
        if b == "sqlite_two":
            acc.hit("sqlite_two_objects_checked")
        obs["clean"] = len(viols) == before
    # (4) the backends behave identically on the same script
    ref = outs.get("memory")
    if ref is not None:
        for b, obs in outs.items():
            if b == "memory" or obs["error"] or ref["error"]:
                continue
            acc.hit("backend_equal_checked")
            if not (obs["clean"] and ref["clean"]):
                continue  # already reported with the precise mechanism
            if [f[1] for f in ref["final"]] != [f[1] for f in obs["final"]]:
                # overlapping appends were scheduled differently (legitimate): the logs themselves differ, so the
                # streams are only comparable through the model (done above for each backend)
                acc.note("backend_append_schedules_differ")
                continue
            # sequences only: which uid gets which sequence may differ between backends when appends overlap
            a = [[s["sub"], s["seg"], [g[0] for g in s["got"]], s["end"]] for s in ref["segments"]]
            c = [[s["sub"], s["seg"], [g[0] for g in s["got"]], s["end"]] for s in obs["segments"]]
            # time-based disconnects may legitimately cut at different points (polling latency): compare per
            # subscriber the concatenated stream and whether it ended
            def summary(o):
                d = {}
                for s in o["segments"]:
                    e = d.setdefault(s["sub"], {"cat": [], "ended": False})
                    e["cat"] += [g[0] for g in s["got"]]
                    e["ended"] = e["ended"] or s["end"] == "exhausted" or bool(s.get("saw_terminal"))
                return d
            if a != c and summary(ref) != summary(obs):
                viols.append(({"mech": "backends_differ", "other": b},
                              f"memory vs {b}: per-subscriber streams differ {summary(ref)} vs {summary(obs)}"))
    for sig, what in viols:
        acc.violation(sig, what, case)
    if ref is not None and nontrivial(case, ref):
        acc.sig(trace_sig(case, ref))


# ------------------------------------------------------------------ API layer
def gen_api_case(rnd: random.Random, tier: str) -> dict:
    n_pre = rnd.choice([0, 1, 2, 3, 5])
    n_live = rnd.choice([0, 1, 2, 4])
    term = rnd.choice(["pre", "live", "live", "none"])
    if term == "pre":
        n_live = 0
    n = n_pre + n_live
    reqs = []
    for _ in range(rnd.randint(1, 4)):
        mode = rnd.choice(["num", "num", "now", "default", "lei", "lei_and_num", "lei_bad"])
        reqs.append({"mode": mode, "k": rnd.randint(-1, n + 2), "k2": rnd.randint(-1, n + 1),
                     "sse": rnd.random() < 0.65, "internal": rnd.random() < 0.5,
                     "start": rnd.choice(["pre", "pre", "mid"]),
                     "cut": rnd.choice([None, None, 1, 2]), "pause": rnd.choice([0, 0.05, 0.3]),
                     "drop_query": rnd.random() < 0.5})
    return {"layer": "api", "backend": rnd.choice(["memory", "sqlite"]), "n_pre": n_pre, "n_live": n_live,
            "term": term, "internal_at": sorted(rnd.sample(range(n + 1), min(2, n))),
            "status_terminal": n_live == 0 and rnd.random() < 0.5, "reqs": reqs, "poll": 0.1,
            "hb": rnd.choice([None, None, 0.3])}


def check_api_case(case: dict, acc: Acc, tmp: str) -> None:
    from vf import c16_api

    c16_api.check(case, acc, tmp)


# ------------------------------------------------------------------ shard / replay
def run_shard(shard):
    from vf import boot

    acc = Acc()
    rnd = random.Random(shard["seed"])
    tmp = boot.scratch_dir()
    try:
        for i in range(shard["n"]):
            case = gen_case(rnd, shard["tier"])
            acc.case()
            if i < 2:
                acc.sample({"poll": case["poll"], "n_events": len(case["events"]),
                            "terminal_at": [j for j, e in enumerate(case["events"]) if e["term"] is not None],
                            "subs": [{"k": s["k"], "start": s["start"], "segs": s["segs"]} for s in case["subs"]]})
            check_store_case(case, acc, tmp)
        for i in range(shard["api"]):
            if acc.info.get("runaway_subscription"):
                acc.note("api_layer_skipped_after_runaway_subscription")
                break
            case = gen_api_case(rnd, shard["tier"])
            acc.case()
            check_api_case(case, acc, tmp)
    finally:
        shutil.rmtree(tmp, ignore_errors=True)
    return acc.to_dict()


def replay(rp_file):
    from vf import boot

    acc = Acc()
    tmp = boot.scratch_dir()
    try:
        case = rp_file["case"]
        if case.get("layer") == "api":
            check_api_case(case, acc, tmp)
        else:
            check_store_case(case, acc, tmp)
    finally:
        shutil.rmtree(tmp, ignore_errors=True)
    return acc.to_dict()
