"""C19 — state stores implement the same state semantics, with isolated snapshots.

Monitor shape: model-based differential.  A random script of store operations
(get / set by dotted path, get_state, set_state replace + parent-type merge,
clear, edit_state) is generated against a plain nested-dict model written from
the property statement, then executed on the real stores:

  * memory         InMemoryStateStore
  * sqlite         SqliteStateStore through SqliteWorkflowStore.create_state_store (per-call connections)
  * sqlite_shared  the same through SqliteWorkflowStore(single_connection=True)

for both DictState and a typed Parent/Child model (vf.c19_models).  Every value
an operation returns is compared with the model, the whole state is audited
after every mutating operation (so the first diverging operation is named in
the signature), and after get_state a snapshot probe changes top-level keys /
fields of the returned object and re-reads the store.

Domain restrictions (never demand more than the statement): JSON-representable
values only, type-correct values for typed fields, dict keys without dots,
in-range non-negative list indices, writes only through containers, no
top-level DictState key that is numeric or collides with a DictState attribute.
"""
from __future__ import annotations

import copy
import os
import random
import shutil

from vf.common import Acc, h

ID = "C19"
LEVEL = "exploration"
TECHNIQUE = ("runtime monitoring: reference-model oracle (plain nested dict) over generated operation scripts on the real "
             "in-memory and SQLite state stores, with a snapshot-isolation probe after get_state")
LEVEL_TEXT = ("Randomised model-based monitoring of the public StateStore API (get/set/get_state/set_state/clear/edit_state) "
              "on InMemoryStateStore and SqliteStateStore (per-call and shared connection) for DictState and a typed "
              "Parent/Child model; every returned value and the full state after every mutation are compared with an "
              "independent nested-dict model.  Exploration is the right level: the property quantifies over all "
              "operation sequences, which can only be sampled.")
LEVEL_NOTE = ("Trusted: CPython, sqlite3, pydantic, the nested-dict model in this file. Domain restricted to JSON values, "
              "documented path forms (dict keys, in-range list indices, model fields), type-correct typed fields.")
DESIGN_REF = "§5 C19"
RULE = ("case = one generated script (<=40 ops) run on 3 store configurations; distinct = structural hash of "
        "(state kind, script); non-trivial = script has a nested (depth>=2) path operation and a get_state snapshot probe")
REQUIRED_REACH = ["get_compared", "get_missing_compared", "state_audit", "snapshot_probe", "snapshot_writeback",
                  "set_state_replace", "set_state_parent_merge", "clear_compared", "edit_state_compared",
                  "backend_memory", "backend_sqlite", "backend_sqlite_shared", "typed_cases", "dict_cases"]
ASSUMPTIONS = ["JSON-representable values, keys without '.', in-range list indices, type-correct typed fields",
               "single asyncio task per store (sequential semantics; concurrency is C20)"]
SHARD_TIMEOUT = {"quick": 300, "thorough": 1800}

BACKENDS = ["memory", "sqlite", "sqlite_shared"]

TOP_KEYS = ["a", "b", "c", "user", "cfg", "n", "k1", "é", "a b"]
NEST_KEYS = TOP_KEYS + ["0", "1", "items", "keys", "x-y", "profile", "name"]
FRESH = ["f1", "f2", "f3", "deep", "new"]
STRS = ["", "x", "héllo ☃", "line\nbreak", "quote\"s", "a.b", "0", "Ada"]
INTS = [0, 1, -1, 2, 7, 42, 2 ** 53 + 1, -(2 ** 40)]
FLOATS = [0.5, -2.5, 0.1, 1e20]
MISSING_SEG = "zz_missing"


def plan(tier, seed):
    n = 16 if tier == "quick" else 64
    per = 300 if tier == "quick" else 2000
    return [{"seed": seed * 1000 + i, "n": per} for i in range(n)]


# ----------------------------------------------------------------- values
def gen_scalar(rnd):
    r = rnd.random()
    if r < 0.1:
        return None
    if r < 0.2:
        return rnd.choice([True, False])
    if r < 0.5:
        return rnd.choice(INTS)
    if r < 0.65:
        return rnd.choice(FLOATS)
    return rnd.choice(STRS)


def gen_value(rnd, depth=2):
    r = rnd.random()
    if depth <= 0 or r < 0.5:
        return gen_scalar(rnd)
    if r < 0.75:
        return gen_dict(rnd, depth - 1)
    return gen_list(rnd, depth - 1)


def gen_dict(rnd, depth=1):
    return {rnd.choice(NEST_KEYS): gen_value(rnd, depth) for _ in range(rnd.randint(0, 3))}


def gen_list(rnd, depth=1):
    return [gen_value(rnd, depth) for _ in range(rnd.randint(0, 3))]


def gen_typed(rnd, kind):
    if kind == "int":
        return rnd.choice(INTS)
    if kind == "str":
        return rnd.choice(STRS)
    if kind == "list":
        return gen_list(rnd, 1)
    return gen_dict(rnd, 1)


# ----------------------------------------------------------------- model (plain nested dict)
class Missing(Exception):
    pass


def m_get(root, segs):
    cur = root
    for s in segs:
        if isinstance(cur, dict):
            if s not in cur:
                raise Missing
            cur = cur[s]
        elif isinstance(cur, list):
            if not s.isdigit() or int(s) >= len(cur):
                raise Missing
            cur = cur[int(s)]
        else:
            raise Missing
    return cur


def m_set(root, segs, v):
    cur = root
    for s in segs[:-1]:
        if isinstance(cur, dict):
            if s not in cur:
                cur[s] = {}
            cur = cur[s]
        else:
            cur = cur[int(s)]
    last = segs[-1]
    if isinstance(cur, dict):
        cur[last] = copy.deepcopy(v)
    else:
        cur[int(last)] = copy.deepcopy(v)


def m_inc(root, segs):
    try:
        cur = m_get(root, segs)
    except Missing:
        cur = 0
    m_set(root, segs, cur + 1)


def m_can_inc(root, segs):
    """inc is generated only where it is well-defined: absent (creatable through dicts) or a plain int."""
    cur = root
    for i, s in enumerate(segs):
        if not isinstance(cur, dict):
            return False
        if s not in cur:
            return True
        cur = cur[s]
    return isinstance(cur, int) and not isinstance(cur, bool)


def initial_root(typed):
    from vf.c19_models import child_defaults

    return child_defaults() if typed else {}


def apply_model(root, typed, op):
    """Apply a mutating op to the model root; returns the new root."""
    from vf.c19_models import child_defaults, parent_defaults

    k = op["k"]
    if k == "set":
        m_set(root, op["p"], op["v"])
    elif k == "clear":
        root = initial_root(typed)
    elif k == "set_state":
        if op["cls"] == "DictState":
            root = copy.deepcopy(op["f"])
        elif op["cls"] == "Child":
            root = {**child_defaults(), **copy.deepcopy(op["f"])}
        else:  # Parent given to a Child store: parent fields merged, child fields kept
            root = {**root, **parent_defaults(), **copy.deepcopy(op["f"])}
    elif k == "edit":
        for s in op["sub"]:
            if "inc" in s:
                m_inc(root, s["inc"])
            else:
                m_set(root, s["p"], s["v"])
    return root


# ----------------------------------------------------------------- script generation
def _children(cur):
    if isinstance(cur, dict):
        return list(cur.keys())
    if isinstance(cur, list):
        return [str(i) for i in range(len(cur))]
    return []


def gen_existing_path(rnd, root, min_len=1):
    segs, cur = [], root
    while True:
        ch = _children(cur)
        if not ch:
            break
        s = rnd.choice(ch)
        segs.append(s)
        cur = cur[s] if isinstance(cur, dict) else cur[int(s)]
        if len(segs) >= min_len and rnd.random() < 0.45:
            break
    return segs


def gen_set_path(rnd, root, typed):
    """Path valid for set: existing containers only, fresh keys only under dicts.
    Returns (segs, field_kind or None)."""
    from vf.c19_models import CHILD_FIELDS

    segs, cur = [], root
    while True:
        if isinstance(cur, dict):
            top = not segs
            existing = list(cur.keys())
            if typed and top:
                s = rnd.choice(existing)
            elif existing and rnd.random() < 0.6:
                s = rnd.choice(existing)
            else:
                s = rnd.choice(TOP_KEYS if top else NEST_KEYS + FRESH)
            segs.append(s)
            if s not in cur:
                for _ in range(rnd.choice([0, 0, 1, 2])):
                    segs.append(rnd.choice(NEST_KEYS + FRESH))
                break
            child = cur[s]
        else:  # non-empty list
            s = str(rnd.randrange(len(cur)))
            segs.append(s)
            child = cur[int(s)]
        if isinstance(child, dict) and rnd.random() < 0.65:
            cur = child
            continue
        if isinstance(child, list) and child and rnd.random() < 0.5:
            cur = child
            continue
        break
    kind = CHILD_FIELDS[segs[0]] if (typed and len(segs) == 1) else None
    return segs, kind


def gen_missing_path(rnd, root):
    segs = gen_existing_path(rnd, root, min_len=0) if rnd.random() < 0.7 else []
    if segs:
        cut = rnd.randint(0, len(segs))
        segs = segs[:cut]
    try:
        cur = m_get(root, segs)
    except Missing:  # cannot happen, defensive
        cur, segs = root, []
    if isinstance(cur, list) and rnd.random() < 0.5:
        return segs + [str(len(cur) + rnd.randint(0, 2))]
    return segs + [MISSING_SEG]


def gen_probe(rnd, root, typed):
    if typed:
        f = rnd.choice(["count", "name", "tags", "extra"])
        v = {"count": 987654321, "extra": 123456789, "name": "__probe__", "tags": ["__probe__"]}[f]
        return {"field": f, "v": v, "writeback": rnd.random() < 0.3}
    existing = [k for k in root.keys()]
    return {"existing": rnd.choice(existing) if existing and rnd.random() < 0.8 else None,
            "new": "probe_new", "style": rnd.choice(["item", "attr"]), "writeback": rnd.random() < 0.3}


def gen_script(rnd, typed, n_ops):
    from vf.c19_models import CHILD_FIELDS, PARENT_FIELDS

    root = initial_root(typed)
    ops = []
    for i in range(n_ops):
        r = rnd.random()
        if i == 0 and rnd.random() < 0.35:
            r = rnd.choice([0.73, 0.8, 0.85, 0.9])  # sometimes start with set_state / clear / edit (row absent)
        if r < 0.22:
            segs = gen_existing_path(rnd, root)
            if not segs:
                continue
            op = {"k": "get", "p": segs, "default": rnd.random() < 0.3}
        elif r < 0.30:
            op = {"k": "get_missing", "p": gen_missing_path(rnd, root), "default": rnd.random() < 0.5,
                  "dv": rnd.choice([None, 0, "dflt", [], {"d": 1}])}
        elif r < 0.58:
            segs, kind = gen_set_path(rnd, root, typed)
            v = gen_typed(rnd, kind) if kind else gen_value(rnd)
            op = {"k": "set", "p": segs, "v": v}
        elif r < 0.60:
            op = {"k": "set_empty"}
        elif r < 0.72:
            op = {"k": "get_state", "probe": gen_probe(rnd, root, typed) if rnd.random() < 0.8 else None}
        elif r < 0.82:
            if typed:
                cls = rnd.choice(["Child", "Parent", "Parent"])
                fields = CHILD_FIELDS if cls == "Child" else PARENT_FIELDS
                f = {k: gen_typed(rnd, kind) for k, kind in fields.items() if rnd.random() < 0.6}
                op = {"k": "set_state", "cls": cls, "f": f}
            else:
                op = {"k": "set_state", "cls": "DictState",
                      "f": {rnd.choice(TOP_KEYS): gen_value(rnd) for _ in range(rnd.randint(0, 4))}}
        elif r < 0.87:
            op = {"k": "clear"}
        else:
            sub = []
            scratch = copy.deepcopy(root)
            for _ in range(rnd.randint(1, 4)):
                if rnd.random() < 0.35:
                    cand = rnd.choice([["count"], ["extra"], ["meta", "n"], ["notes", "cfg", "n"]] if typed
                                      else [["n"], ["cfg", "n"], ["user", "profile", "n"]])
                    if m_can_inc(scratch, cand):
                        sub.append({"inc": cand})
                        m_inc(scratch, cand)
                        continue
                segs, kind = gen_set_path(rnd, scratch, typed)
                v = gen_typed(rnd, kind) if kind else gen_value(rnd)
                sub.append({"p": segs, "v": v})
                m_set(scratch, segs, v)
            op = {"k": "edit", "sub": sub}
        ops.append(op)
        if op["k"] in ("set", "set_state", "clear", "edit"):
            root = apply_model(root, typed, op)
        elif op["k"] == "get_state" and op["probe"] and op["probe"]["writeback"]:
            root = apply_probe_model(root, typed, op["probe"])
    return {"typed": typed, "ops": ops}


def apply_probe_model(root, typed, probe):
    root = copy.deepcopy(root)
    if typed:
        root[probe["field"]] = copy.deepcopy(probe["v"])
    else:
        if probe["existing"] is not None and probe["existing"] in root:
            root[probe["existing"]] = "__probe_existing__"
        root[probe["new"]] = "__probe_new__"
    return root


def is_nontrivial(case):
    nested = any((op["k"] in ("get", "set") and len(op["p"]) >= 2) or
                 (op["k"] == "edit" and any(len(s.get("p", s.get("inc"))) >= 2 for s in op["sub"]))
                 for op in case["ops"])
    probe = any(op["k"] == "get_state" and op["probe"] for op in case["ops"])
    return nested and probe


# ----------------------------------------------------------------- real-store helpers
def typed_eq(a, b):
    """Equality that also distinguishes bool / int / float (stricter reading, informational only)."""
    if type(a) is not type(b):
        return False
    if isinstance(a, dict):
        return a.keys() == b.keys() and all(typed_eq(a[k], b[k]) for k in a)
    if isinstance(a, list):
        return len(a) == len(b) and all(typed_eq(x, y) for x, y in zip(a, b))
    return a == b


def extract(snap, typed):
    """Plain-dict image of a state object returned by the store."""
    if typed:
        return snap.model_dump()
    return dict(snap.items())


def real_root_get(state, typed, key):
    if typed:
        return getattr(state, key)
    if key not in state:
        raise Missing
    return state[key]


def real_root_set(state, typed, key, v):
    if typed:
        setattr(state, key, v)
    else:
        state[key] = v


def real_set(state, typed, segs, v):
    """What a user does inside `async with store.edit_state() as state:` — plain Python on the state object."""
    v = copy.deepcopy(v)
    if len(segs) == 1:
        real_root_set(state, typed, segs[0], v)
        return
    try:
        cur = real_root_get(state, typed, segs[0])
    except Missing:
        cur = {}
        real_root_set(state, typed, segs[0], cur)
    for s in segs[1:-1]:
        if isinstance(cur, dict):
            if s not in cur:
                cur[s] = {}
            cur = cur[s]
        else:
            cur = cur[int(s)]
    if isinstance(cur, dict):
        cur[segs[-1]] = v
    else:
        cur[int(segs[-1])] = v


def real_get(state, typed, segs):
    cur = real_root_get(state, typed, segs[0])
    for s in segs[1:]:
        if isinstance(cur, dict):
            if s not in cur:
                raise Missing
            cur = cur[s]
        else:
            cur = cur[int(s)]
    return cur


def real_inc(state, typed, segs):
    try:
        cur = real_get(state, typed, segs)
    except Missing:
        cur = 0
    real_set(state, typed, segs, cur + 1)


def build_state(cls, fields):
    from workflows.context.state_store import DictState

    from vf.c19_models import Child, Parent

    f = copy.deepcopy(fields)
    if cls == "DictState":
        return DictState(**f)
    return (Child if cls == "Child" else Parent)(**f)


class Abort(Exception):
    """stop this backend for this case (a violation was already recorded and the store is out of sync)"""


def _closed_conn(exc):
    import sqlite3

    return isinstance(exc, sqlite3.ProgrammingError) and "closed" in str(exc).lower()


async def run_backend(case, backend, store, acc, vcase):
    """Run the script on one real store next to the model.  Records violations in acc."""
    typed = case["typed"]
    skind = "typed" if typed else "dict"
    root = initial_root(typed)
    row_existed = False  # has any operation touched the run's state before (SQLite row present)?
    _MISS = object()

    pos = [0]

    def viol(sig, what):
        # witness = the script prefix up to and including the operation at which the monitor fired
        acc.violation({**sig, "backend": backend, "state": skind}, f"[{backend}/{skind}] {what}",
                      {**vcase, "ops": case["ops"][: pos[0] + 1]})

    async def guarded(opname, coro):
        try:
            return await coro
        except Exception as e:  # noqa: BLE001
            if _closed_conn(e):
                viol({"mech": "shared_connection_closed", "op": "any"},
                     f"{opname} raised {type(e).__name__}: {e} (store object unusable after an earlier state-store operation)")
            else:
                viol({"mech": "op_raised", "op": opname, "exc": type(e).__name__}, f"{opname} raised {type(e).__name__}: {e}")
            raise Abort from e

    async def audit(after, first):
        """full-state comparison; `after` names the mutating op that ran just before"""
        snap = await guarded("get_state", store.get_state())
        acc.hit("state_audit")
        got = extract(snap, typed)
        if got != root:
            viol({"mech": "state_mismatch_after_op", "op": after, "row_existed": not first},
                 f"state after {after} is {type(snap).__name__} {_short(got)} but the model says {_short(root)}")
            raise Abort
        if typed and type(snap).__name__ != "Child":
            acc.note(f"typed_state_wrong_class_{backend}")
        if not typed_eq(got, root):
            acc.note(f"value_type_changed_{backend}")
        return snap

    for i, op in enumerate(case["ops"]):
        pos[0] = i
        k = op["k"]
        acc.hit(f"backend_{backend}")
        if k == "get":
            path = ".".join(op["p"])
            exp = m_get(root, op["p"])
            got = await guarded("get", store.get(path, default="__d__") if op["default"] else store.get(path))
            acc.hit("get_compared")
            if got != exp:
                viol({"mech": "get_value_mismatch"}, f"get({path!r}) returned {_short(got)}, model {_short(exp)}")
                raise Abort
            if not typed_eq(got, exp):
                acc.note(f"value_type_changed_{backend}")
            row_existed = True
        elif k == "get_missing":
            path = ".".join(op["p"])
            acc.hit("get_missing_compared")
            try:
                if op["default"]:
                    got = await store.get(path, default=copy.deepcopy(op["dv"]))
                    if got != op["dv"]:
                        viol({"mech": "get_missing_path_wrong_outcome", "with_default": True},
                             f"get({path!r}, default={op['dv']!r}) on a missing path returned {_short(got)}")
                        raise Abort
                else:
                    got = await store.get(path)
                    viol({"mech": "get_missing_path_wrong_outcome", "with_default": False},
                         f"get({path!r}) on a missing path returned {_short(got)} instead of raising ValueError")
                    raise Abort
            except ValueError:
                if op["default"]:
                    viol({"mech": "get_missing_path_wrong_outcome", "with_default": True},
                         f"get({path!r}, default=...) raised ValueError on a missing path")
                    raise Abort
            except Abort:
                raise
            except Exception as e:  # noqa: BLE001
                await guarded("get", _reraise(e))
            row_existed = True
        elif k == "set":
            path = ".".join(op["p"])
            await guarded("set", store.set(path, copy.deepcopy(op["v"])))
            root = apply_model(root, typed, op)
            await audit("set", not row_existed)
            row_existed = True
        elif k == "set_empty":
            try:
                await store.set("", 1)
                viol({"mech": "set_empty_path_accepted"}, "set('') did not raise ValueError")
                raise Abort
            except ValueError:
                pass
            except Abort:
                raise
            except Exception as e:  # noqa: BLE001
                await guarded("set", _reraise(e))
        elif k == "set_state":
            new = build_state(op["cls"], op["f"])
            await guarded("set_state", store.set_state(new))
            root = apply_model(root, typed, op)
            name = "set_state_parent" if op["cls"] == "Parent" else "set_state"
            acc.hit("set_state_parent_merge" if op["cls"] == "Parent" else "set_state_replace")
            await audit(name, not row_existed)
            row_existed = True
        elif k == "clear":
            await guarded("clear", store.clear())
            root = apply_model(root, typed, op)
            acc.hit("clear_compared")
            await audit("clear", not row_existed)
            row_existed = True
        elif k == "edit":
            async def _edit():
                async with store.edit_state() as st:
                    for s in op["sub"]:
                        if "inc" in s:
                            real_inc(st, typed, s["inc"])
                        else:
                            real_set(st, typed, s["p"], s["v"])
            await guarded("edit_state", _edit())
            root = apply_model(root, typed, op)
            acc.hit("edit_state_compared")
            await audit("edit_state", not row_existed)
            row_existed = True
        elif k == "get_state":
            snap = await audit("get_state", not row_existed)
            row_existed = True
            probe = op["probe"]
            if not probe:
                continue
            # ---- snapshot probe: change top-level keys / fields of the returned object, re-read the store
            if typed:
                setattr(snap, probe["field"], copy.deepcopy(probe["v"]))
                via = "field"
            else:
                via = "key"
                if probe["existing"] is not None and probe["existing"] in snap:
                    if probe["style"] == "attr" and probe["existing"].isidentifier():
                        setattr(snap, probe["existing"], "__probe_existing__")
                    else:
                        snap[probe["existing"]] = "__probe_existing__"
                snap[probe["new"]] = "__probe_new__"
            acc.hit("snapshot_probe")
            again = extract(await guarded("get_state", store.get_state()), typed)
            leaked = again != root
            if leaked:
                viol({"mech": "snapshot_not_isolated", "via": via},
                     f"changing a top-level {via} of the object returned by get_state() changed the store: "
                     f"store now {_short(again)}, model {_short(root)}")
            if probe["writeback"]:
                await guarded("set_state", store.set_state(snap))
                root = apply_probe_model(root, typed, probe)
                acc.hit("snapshot_writeback")
                await audit("set_state_writeback", False)
            elif leaked:
                # bring the store back in line with the model through the public API and go on
                await guarded("set_state", store.set_state(build_state("Child" if typed else "DictState", root)))
                await audit("resync", False)

    # ---- informational: nested mutation of a snapshot (shallow copy is documented; not a verdict)
    snap = await guarded("get_state", store.get_state())
    img = extract(snap, typed)
    for key, val in img.items():
        if isinstance(val, dict):
            real_root_get(snap, typed, key)["__nested_probe__"] = 1
        elif isinstance(val, list):
            real_root_get(snap, typed, key).append("__nested_probe__")
        else:
            continue
        again = extract(await guarded("get_state", store.get_state()), typed)
        if again != root:
            acc.note(f"nested_snapshot_mutation_visible_{backend}")
        break


async def _reraise(e):
    raise e


def _short(x, n=160):
    s = repr(x)
    return s if len(s) <= n else s[:n] + "…"


# ----------------------------------------------------------------- shard driver
class Env:
    def __init__(self):
        from vf import boot

        self.dir = boot.scratch_dir()
        self.counter = 0
        self.shared_stores = []

    def make_store(self, backend, typed):
        from llama_agents.server._store.sqlite.sqlite_workflow_store import SqliteWorkflowStore
        from workflows.context.state_store import DictState, InMemoryStateStore

        from vf.c19_models import Child

        self.counter += 1
        run_id = f"run-{self.counter}"
        if backend == "memory":
            return InMemoryStateStore(Child() if typed else DictState())
        st = Child if typed else None
        if backend == "sqlite":
            if not hasattr(self, "_ws"):
                import sqlite3

                path = os.path.join(self.dir, "percall.db")
                self._ws = SqliteWorkflowStore(path)
                # The migrations switch the file to WAL; closing the *last* connection checkpoints and unlinks
                # the WAL (~2 ms).  An idle second connection (as any server process has) avoids that cost and
                # does not change what committed reads return.
                self._keeper = sqlite3.connect(path)
                self._keeper.execute("SELECT count(*) FROM workflow_state").fetchall()
            return self._ws.create_state_store(run_id, st)
        ws = SqliteWorkflowStore(os.path.join(self.dir, "shared.db"), single_connection=True)
        self.shared_stores.append(ws)
        return ws.create_state_store(run_id, st)

    def end_case(self):
        for ws in self.shared_stores:
            try:
                if ws._persistent_conn is not None:
                    ws._persistent_conn.close()
            except Exception:  # noqa: BLE001
                pass
        self.shared_stores = []

    def close(self):
        self.end_case()
        try:
            if hasattr(self, "_keeper"):
                self._keeper.close()
        except Exception:  # noqa: BLE001
            pass
        shutil.rmtree(self.dir, ignore_errors=True)


async def run_case(case, env, acc, backends=BACKENDS):
    for b in backends:
        store = env.make_store(b, case["typed"])
        try:
            await run_backend(case, b, store, acc, {**case, "backends": [b]})
        except Abort:
            pass
        finally:
            env.end_case()


async def numeric_top_level_note(env, acc):
    """Informational: a numeric top-level DictState key ('0') — ambiguous in the docs, so never a verdict."""
    out = {}
    for b in ("memory", "sqlite"):
        s = env.make_store(b, False)
        try:
            await s.set("0", 5)
            out[b] = await s.get("0", default="__absent__")
        except Exception as e:  # noqa: BLE001
            out[b] = type(e).__name__
    if out["memory"] != out["sqlite"]:
        acc.note("numeric_top_level_key_memory_vs_sqlite_differ")


def run_shard(shard):
    import asyncio

    acc = Acc()
    rnd = random.Random(shard["seed"])
    env = Env()

    async def main():
        await numeric_top_level_note(env, acc)
        for ci in range(shard["n"]):
            typed = rnd.random() < 0.45
            # the first scripts of a shard are short so that the witnesses kept per signature are small
            case = gen_script(rnd, typed, rnd.randint(1, 5) if ci < 20 else rnd.randint(4, 40))
            acc.case()
            acc.hit("typed_cases" if typed else "dict_cases")
            if is_nontrivial(case):
                acc.sig(h(case))
            if len(case["ops"]) <= 8:
                acc.sample(case)
            await run_case(case, env, acc)

    try:
        asyncio.run(main())
    finally:
        env.close()
    return acc.to_dict()


def replay(rp_file):
    import asyncio

    acc = Acc()
    env = Env()
    case = rp_file["case"]
    try:
        asyncio.run(run_case({"typed": case["typed"], "ops": case["ops"]}, env, acc, case.get("backends", BACKENDS)))
    finally:
        env.close()
    return acc.to_dict()
