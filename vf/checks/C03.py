"""C03 — queued work never stalls; idleness is reported only when truly idle."""
from vf import engine_check

ID = "C03"
LEVEL = "exploration"
VCLOCK = True
TECHNIQUE = ("runtime monitoring: reducer-state postcondition (queued => full capacity) on every live tick and an invariant hook at the instant "
             "every WorkflowIdleEvent / UnhandledEvent(idle) is published, reading the control loop's scheduled wakeups, tick buffer and receive queue")
LEVEL_TEXT = ("Generated graphs with delayed retry policies, waiters, fan-out and external sends timed onto worker completions; the idle oracle is "
              "evaluated inside a wrapper of the run's write_to_event_stream, i.e. exactly when the announcement becomes observable; a black-box "
              "cross-check forbids step starts after a clean idle announcement without new external input.")
LEVEL_NOTE = ("Trusted: virtual clock, probes on _ControlLoopRunner.__init__ and InternalAsyncioAdapter.write_to_event_stream (attached from /verif). "
              "A tick held by an already finished pull task is not visible to the snapshot; the black-box cross-check covers that case.")
DESIGN_REF = "§5 C03"
RULE = ("case = generated program (fan / wait / outcomes families) + schedule; distinct = tick-order signature hash; non-trivial = the run "
        "published at least one idle announcement or had a queued step state")
REQUIRED_REACH = ["stall_eval", "queued_state", "idle_publication", "idle_publication_clean", "family_fan", "family_wait", "family_busyretry", "retry_overdue_when_loop_regained_control", "retry_due_while_steps_never_await", "failure_around_the_step_body", "family_waitretry"]
ASSUMPTIONS = ["waiter timeouts are not among the property's idle disqualifiers and are exempt in the black-box cross-check"]
FAMILIES = [("fan", 3), ("wait", 2), ("outcomes", 1), ("busyretry", 1), ("waitretry", 1)]


def plan(tier, seed):
    return engine_check.std_plan(tier, seed, quick_per=120, thorough_per=1500)


def _oracles():
    from vf import oracles

    return [oracles.c03]


def _nontrivial(tr):
    return any(p["etype"] == "WorkflowIdleEvent" for p in tr.pubs) or any(st["q"] for t in tr.ticks for st in t["post"].values())


def run_shard(shard):
    return engine_check.run_shard(shard, FAMILIES, _oracles(), _nontrivial)


def replay(rp):
    return engine_check.replay(rp, _oracles())
