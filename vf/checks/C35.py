"""C35 — step lifecycle telemetry on the stream is balanced and ordered."""
from vf import engine_check

ID = "C35"
LEVEL = "exploration"
VCLOCK = True
TECHNIQUE = "runtime monitoring: offline per-(step, worker) automaton over the consumed event stream (expose_internal=True) with unique event ids"
LEVEL_TEXT = ("Every generated run's stream is checked by an automaton: RUNNING/NOT_RUNNING alternate per worker slot starting with RUNNING, PREPARING is "
              "followed by a RUNNING of that step, open RUNNINGs only when the run ended first, returned InputRequiredEvents appear exactly once.")
LEVEL_NOTE = "Trusted: the stream consumer (real handler.stream_events), virtual clock. 'Unless the run ends first' = the handler finished."
DESIGN_REF = "§5 C35"
RULE = "case = generated program (fan / wait / hitl_ret / outcomes) + schedule; distinct = tick-order signature hash; non-trivial = a PREPARING was seen or an InputRequiredEvent returned"
REQUIRED_REACH = ["ssc_event", "preparing_seen", "input_required_returned", "family_fan", "family_hitl_ret", "family_collect", "family_syncfan", "verbose_workflow"]
ASSUMPTIONS = []
FAMILIES = [("fan", 3), ("wait", 1), ("hitl_ret", 2), ("outcomes", 1), ("collect", 2), ("syncfan", 1)]


def plan(tier, seed):
    return engine_check.std_plan(tier, seed, quick_per=120, thorough_per=1500)


def _oracles():
    from vf import oracles

    return [oracles.c35]


def _nontrivial(tr):
    return any(e.get("ssc") and e["ssc"][1] == "PREPARING" for e in tr.stream) or any(e["type"] in ("Ask", "Ask2") for e in tr.stream)


def run_shard(shard):
    import random

    from vf.common import Acc

    acc = Acc()
    for i in range(shard["n"]):
        case = engine_check.gen_case(shard["seed"] + i, FAMILIES)
        if random.Random(case["seed"] ^ 0xC35).random() < 0.2:
            # Workflow(verbose=True): a logging decorator sits between the control loop and the published stream
            case["spec"]["verbose"] = True
            acc.hit("verbose_workflow")
        engine_check.run_one(case, acc, _oracles(), _nontrivial)
    return acc.to_dict()


def replay(rp):
    return engine_check.replay(rp, _oracles())
