"""C35 — step lifecycle telemetry on the stream is balanced and ordered."""
from vf import engine_check

ID = "C35"
LEVEL = "exploration"
VCLOCK = True
TECHNIQUE = "runtime monitoring: offline per-(step, worker) automaton over the consumed event stream (expose_internal=True) with unique event ids"
LEVEL_TEXT = ("Every generated run's stream is checked by an automaton: RUNNING/NOT_RUNNING alternate per worker slot starting with RUNNING, PREPARING is "
              "followed by a RUNNING of that step, open RUNNINGs only when the run ended first, returned InputRequiredEvents appear exactly once.")
LEVEL_NOTE = "Trusted: the stream consumer (real handler.stream_events), virtual clock. 'Unless the run ends first' = the handler finished."
DESIGN_REF = "§5 C35"
RULE = "case = generated program (fan / wait / hitl_ret / outcomes) + schedule; distinct = tick-order signature hash; non-trivial = a PREPARING was seen or an InputRequiredEvent returned"
REQUIRED_REACH = ["ssc_event", "preparing_seen", "input_required_returned", "family_fan", "family_hitl_ret", "family_collect", "family_syncfan", "verbose_workflow", "resumed_run_with_pending_work"]
ASSUMPTIONS = []
FAMILIES = [("fan", 3), ("wait", 1), ("hitl_ret", 2), ("outcomes", 1), ("collect", 2), ("syncfan", 1)]


def plan(tier, seed):
    return engine_check.std_plan(tier, seed, quick_per=120, thorough_per=1500)


def _oracles():
    from vf import oracles

    return [oracles.c35]


def _nontrivial(tr):
    return any(e.get("ssc") and e["ssc"][1] == "PREPARING" for e in tr.stream) or any(e["type"] in ("Ask", "Ask2") for e in tr.stream)


def run_shard(shard):
    import random

    from vf.common import Acc

    acc = Acc()
    for i in range(shard["n"]):
        case = engine_check.gen_case(shard["seed"] + i, FAMILIES)
        if random.Random(case["seed"] ^ 0xC35).random() < 0.2:
            # Workflow(verbose=True): a logging decorator sits between the control loop and the published stream
            case["spec"]["verbose"] = True
            acc.hit("verbose_workflow")
        engine_check.run_one(case, acc, _oracles(), _nontrivial, post=_resumed_phase)
    return acc.to_dict()


def _resumed_phase(case, tr0, acc):
    """the same telemetry rules on a run RESTORED from a serialized context that still holds running / queued work: the invocations
    re-initiated at start-up are step invocations like any other (RUNNING, or PREPARING then RUNNING, before their NOT_RUNNING)"""
    import json
    import random

    from vf import engine_run, oracles
    from workflows import Context

    rnd = random.Random(case["seed"] ^ 0x35AA)
    if rnd.random() > 0.3 or len(tr0.ticks) < 4 or case["spec"].get("responders") or any(s_.get("sync") for s_ in case["spec"]["steps"]):
        return
    _tr, snaps = engine_run.run_with_snapshots(case["spec"])
    cands = [e for e in snaps if e.get("snap") and e["snap"].get("is_running") and any(w["in_progress"] or w["queue"] for w in e["snap"]["workers"].values())]
    if not cands:
        return
    ent = rnd.choice(cands)
    snap = ent["snap"]
    spec2 = {**json.loads(json.dumps(case["spec"])), "uid_base": 1000, "externals": []}
    tr2 = engine_run.run_case(spec2, ctx_factory=lambda w: Context.from_dict(w, json.loads(json.dumps(snap))), start=False)
    acc.case()
    if tr2.errors:
        return
    acc.hit("resumed_run_with_pending_work")
    if any(len(w["queue"]) for w in snap["workers"].values()):
        acc.hit("resumed_run_with_queued_work")

    class _A:
        def __getattr__(self, n):
            return getattr(acc, n)

        def violation(self, sig, what, c):
            acc.violation({**sig, "resumed": True}, f"[run restored from a snapshot taken at yield {ent['k']}] " + what, {"case": {**case, "snap": snap, "k": ent["k"]}, "phase": "resumed"})

    oracles.c35(tr2, _A(), {"case": case})


def replay(rp):
    if rp["case"].get("phase") == "resumed":
        import json

        from vf import engine_run, oracles
        from vf.common import Acc
        from workflows import Context

        c = rp["case"]["case"]
        acc = Acc()
        tr2 = engine_run.run_case({**c["spec"], "uid_base": 1000, "externals": []}, ctx_factory=lambda w: Context.from_dict(w, json.loads(json.dumps(c["snap"]))), start=False)
        oracles.c35(tr2, acc, rp["case"])
        return acc.to_dict()
    return engine_check.replay(rp, _oracles())
