"""C27 — DBOS recovery replays a run to the same execution (mechanism level: journalled task-completion order)."""
import asyncio
import json
import os
import random
import shutil
import sqlite3

from vf.common import Acc, h

ID = "C27"
LEVEL = "fault_enumeration"
VCLOCK = True
TECHNIQUE = ("runtime monitoring of the recovery mechanism the property names: the real InternalDBOSAdapter.wait_for_next_task + TaskJournal + SqliteJournalCrud "
             "(real SQLite journal table) are grafted onto the in-memory run adapter so that the real control loop runs through them; every journal prefix is "
             "a stop point; the recovery run re-executes the program with DIFFERENT step latencies; oracle: consumed completion order, replayed ticks, result")
LEVEL_TEXT = ("For each generated deterministic program run 1 records the journal; for EVERY prefix length p the journal is cut to p entries (process stop after "
              "p journalled completions) and the program is re-executed with perturbed latencies: the first p completions must be consumed in the recorded "
              "order, the ticks of the replayed part and the final result must equal run 1, and the journal must stay a gap-free extension of the prefix.")
LEVEL_NOTE = ("PARTIAL: the dbos / sqlalchemy / asyncpg packages are absent and unfetchable, so DBOSRuntime itself (durable recv/streams, step memoisation, "
              "cross-process recovery) cannot run; only the journal-driven ordering mechanism is exercised, on a substitute base adapter. Scaffolding: a dummy "
              "operation_outputs table (DBOS's own), a stub DBOS context (function_id), programs that communicate only through returned events so that no "
              "durable mailbox is needed. The end-to-end statement (published events of a real recovered DBOS workflow) is NOT decided.")
DESIGN_REF = "§5 C27"
RULE = "case = (deterministic program, journal prefix length p, latency perturbation seed); all p enumerated per program; distinct = hash(program seed, p); non-trivial = p >= 1 and the perturbed run would have completed tasks in another order"
REQUIRED_REACH = ["recording_run", "recovery_run", "replayed_completions_eval", "order_would_differ_without_journal", "result_compare", "journal_integrity_eval",
                  "driver_recording_run", "driver_recovery_run", "driver_replayed_completions_eval", "replay_wait_timed_out_before_expected_task"]
ASSUMPTIONS = ["substitute stack, see level_note", "engine-level programs have no timers (retry delays 0, no waiter timeouts); finite wake-up timeouts during replay are exercised by the second family, a mini control loop on the real InternalDBOSAdapter with random wait timeouts and deterministic spawning"]


def plan(tier, seed):
    n = 16 if tier == "quick" else 32
    per = 6 if tier == "quick" else 50
    return [{"seed": seed * 1_000_000 + i * 10_000, "n": per} for i in range(n)]


def gen_case(seed):
    from vf import gen

    rnd = random.Random(seed)
    spec = gen.gen_det(rnd)
    spec["sched_seed"] = seed
    # no timers in the program: a real DBOS recovery returns memoised step results instantly and replays get_now(), so the
    # relative order of timer ticks and completions is not something this substitute (which re-executes steps) can reproduce
    for st in spec["steps"]:
        if st.get("retry") and "wait" in st["retry"]:
            st["retry"]["wait"] = {"k": "fixed", "w": 0}
    return {"seed": seed, "spec": spec}


def perturb(spec, seed):
    rnd = random.Random(seed)
    s2 = json.loads(json.dumps(spec))
    for st in s2["steps"]:
        for a in st["acts"]:
            if a["k"] == "sleep":
                if isinstance(a["d"], list):
                    a["d"] = [rnd.choice([0, 0.25, 0.5, 1, 2, 3]) for _ in a["d"]]
                else:
                    a["d"] = rnd.choice([0, 0.25, 0.5, 1, 2, 3])
    return s2


_GRAFT = {}


def graft_runtime(db_path):
    """BasicRuntime whose internal run adapter orders task completions through the real DBOS journal code."""
    import workflows.plugins.basic as basic
    from llama_agents.dbos import runtime as drt

    class GraftAdapter(basic.InternalAsyncioAdapter):
        wait_for_next_task = drt.InternalDBOSAdapter.wait_for_next_task
        _get_or_create_journal = drt.InternalDBOSAdapter._get_or_create_journal
        _purge_orphaned_operations = drt.InternalDBOSAdapter._purge_orphaned_operations
        is_replaying = drt.InternalDBOSAdapter.is_replaying

        def __init__(self, queues):
            super().__init__(queues)
            self._run_id = queues.run_id
            self._db_path = db_path
            self._resolved_pool = None
            self._pool_provider = None
            self._schema = None
            self._journal_table_name = drt.DEFAULT_JOURNAL_TABLE_NAME
            self._journal = None
            self._orphan_purge_done = False

    class GraftRuntime(basic.BasicRuntime):
        def __init__(self):
            super().__init__()
            self._adapters = {}

        def get_internal_adapter(self, workflow):
            run_id = basic.get_current_run_id()
            ad = self._adapters.get(run_id)
            if ad is None:
                ad = self._adapters[run_id] = GraftAdapter(self._queues[run_id])
            return ad

    return GraftRuntime()


def init_db(db):
    repo = os.environ.get("VERIF_REPO", "/repo")
    conn = sqlite3.connect(db)
    conn.executescript(open(os.path.join(repo, "packages/llama-agents-dbos/src/llama_agents/dbos/_store/sqlite/migrations/0001_init.sql")).read())
    conn.execute("CREATE TABLE IF NOT EXISTS operation_outputs (workflow_uuid TEXT, function_id INTEGER, output TEXT)")
    conn.commit()
    conn.close()


def journal_rows(db, run_id):
    conn = sqlite3.connect(db)
    try:
        return conn.execute("SELECT seq_num, task_key FROM workflow_journal WHERE run_id = ? ORDER BY id", (run_id,)).fetchall()
    finally:
        conn.close()


def run_program(spec, db, run_id):
    from vf import engine_run, programs

    rt = graft_runtime(db)
    wf = programs.make_instance(spec, runtime=rt)
    tr = engine_run.run_case({**spec, "run_id": run_id}, wf=wf)
    return tr


def tick_image(tr, upto_results=None):
    out = []
    n = 0
    for t in tr.ticks:
        # events are identified by their lineage value `v` (the harness' emission counter `uid` depends on body start order)
        out.append((t["tick"], t.get("step"), t.get("wid"), t.get("etype"), str((t.get("efields") or {}).get("v")), tuple(t.get("results") or ())))
        if t["tick"] == "TickStepResult":
            n += 1
            if upto_results is not None and n >= upto_results:
                break
    return out


def run_one(case, acc, only_p=None):
    from vf import boot

    d = boot.scratch_dir()
    try:
        db0 = os.path.join(d, "rec.db")
        init_db(db0)
        tr1 = run_program(case["spec"], db0, "R")
        if tr1.errors or tr1.outcome is None:
            acc.inconclusive.append(f"recording run failed seed={case['seed']}: {tr1.errors[:1]} {tr1.outcome}")
            return
        acc.hit("recording_run")
        rows = journal_rows(db0, "R")
        keys = [k for _s, k in rows]
        work_keys = [k for k in keys if not k.startswith("__pull__")]
        if [s for s, _k in rows] != list(range(len(rows))):
            acc.violation({"mech": "journal_sequence_not_consecutive", "phase": "recording"}, f"journal seq_nums {rows}", {"case": case})
        results1 = [(t["step"], t["wid"]) for t in tr1.ticks if t["tick"] == "TickStepResult"]
        if [f"{s}:{w}" for s, w in results1][: len(work_keys)] != work_keys:
            acc.violation({"mech": "journal_differs_from_processed_completions", "phase": "recording"},
                          f"journal {work_keys} vs processed step results {results1}", {"case": case})
        acc.sample({"seed": case["seed"], "journal": keys, "result": tr1.outcome})
        for p in range(1, len(rows) + 1):
            if only_p is not None and p != only_p:
                continue
            check_prefix(case, p, rows, tr1, d, acc)
    finally:
        shutil.rmtree(d, ignore_errors=True)


def check_prefix(case, p, rows, tr1, d, acc):
    wit = {"case": {**case, "p": p}}
    db = os.path.join(d, f"p{p}.db")
    init_db(db)
    conn = sqlite3.connect(db)
    conn.executemany("INSERT INTO workflow_journal (run_id, seq_num, task_key) VALUES ('R', ?, ?)", rows[:p])
    conn.commit()
    conn.close()
    spec2 = perturb(case["spec"], case["seed"] * 131 + p)
    # what order would the perturbed program produce WITHOUT the journal? (non-triviality of the case)
    dbx = os.path.join(d, f"x{p}.db")
    init_db(dbx)
    trx = run_program(spec2, dbx, "R")
    free_order = [k for _s, k in journal_rows(dbx, "R")]
    tr2 = run_program(spec2, db, "R")
    acc.case()
    acc.hit("recovery_run")
    prefix = [k for _s, k in rows[:p]]
    if free_order[:p] != prefix:
        acc.hit("order_would_differ_without_journal")
        acc.sig(h({"s": case["seed"], "p": p}))
    if tr2.errors:
        acc.violation({"mech": "recovery_run_raised"}, f"recovery from journal prefix {p} raised {tr2.errors[0][:300]}", wit)
        return
    # 1. completions consumed in the recorded order
    acc.hit("replayed_completions_eval")
    work_prefix = [k for k in prefix if not k.startswith("__pull__")]
    got = [f"{t['step']}:{t['wid']}" for t in tr2.ticks if t["tick"] == "TickStepResult"][: len(work_prefix)]
    if got != work_prefix:
        acc.violation({"mech": "replay_consumed_completions_in_other_order"},
                      f"journal prefix {work_prefix} but recovery processed {got} (unjournalled order would be {free_order[:p]})", wit)
        return
    # 2. the replayed part produces the same ticks
    a, b = tick_image(tr1, len(work_prefix)), tick_image(tr2, len(work_prefix))
    if a != b:
        i = next((i for i, (x, y) in enumerate(zip(a, b)) if x != y), min(len(a), len(b)))
        acc.violation({"mech": "replayed_ticks_differ"}, f"tick #{i} of the replayed part: recorded {a[i] if i < len(a) else None} vs recovered {b[i] if i < len(b) else None}", wit)
    # 3. same result
    acc.hit("result_compare")
    if tr2.outcome != tr1.outcome:
        acc.violation({"mech": "recovered_result_differs"}, f"recovered from prefix {p}: {tr2.outcome} != {tr1.outcome}", wit)
    # 4. journal stays a gap-free extension of the prefix
    acc.hit("journal_integrity_eval")
    after = journal_rows(db, "R")
    if [k for _s, k in after][:p] != prefix or [s for s, _k in after] != list(range(len(after))):
        acc.violation({"mech": "journal_corrupted_by_recovery"}, f"prefix {prefix} -> journal after recovery {after}", wit)


# ------------------------------------------------------------------ family 2: mini control loop directly on the real adapter
# The engine-level family above has no timers, so wait_for_next_task is only ever called with timeout=None there.  This family
# drives the real InternalDBOSAdapter the way the control loop does when scheduled wake-ups exist: finite timeouts that may expire
# while the journal's next expected task is still running, during recording and during recovery.
LATS = [0, 0.25, 0.5, 1, 2, 3]
TIMEOUTS = [None, None, None, 0.1, 0.3, 0.75, 1.5]


def gen_driver(seed):
    rnd = random.Random(seed ^ 0x5EED27)
    n0 = rnd.randint(2, 4)
    workers = [{"key": [f"s{i}", 0], "lat": rnd.choice(LATS), "spawn": []} for i in range(n0)]
    # deterministic spawning: completing worker i starts more workers (like a step result enqueueing events)
    for j in range(rnd.randint(0, 4)):
        parent = rnd.randrange(len(workers))
        w = {"key": [f"c{j}", rnd.randint(0, 1)], "lat": rnd.choice(LATS), "spawn": []}
        workers[parent]["spawn"].append(len(workers))
        workers.append(w)
    return {"seed": seed, "driver": True, "n0": n0, "workers": workers}


def _drive(case, db, lat_seed, to_seed):
    """One run of the mini loop; returns (observed keys incl. None for a timed-out wait, number of timeouts, error)."""
    from llama_agents.dbos.runtime import InternalDBOSAdapter
    from workflows.runtime.types.named_task import PendingWorker, get_key
    from vf import vclock

    ws = case["workers"]
    lrnd = random.Random(lat_seed)
    lats = [w["lat"] if lat_seed is None else lrnd.choice(LATS) for w in ws]
    trnd = random.Random(to_seed)
    observed = []

    async def body(i):
        await asyncio.sleep(lats[i])
        return i

    async def main():
        adapter = InternalDBOSAdapter(run_id="R", engine=None, db_path=db)
        pending = [PendingWorker(ws[i]["key"][0], ws[i]["key"][1], body(i)) for i in range(case["n0"])]
        running = []
        guard = 0
        while pending or running:
            guard += 1
            if guard > 400:
                raise RuntimeError("driver loop did not finish in 400 waits")
            timeout = trnd.choice(TIMEOUTS)
            res = await adapter.wait_for_next_task(list(running), pending, timeout)
            pending = []
            running.extend(res.started)
            if res.completed is None:
                observed.append(None)
                continue
            key = get_key(running, res.completed)
            observed.append(key)
            running = [nt for nt in running if nt.task is not res.completed]
            for j in ws[res.completed.result()]["spawn"]:
                pending.append(PendingWorker(ws[j]["key"][0], ws[j]["key"][1], body(j)))

    cr = vclock.run(main, vt_limit=1e4)
    err = None
    if not cr.done:
        err = "driver did not finish (quiescent before completion)"
    elif cr.exception() is not None:
        err = repr(cr.exception())[:300]
    return observed, sum(1 for o in observed if o is None), err


def run_driver(case, acc, only_p=None):
    from vf import boot

    d = boot.scratch_dir()
    try:
        db0 = os.path.join(d, "rec.db")
        init_db(db0)
        obs1, _nto, err = _drive(case, db0, None, case["seed"] * 7 + 1)
        if err:
            acc.inconclusive.append(f"driver recording run failed seed={case['seed']}: {err}")
            return
        acc.hit("driver_recording_run")
        rows = journal_rows(db0, "R")
        keys = [k for _s, k in rows]
        all_keys = sorted(f"{w['key'][0]}:{w['key'][1]}" for w in case["workers"])
        done1 = [o for o in obs1 if o is not None]
        if keys != done1 or sorted(done1) != all_keys or [s for s, _k in rows] != list(range(len(rows))):
            acc.violation({"mech": "journal_differs_from_processed_completions", "phase": "driver_recording"},
                          f"journal {rows} vs observed {obs1} (workers {all_keys})", {"case": case})
            return
        for p in range(1, len(rows) + 1):
            if only_p is not None and p != only_p:
                continue
            wit = {"case": {**case, "p": p}}
            db = os.path.join(d, f"p{p}.db")
            init_db(db)
            conn = sqlite3.connect(db)
            conn.executemany("INSERT INTO workflow_journal (run_id, seq_num, task_key) VALUES ('R', ?, ?)", rows[:p])
            conn.commit()
            conn.close()
            obs2, nto, err = _drive(case, db, case["seed"] * 131 + p, case["seed"] * 977 + p)
            acc.case()
            acc.hit("driver_recovery_run")
            prefix = keys[:p]
            if err:
                acc.violation({"mech": "recovery_run_raised", "family": "driver"}, f"recovery from journal prefix {prefix} raised/stuck: {err}", wit)
                continue
            done2 = [o for o in obs2 if o is not None]
            # timeouts that expired before the whole prefix was consumed = wake-ups during the replayed part
            k = 0
            early = 0
            for o in obs2:
                if o is None:
                    early += k < p
                else:
                    k += 1
            if early:
                acc.hit("replay_wait_timed_out_before_expected_task")
                acc.sig(h({"s": case["seed"], "p": p, "drv": 1}))
            acc.hit("driver_replayed_completions_eval")
            if done2[:p] != prefix:
                acc.violation({"mech": "replay_consumed_completions_in_other_order", "family": "driver", "timeouts_during_replay": bool(early)},
                              f"journal prefix {prefix} but the recovered loop observed {obs2}", wit)
                continue
            if sorted(done2) != all_keys:
                acc.violation({"mech": "recovered_run_completions_not_exactly_once", "family": "driver"},
                              f"workers {all_keys} but recovered loop observed {obs2}", wit)
                continue
            after = journal_rows(db, "R")
            if [k2 for _s, k2 in after] != done2 or [s2 for s2, _k in after] != list(range(len(after))):
                acc.violation({"mech": "journal_corrupted_by_recovery", "family": "driver"},
                              f"prefix {prefix}, observed {obs2} -> journal after recovery {after}", wit)
    finally:
        shutil.rmtree(d, ignore_errors=True)


def run_shard(shard):
    acc = Acc()
    for i in range(shard["n"]):
        run_one(gen_case(shard["seed"] + i), acc)
    for i in range(shard["n"] * 4):
        run_driver(gen_driver(shard["seed"] + i), acc)
    return acc.to_dict()


def replay(rp):
    acc = Acc()
    c = dict(rp["case"]["case"])
    p = c.pop("p", None)
    if c.get("driver"):
        run_driver(c, acc, only_p=p)
    else:
        run_one(c, acc, only_p=p)
    return acc.to_dict()
