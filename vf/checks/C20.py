"""C20 — concurrent state updates are never lost.

Monitor shape: serialisability oracle over the final state.  Up to 6 operations
(set / set_state / clear / edit_state) are issued by up to 6 concurrent asyncio
tasks against one run's state under the virtual clock, with virtual sleeps
between operations and *inside* edit_state blocks (so a block is suspended
across other writers).  After all tasks finished the state is read back and must
equal the nested-dict model's outcome of SOME serial order of the operations
(all <= 720 permutations are tried; an edit_state block is one operation).

Store access paths (reported under separate signatures, key `objects`):
  memory / shared       one InMemoryStateStore object used by all tasks
  sqlite / shared       one SqliteStateStore object used by all tasks
  sqlite / per_task     each task creates its own SqliteStateStore for the same
                        run_id through SqliteWorkflowStore.create_state_store —
                        the path real server steps use (every step invocation
                        builds a new internal adapter, hence a new store object)
  memory / workflow_run, memory|sqlite / server_step_invocations
                        the documented "Locking the State" pattern (n += 1 inside
                        edit_state with a virtual sleep in the block) executed by 2-4
                        concurrent invocations of a real workflow step: on the plain
                        runtime, and on the real WorkflowServer stack over
                        MemoryWorkflowStore and SqliteWorkflowStore (vf/c20_server.py);
                        every serial order gives n == k.
"""
from __future__ import annotations

import copy
import itertools
import os
import random
import shutil

from vf.common import Acc, h

ID = "C20"
LEVEL = "exploration"
VCLOCK = True
TECHNIQUE = ("runtime monitoring: final-state serialisability oracle (all <=720 serial orders of a nested-dict model) over "
             "generated concurrent operation schedules on the real stores under a virtual clock")
LEVEL_TEXT = ("Concurrent set/set_state/clear/edit_state tasks with virtual sleeps inside edit_state blocks are run on the real "
              "InMemoryStateStore and SqliteStateStore (one shared object, and one object per task for the same run as the "
              "server does); the final state must equal the model outcome of some serial order. Exploration: schedules are "
              "sampled (virtual latencies with deliberate ties), the serial-order search per case is exhaustive.")
LEVEL_NOTE = ("Trusted: CPython asyncio, the virtual clock, sqlite3, the nested-dict model. Only interleavings at the stores' "
              "own await points (lock acquisition, the suspended edit_state block, sleeps between operations) occur.")
DESIGN_REF = "§5 C20"
RULE = ("case = (store access path, state kind, <=6 tasks with <=6 operations in total, virtual delays); distinct = hash of the "
        "case spec; non-trivial = at least one operation was issued while another task's edit_state block was open")
REQUIRED_REACH = ["final_state_oracle", "serial_orders_evaluated", "op_issued_during_open_block",
                  "cases_memory_shared", "cases_sqlite_shared", "cases_sqlite_per_task", "cases_sqlite1_per_task", "cases_sqlite1_shared", "tasks_created_inside_an_open_edit_block", "seeded_store_object", "edit_blocks_run",
                  "set_state_run", "set_run", "clear_run",
                  "workflow_cases_plain", "workflow_cases_server_memory", "workflow_cases_server_sqlite",
                  "workflow_final_state_oracle", "workflow_step_contended"]
ASSUMPTIONS = ["operations are the public StateStore methods; user-level get-then-set sequences are not operations",
               "SQLite file opened with per-call connections (the default server configuration) plus one idle connection"]
SHARD_TIMEOUT = {"quick": 300, "thorough": 1800}

PATHS = [("memory", "shared"), ("sqlite", "shared"), ("sqlite", "per_task"), ("sqlite1", "per_task"), ("sqlite1", "shared")]   # sqlite1: SqliteWorkflowStore(single_connection=True)
DELAYS = [0, 0, 0.1, 0.2, 0.3, 0.5]
HOLDS = [0, 0.1, 0.25, 0.4, 0.6]


def plan(tier, seed):
    n = 16 if tier == "quick" else 64
    per = 500 if tier == "quick" else 3000
    wf = 30 if tier == "quick" else 200
    return [{"seed": seed * 1000 + i, "n": per, "wf": wf} for i in range(n)]


# ----------------------------------------------------------------- generation
def gen_op(rnd, oid, typed, kinds):
    k = rnd.choice(kinds)
    op = {"id": oid, "k": k, "pre": rnd.choice(DELAYS)}
    if k == "set":
        if typed:
            p = rnd.choice([["count"], ["name"], ["meta", f"s{oid}"], ["meta", "shared"]])
            v = 1000 + oid if p == ["count"] else f"v{oid}"
        else:
            p = rnd.choice([[f"s{oid}"], ["shared"], ["d", f"s{oid}"], ["n"]])
            v = 1000 + oid if p == ["n"] else f"v{oid}"
        op.update(p=p, v=v)
    elif k == "set_state":
        if typed:
            cls = rnd.choice(["Child", "Parent"])
            f = {"count": 100 * (oid + 1), "name": f"r{oid}"}
            if cls == "Child" and rnd.random() < 0.5:
                f["extra"] = 50 + oid
            op.update(cls=cls, f=f)
        else:
            f = {f"r{oid}": oid}
            if rnd.random() < 0.5:
                f["n"] = 100 * (oid + 1)
            op.update(cls="DictState", f=f)
    elif k == "edit":
        op["hold"] = [rnd.choice(HOLDS), rnd.choice([0, 0, 0.1, 0.3])]
    return op


def gen_case(rnd):
    backend, objects = rnd.choice(PATHS)
    typed = rnd.random() < 0.35
    n_ops = rnd.randint(2, 6)
    n_tasks = rnd.randint(2, n_ops)
    flavour = rnd.random()
    if flavour < 0.25:
        kinds = ["edit", "edit", "set"]  # only lock-taking writers
    elif flavour < 0.45:
        kinds = ["edit", "set_state", "clear"]
    else:
        kinds = ["set", "set_state", "clear", "edit", "edit"]
    ops = [gen_op(rnd, i, typed, kinds) for i in range(n_ops)]
    if not any(o["k"] == "edit" for o in ops):
        ops[0] = {"id": 0, "k": "edit", "pre": 0, "hold": [rnd.choice(HOLDS[1:]), 0]}
    tasks = [[] for _ in range(n_tasks)]
    for i, o in enumerate(ops):
        tasks[i if i < n_tasks else rnd.randrange(n_tasks)].append(o["id"])
    # A parent-type set_state on a run whose SQLite row does not exist yet is a sequential defect (C19 signature
    # state_mismatch_after_op/set_state_parent); keep it out of the concurrency verdict by letting the row exist.
    seed_row = any(o.get("cls") == "Parent" for o in ops) or rnd.random() < 0.5
    return {"spawn_in_block": rnd.random() < 0.2, "backend": backend, "objects": objects, "typed": typed, "seed_row": seed_row, "ops": ops, "tasks": tasks,
            "seeded_objects": objects == "per_task" and rnd.random() < 0.4}


# ----------------------------------------------------------------- model
def apply_op(root, typed, op):
    """Sequential semantics of one operation on the nested-dict model (returns the new root)."""
    from vf.checks.C19 import apply_model

    if op["k"] != "edit":
        return apply_model(copy.deepcopy(root), typed, op)
    root = copy.deepcopy(root)
    i = op["id"]
    if typed:
        root["count"] = root["count"] + 1
        root["tags"] = root["tags"] + [i]
        root["notes"][f"e{i}"] = i
    else:
        root["n"] = root.get("n", 0) + 1
        root["log"] = root.get("log", []) + [i]
        root[f"e{i}"] = i
    return root


def serial_outcomes(case, observed, acc):
    """Search all serial orders; returns (matched, matched_in_program_order)."""
    from vf.checks.C19 import initial_root

    typed = case["typed"]
    ops = {o["id"]: o for o in case["ops"]}
    task_of = {}
    for t, ids in enumerate(case["tasks"]):
        for pos, oid in enumerate(ids):
            task_of[oid] = (t, pos)
    matched = matched_po = False
    for perm in itertools.permutations(sorted(ops)):
        acc.hit("serial_orders_evaluated")
        root = initial_root(typed)
        for oid in perm:
            root = apply_op(root, typed, ops[oid])
        if root == observed:
            matched = True
            last = {}
            ok = True
            for oid in perm:
                t, pos = task_of[oid]
                if last.get(t, -1) > pos:
                    ok = False
                    break
                last[t] = pos
            if ok:
                matched_po = True
                break
    return matched, matched_po


# ----------------------------------------------------------------- execution
class Env:
    def __init__(self):
        import sqlite3

        from llama_agents.server._store.sqlite.sqlite_workflow_store import SqliteWorkflowStore

        from vf import boot

        self.dir = boot.scratch_dir()
        path = os.path.join(self.dir, "c20.db")
        self.ws = SqliteWorkflowStore(path)
        self.ws1 = SqliteWorkflowStore(os.path.join(self.dir, "c20_single.db"), single_connection=True)
        # idle second connection: keeps the WAL from being checkpointed+unlinked on every close (cost only)
        self.keeper = sqlite3.connect(path)
        self.keeper.execute("SELECT count(*) FROM workflow_state").fetchall()
        self.counter = 0

    def close(self):
        try:
            self.keeper.close()
        except Exception:  # noqa: BLE001
            pass
        shutil.rmtree(self.dir, ignore_errors=True)


def run_case(case, env, acc):
    """Execute one case under the virtual clock and evaluate the oracle."""
    import asyncio

    from workflows.context.state_store import DictState, InMemoryStateStore

    from vf import vclock
    from vf.c19_models import Child
    from vf.checks.C19 import build_state, extract

    typed = case["typed"]
    backend, objects = case["backend"], case["objects"]
    env.counter += 1
    run_id = f"run-{env.counter}"
    st = Child if typed else None

    ws = env.ws1 if backend == "sqlite1" else env.ws

    def new_store(seeded=False):
        if backend == "memory":
            return InMemoryStateStore(Child() if typed else DictState())
        if seeded:
            # the way the server creates the state store of a run started from a serialized context: seeded with the (here: initial)
            # state and the serializer it was written with; it is still one of the run's store objects and shares the run's lock
            from workflows.context.serializers import JsonSerializer

            ser = JsonSerializer()
            payload = InMemoryStateStore(Child() if typed else DictState()).to_dict(ser)
            acc.hit("seeded_store_object")
            return ws.create_state_store(run_id, st, payload, ser)
        return ws.create_state_store(run_id, st)

    shared = new_store() if objects == "shared" else None
    ops = {o["id"]: o for o in case["ops"]}
    trace = []  # (what, op id)
    open_blocks = set()
    flags = {"blocks_overlap": False, "unlocked_write_in_block": False, "contended": False}
    errors = []
    out = {}

    async def do_op(store, op):
        oid, k = op["id"], op["k"]
        if op["pre"]:
            await asyncio.sleep(op["pre"])
        if open_blocks:
            flags["contended"] = True
            acc.hit("op_issued_during_open_block")
        trace.append(("call", oid))
        if k == "set":
            await store.set(".".join(op["p"]), copy.deepcopy(op["v"]))
            acc.hit("set_run")
            if open_blocks:
                flags["blocks_overlap"] = True
        elif k == "set_state":
            await store.set_state(build_state(op["cls"], op["f"]))
            acc.hit("set_state_run")
            if open_blocks:
                flags["unlocked_write_in_block"] = True
        elif k == "clear":
            await store.clear()
            acc.hit("clear_run")
            if open_blocks:
                flags["unlocked_write_in_block"] = True
        else:
            async with store.edit_state() as state:
                if open_blocks:
                    flags["blocks_overlap"] = True
                open_blocks.add(oid)
                trace.append(("enter", oid))
                try:
                    if typed:
                        n = state.count
                    else:
                        n = state.get("n", 0)
                    if op["hold"][0]:
                        await asyncio.sleep(op["hold"][0])
                    if typed:
                        state.count = n + 1
                        state.tags = list(state.tags) + [oid]
                    else:
                        state["n"] = n + 1
                        state["log"] = list(state.get("log", [])) + [oid]
                    if op["hold"][1]:
                        await asyncio.sleep(op["hold"][1])
                    if typed:
                        state.notes[f"e{oid}"] = oid
                    else:
                        state[f"e{oid}"] = oid
                finally:
                    open_blocks.discard(oid)
                    trace.append(("leave", oid))
            acc.hit("edit_blocks_run")
        trace.append(("ret", oid))

    async def task(ids, store):
        for oid in ids:
            try:
                await do_op(store, ops[oid])
            except Exception as e:  # noqa: BLE001
                errors.append((ops[oid]["k"], type(e).__name__, str(e)[:200]))
                return

    async def main():
        if case.get("seed_row"):
            # the run's state row already exists (some earlier step touched the state)
            await (shared if shared is not None else new_store()).get_state()
        # every task's store object exists before the first operation runs (a seeded object writes its seed when it is created)
        stores = [shared if shared is not None else new_store(seeded=bool(case.get("seeded_objects")) and i % 2 == 1) for i, _ in enumerate(case["tasks"])]
        if case.get("spawn_in_block"):
            # the worker tasks are CREATED while an (otherwise empty) edit block is open, e.g. by a step that fans work out from
            # inside `async with ctx.store.edit_state()`: they inherit that moment's context variables for their whole life
            acc.hit("tasks_created_inside_an_open_edit_block")
            async with stores[0].edit_state():
                kids = [asyncio.ensure_future(task(ids, stores[i])) for i, ids in enumerate(case["tasks"])]
                await asyncio.sleep(0)
            await asyncio.gather(*kids)
        else:
            await asyncio.gather(*(task(ids, stores[i]) for i, ids in enumerate(case["tasks"])))
        reader = shared if backend == "memory" else new_store()
        out["final"] = extract(await reader.get_state(), typed)

    res = vclock.run(main)
    sig_base = {"backend": backend, "objects": objects}
    if not res.done:
        acc.violation({"mech": "operations_never_complete", **sig_base},
                      f"[{backend}/{objects}] tasks never finish (quiescent={res.quiescent}, livelock={res.livelock})", case)
        return
    exc = res.exception()
    if exc is not None:
        errors.append(("final_read", type(exc).__name__, str(exc)[:200]))
    if errors:
        k, en, msg = errors[0]
        acc.violation({"mech": "op_raised", "op": k, "exc": en, **sig_base},
                      f"[{backend}/{objects}] {k} raised {en}: {msg}", case)
        return
    if flags["contended"]:
        acc.sig(h(case))
    observed = out["final"]
    acc.hit("final_state_oracle")
    matched, matched_po = serial_outcomes(case, observed, acc)
    if matched and not matched_po:
        acc.note(f"serialisable_only_against_program_order_{backend}_{objects}")
    if not matched:
        if backend == "memory":
            mech = "memory_store_not_serialisable"
        elif flags["blocks_overlap"]:
            mech = "edit_blocks_not_mutually_exclusive"
        elif flags["unlocked_write_in_block"]:
            mech = "set_state_not_excluded_by_open_edit"
        else:
            mech = "not_serialisable_other"
        kinds = "+".join(sorted({o["k"] for o in case["ops"]}))
        acc.violation({"mech": mech, **sig_base},
                      f"[{backend}/{objects}/{'typed' if typed else 'dict'}] final state {_short(observed)} equals no serial order of "
                      f"{len(case['ops'])} operations ({kinds}); trace={_short(trace, 300)}", case)


# ----------------------------------------------------------------- real workflow steps (engine / server stack)
WF_STACKS = ["plain", "server_memory", "server_sqlite"]


def gen_wf_case(rnd, stack):
    k = rnd.randint(2, 4)
    return {"kind": "workflow", "stack": stack, "k": k,
            "holds": [rnd.choice([0, 0.1, 0.2, 0.3, 0.5]) for _ in range(k)],
            "pres": [rnd.choice([0, 0, 0.1, 0.2]) for _ in range(k)]}


def run_wf_case(case, env, acc):
    """k concurrent invocations of one step increment state['n'] inside edit_state (the documented pattern).
    Every serial order of k increments gives n == k and log == a permutation of range(k)."""
    from vf import c20_server, vclock

    stack, k = case["stack"], case["k"]
    env.counter += 1
    c20_server.reset_trace()
    acc.hit(f"workflow_cases_{stack}")

    async def main():
        if stack == "plain":
            return {"status": "completed", "result": await c20_server.run_plain(k, case["holds"], case["pres"])}
        if stack == "server_memory":
            from llama_agents.server import MemoryWorkflowStore

            store = MemoryWorkflowStore()
        else:
            store = env.ws
        return await c20_server.run_served(store, k, case["holds"], case["pres"], f"h-{env.counter}")

    res = vclock.run(main)
    backend = "sqlite" if stack == "server_sqlite" else "memory"
    objects = "workflow_run" if stack == "plain" else "server_step_invocations"
    base = {"backend": backend, "objects": objects}
    if not res.done or res.exception() is not None:
        acc.inconclusive.append(f"workflow case on {stack} did not run: done={res.done} exc={res.exception()!r}")
        return
    out = res.result()
    if out.get("status") != "completed":
        # not this property's business (lock dead-ends are decided on the store-level paths): never a verdict here
        acc.inconclusive.append(f"workflow case on {stack} ended {out}")
        return
    if c20_server.FLAGS["contended"]:
        acc.hit("workflow_step_contended")
        acc.sig(h(case))
    acc.hit("workflow_final_state_oracle")
    got = out["result"]
    if got["n"] != k or sorted(got["log"] or []) != list(range(k)):
        mech = "edit_blocks_not_mutually_exclusive" if c20_server.FLAGS["overlap"] else "not_serialisable_other"
        acc.violation({"mech": mech, **base},
                      f"[{stack}] {k} step invocations each did n+=1 inside edit_state but the final state is {got}; "
                      f"trace={list(c20_server.TRACE)}", case)


def _short(x, n=200):
    s = repr(x)
    return s if len(s) <= n else s[:n] + "…"


def run_shard(shard):
    acc = Acc()
    rnd = random.Random(shard["seed"])
    env = Env()
    try:
        for _ in range(shard["n"]):
            case = gen_case(rnd)
            acc.case()
            acc.hit(f"cases_{case['backend']}_{case['objects']}")
            if len(case["ops"]) <= 3:
                acc.sample(case)
            run_case(case, env, acc)
        for i in range(shard.get("wf", 0)):
            case = gen_wf_case(rnd, WF_STACKS[i % 3])
            acc.case()
            if i < 3:
                acc.sample(case)
            run_wf_case(case, env, acc)
    finally:
        env.close()
    return acc.to_dict()


def replay(rp_file):
    acc = Acc()
    env = Env()
    try:
        if rp_file["case"].get("kind") == "workflow":
            run_wf_case(rp_file["case"], env, acc)
        else:
            run_case(rp_file["case"], env, acc)
    finally:
        env.close()
    return acc.to_dict()
