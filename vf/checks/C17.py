"""C17 — the client's auto-reconnecting event stream delivers each event once."""
import asyncio
import random

from vf.common import Acc, h

ID = "C17"
LEVEL = "exploration"
VCLOCK = True
TECHNIQUE = ("runtime monitoring: real WorkflowClient.get_workflow_events against the real server API (_WorkflowAPI + store) over an in-process streaming transport "
             "that cuts the SSE body at chosen byte offsets; history oracle: yielded (last_sequence, event) list vs the stored event log")
LEVEL_TEXT = ("Cuts at every offset class (inside the id: line, between id and data, inside data, before the blank line, between frames, after the terminal frame), "
              "1..max_reconnect_attempts consecutive drops and beyond, numeric cursors incl. mid-log, payloads with non-ASCII text and Unicode line separators; "
              "oracle: yielded sequences == stored sequences above the cursor, once, in order, and stream.last_sequence == sequence of the event just yielded.")
LEVEL_NOTE = ("Trusted: the ~300-line ASGI stand-in for starlette and the streaming httpx transport (vf/asgi_transport.py) that carry the bytes between the real "
              "client and the real server code; virtual clock. Consecutive drops beyond max_reconnect_attempts are expected to end in ConnectionError.")
DESIGN_REF = "§5 C17"
RULE = "case = (event payloads, cursor, cut offsets); distinct = hash of the case; non-trivial = >=1 drop actually happened"
REQUIRED_REACH = ["scenario", "drop_injected", "reconnected_ok", "cursor_mid_log", "unicode_payload", "cut_inside_data", "cut_inside_id", "over_limit_case", "slow_store", "drop_as_incomplete_chunked_body", "drop_with_a_lagging_consumer"]
ASSUMPTIONS = ["drops are cuts of the response body (httpx.ReadError); request-phase connect errors are not injected"]

TEXTS = ["ok", "plain text", "ünï¢ödé ✓", "tab\tand \"quotes\"", "x" * 300, "line\\nescaped", "emoji 😀", "ls\u2028sep", "ps\u2029sep", "nel\u0085sep", "vt\x0bff\x0c", "a b", "c d", "e\u0085f", ""]


def plan(tier, seed):
    n = 16 if tier == "quick" else 32
    per = 25 if tier == "quick" else 300
    return [{"seed": seed * 1_000_000 + i * 10_000, "n": per} for i in range(n)]


def gen_case(seed):
    rnd = random.Random(seed)
    n = rnd.randint(1, 10)
    texts = [rnd.choice(TEXTS) for _ in range(n)]
    gaps = [rnd.choice([0, 0, 0.5, 1]) for _ in range(n)]
    cursor = rnd.choice([-1, -1, -1, 0, 1, 3, n, n + 5])
    ncuts = rnd.choice([0, 1, 1, 2, 3, 3, 5])
    cuts = [rnd.choice([1, 3, 5, 9, 20, 40, 80, 130, 200, 400, 900]) + rnd.randint(0, 30) for _ in range(ncuts)]
    # connection refusals (-1): consecutive ones count against max_reconnect_attempts
    if rnd.random() < 0.35:
        k = rnd.choice([1, 2, 3, 4, 6])
        pos = rnd.randint(0, len(cuts))
        cuts[pos:pos] = [-1] * k
    return {"seed": seed, "texts": texts, "gaps": gaps, "cursor": cursor, "cuts": cuts, "max_reconnect": rnd.choice([3, 3, 1, 5]),
            "store": rnd.choice(["memory", "sqlite"]), "late_connect": rnd.choice([0, 0, 2, 50]),
            "store_latency": rnd.choice([None, None, None, 0.02, 0.1]), "drop_kinds": [rnd.choice(["reset", "reset", "fin"]) for _ in range(4)],
            # the consumer lags behind the connection: it starts iterating later, and / or does some awaiting per event, so received
            # events wait unconsumed when the connection drops
            "consume_delay": rnd.choice([0, 0, 0, 1, 20]), "per_event_delay": rnd.choice([0, 0, 0, 0.3, 2])}


def _max_consecutive_refusals(cuts):
    """longest run of consecutive failures as the documented limit counts them: a refused connection is a failure, a
    connection that was established resets the count and, if its body is then cut, starts a new run with 1"""
    best = cur = 0
    for c in cuts:
        if c == -1:
            cur += 1
        else:
            cur = 1
        best = max(best, cur)
    return best


def _i(value):
    if not isinstance(value, dict):
        return None
    return (value.get("_data") or {}).get("i", value.get("i"))


def run_one(case, acc):
    import os
    import shutil

    import httpx

    from vf import boot, c17_wf, vclock
    from vf import server_run as sr
    from vf.asgi_transport import ASGIStreamTransport, DropPlan

    import llama_agents.server.server as srv
    import workflows.plugins.basic as basic
    from llama_agents.client import WorkflowClient
    from llama_agents.server import WorkflowServer
    from workflows.events import StartEvent

    sr.patch_modules()
    d = boot.scratch_dir()
    out = {}
    wit = {"case": case}

    async def main():
        fresh = basic.BasicRuntime()
        basic.basic_runtime = fresh
        srv.basic_runtime = fresh
        store = sr.fault_store(case["store"], os.path.join(d, "c.db"), log=[], latency=case.get("store_latency"))
        if case.get("store_latency"):
            acc.hit("slow_store")
        server = WorkflowServer(workflow_store=store, idle_timeout=1000, sse_heartbeat_interval=None)
        wf = c17_wf.Streamer(timeout=None)
        server.add_workflow("wf", wf)
        await server.start()
        hd = await server._service.start_workflow(wf, "h1", start_event=StartEvent(texts=case["texts"], gaps=case["gaps"]))
        if case["late_connect"]:
            await asyncio.sleep(case["late_connect"])
        dp = DropPlan(case["cuts"])
        dp.kinds = case.get("drop_kinds")
        if "fin" in (case.get("drop_kinds") or []) and any(c is not None and c >= 0 for c in case["cuts"]):
            acc.hit("drop_as_incomplete_chunked_body")
        http = httpx.AsyncClient(transport=ASGIStreamTransport(server.app, dp), base_url="http://testserver")
        client = WorkflowClient(httpx_client=http)
        stream = client.get_workflow_events("h1", after_sequence=case["cursor"], max_reconnect_attempts=case["max_reconnect"])
        got = []

        async def consume():
            if case.get("consume_delay"):
                await asyncio.sleep(case["consume_delay"])
            async for ev in stream:
                got.append((stream.last_sequence, ev.type, _i(ev.value)))
                if case.get("per_event_delay"):
                    await asyncio.sleep(case["per_event_delay"])

        if (case.get("consume_delay") or case.get("per_event_delay")) and any(c is not None and c >= 0 for c in case["cuts"]):
            acc.hit("drop_with_a_lagging_consumer")

        try:
            await asyncio.wait_for(consume(), timeout=500)
        except asyncio.TimeoutError:
            out["timeout"] = True
        except asyncio.CancelledError:
            raise
        except BaseException as e:  # noqa: BLE001
            out["err"] = f"{type(e).__name__}: {e}"
        await asyncio.sleep(30)
        stored = await type(store).__mro__[1].query_events(store, hd.run_id)
        out["stored"] = [(e.sequence, e.event.type, _i(e.event.value), bool(e.event.types and "InternalDispatchEvent" in e.event.types)) for e in stored]
        out["got"] = got
        out["dropped"] = dp.dropped
        out["conns"] = dp.conn + 1
        await http.aclose()

    try:
        cr = vclock.run(main, vt_limit=3000)
    finally:
        shutil.rmtree(d, ignore_errors=True)
    acc.case()
    acc.hit("scenario")
    if "stored" not in out:
        if cr.quiescent:
            acc.violation({"mech": "client_stream_never_terminates"}, f"client stream still pending at quiescence; cuts={case['cuts']}", wit)
        else:
            acc.inconclusive.append(f"scenario failed seed={case['seed']}: {cr.exception()!r}")
        return
    if any(t for t in case["texts"] if any(ord(c) > 127 for c in t)):
        acc.hit("unicode_payload")
    if out["dropped"]:
        acc.hit("drop_injected")
        acc.sig(h({k: v for k, v in case.items()}))
    if 0 <= case["cursor"] < len(out["stored"]) - 1:
        acc.hit("cursor_mid_log")
    for c in case["cuts"][: out["dropped"]]:
        if c >= 0:
            acc.hit("cut_inside_id" if c < 8 else "cut_inside_data")
        else:
            acc.hit("connection_refused")
    internal = {"StepStateChanged", "WorkflowIdleEvent", "UnhandledEvent"}
    exp = [(s, t, i) for (s, t, i, _int) in out["stored"] if s > case["cursor"] and t not in internal]
    # consecutive drops: the client gives up after max_reconnect consecutive failures (attempt counter resets on a good connection;
    # a connection that was cut before any byte still counts as a successful connection for the client)
    if out.get("timeout"):
        if not exp:
            acc.note("cursor_at_or_after_terminal_event_stream_waits")
            return
        acc.violation({"mech": "client_stream_never_terminates", "delivered_all": out["got"] == exp},
                      f"stream still open 500 virtual s after connecting although the run ended; got {out['got'][-3:]} expected {exp[-3:]}", wit)
        return
    err = out.get("err")
    if err:
        if "ConnectionError" in err and _max_consecutive_refusals(case["cuts"]) > case["max_reconnect"]:
            acc.hit("over_limit_case")
            # what was yielded must still be a clean prefix
            if out["got"] != exp[: len(out["got"])]:
                acc.violation({"mech": "yielded_prefix_wrong_before_giving_up"}, f"got {out['got']} expected prefix of {exp}", wit)
            return
        acc.violation({"mech": "client_stream_raised", "exc": err.split(":")[0]},
                      f"stream raised {err[:300]} after {out['dropped']} drops (limit {case['max_reconnect']}); got {out['got'][-3:]}", wit)
        return
    if out["dropped"]:
        acc.hit("reconnected_ok")
    if out["got"] != exp:
        gs, es = [g[0] for g in out["got"]], [e[0] for e in exp]
        kind = "duplicate" if len(set(gs)) != len(gs) else ("missing" if set(es) - set(gs) else ("order_or_last_sequence" if sorted(gs) == es else "extra"))
        acc.violation({"mech": "client_stream_differs_from_stored_log", "kind": kind, "dropped": out["dropped"] > 0},
                      f"yielded (last_sequence,type,i)={out['got']} but stored events above cursor {case['cursor']} are {exp}; cuts={case['cuts']} drops={out['dropped']}", wit)
    acc.sample({"seed": case["seed"], "cursor": case["cursor"], "cuts": case["cuts"], "drops": out["dropped"], "connections": out["conns"], "yielded": out["got"][:6], "stored": len(out["stored"])})


def run_shard(shard):
    acc = Acc()
    for i in range(shard["n"]):
        run_one(gen_case(shard["seed"] + i), acc)
    return acc.to_dict()


def replay(rp):
    acc = Acc()
    run_one(rp["case"]["case"], acc)
    return acc.to_dict()
