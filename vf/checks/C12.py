"""C12 — pausing to a serialized context and resuming gives the same result."""
import json
import random

from vf import engine_check
from vf.common import Acc

ID = "C12"
LEVEL = "fault_enumeration"
VCLOCK = True
TECHNIQUE = ("runtime monitoring with enumerated pause points: for every externally observable pause point (control-loop yield) k of a deterministic generated run, ctx.to_dict() -> JSON -> "
             "Context.from_dict on a fresh workflow instance -> run to completion; result / state-store equality with the uninterrupted run, retry-number "
             "continuity of re-executed invocations, recovery-budget model, serialized-form fixed point")
LEVEL_TEXT = ("Per generated deterministic, idempotent workflow (returns only, idempotent state writes, retries, collect, optional catch_error budget) "
              "EVERY yield point of the reference run's control loop (where an outside observer can call ctx.to_dict()) is a pause point (exhaustive per case); the resumed run is monitored by the same body recorder, "
              "so the attempt number each unfinished invocation resumes with is compared with the attempt that was in flight at the pause.")
LEVEL_NOTE = ("Trusted: virtual clock (the reference run is reproducible, so 'after tick k' is well defined), JSON round trip of the dict, the lineage "
              "encoding used by the recovery-budget model (shared with C08).")
DESIGN_REF = "§5 C12"
RULE = "case = (deterministic program, pause tick k); all k of each program are enumerated; distinct = hash of (program, k, state summary); non-trivial = pause state has queued or running work"
REQUIRED_REACH = ["pause_point", "resumed_run", "result_compare", "state_compare", "retry_continuity_eval", "resumed_in_flight_retry", "fixed_point_eval", "fixed_point_with_waiter", "pause_with_collected", "queue_entry_roundtrip_eval", "queued_with_recovery_budget", "queued_with_retry_info", "resumed_run_snapshotted_again", "typed_state_pause_point", "second_generation_resume", "second_generation_resume_with_parallel_invocations", "pause_after_sender_completed", "pause_with_sent_events_not_yet_processed", "restore_twice_eval", "resumed_with_open_question_non_json_requirement"]
ASSUMPTIONS = ["workflows are deterministic and idempotent under re-execution by construction (no ctx.send_event, idempotent state writes)"]
EXHAUSTIVE = False


def plan(tier, seed):
    n = 16 if tier == "quick" else 32
    per = 5 if tier == "quick" else 40
    return [{"seed": seed * 1_000_000 + i * 10_000, "n": per} for i in range(n)]


def gen_case(seed):
    from vf import gen

    rnd = random.Random(seed)
    x = rnd.random()
    spec = gen.gen_detwait(rnd) if x > 0.9 else gen.gen_detsend(rnd) if x < 0.1 else gen.gen_detfan(rnd) if x < 0.25 else (gen.gen_detq(rnd) if x < 0.5 else gen.gen_det(rnd))
    if rnd.random() < 0.3:
        spec["typed_state"] = True   # Context[VfState]: containers of a typed state model filled in place
    spec["sched_seed"] = seed
    return {"seed": seed, "family": "det", "spec": spec}


def reference(case):
    """Run once, taking a JSON snapshot after every tick."""
    from vf import engine_run

    return engine_run.run_with_snapshots(case["spec"])


def check_pause(case, k, snap, ref, acc):
    from vf import engine_run, oracles
    from vf.common import h
    from workflows import Context

    tr0, _ = ref
    wit = {"case": {**case, "k": k}, "phase": "resumed"}
    acc.hit("pause_point")
    if case["spec"].get("typed_state"):
        acc.hit("typed_state_pause_point")
    ent = snap
    if ent["err"] is not None:
        acc.violation({"mech": "to_dict_raises"}, f"ctx.to_dict() at yield {k} raised {ent['err']}", wit)
        return
    snap = ent["snap"]
    if ent["ticks"] == 0:
        return
    tick = tr0.ticks[ent["ticks"] - 1]
    busy = any(w["queue"] or w["in_progress"] for w in snap["workers"].values())
    if any(w["collected_events"] for w in snap["workers"].values()):
        acc.hit("pause_with_collected")
    # ---- fixed point of the serialized form
    try:
        st1, d2 = _roundtrip(case, snap)
        st2, d3 = _roundtrip(case, d2)
        acc.hit("fixed_point_eval")
        n1, n2 = oracles.norm_state(st1), oracles.norm_state(st2)
        if any(w["waiters"] for w in n1["workers"].values()):
            acc.hit("fixed_point_with_waiter")
        # every queued entry of the live snapshot keeps its retry / recovery bookkeeping through one round trip
        for sname, w in snap["workers"].items():
            q0 = w.get("queue") or []
            q1 = (d2["workers"].get(sname) or {}).get("queue") or []
            for i, e0 in enumerate(q0):
                acc.hit("queue_entry_roundtrip_eval")
                if e0.get("recovery_counts"):
                    acc.hit("queued_with_recovery_budget")
                if (e0.get("attempts") or 0) > 0:
                    acc.hit("queued_with_retry_info")
                e1 = q1[i] if i < len(q1) else None
                keys = ("event", "attempts", "first_attempt_at", "last_exception", "last_failed_at", "recovery_counts")
                if e1 is None or any((e0.get(kk) or None) != (e1.get(kk) or None) for kk in keys):
                    bad = [kk for kk in keys if e1 is None or (e0.get(kk) or None) != (e1.get(kk) or None)]
                    acc.violation({"mech": "queue_entry_changed_by_roundtrip", "fields": sorted(bad)[:3]},
                                  f"pause {k}: queued entry {i} of step {sname} changes through from_dict/to_dict in {bad}: { {kk: e0.get(kk) for kk in bad} } -> { e1 and {kk: e1.get(kk) for kk in bad} }", wit)
        # two contexts restored from the SAME serialized text are independent values: whatever a resumed run does to the events of
        # the first (a step that edits its input event in place, say) must not show in a second restore of that text
        touched = _touch_events(st1)
        if touched:
            acc.hit("restore_twice_eval")
            _st4, d4 = _roundtrip(case, snap)
            if d4 != d2:
                acc.violation({"mech": "restored_contexts_share_objects"},
                              f"pause {k}: after events of a context restored from the snapshot were edited in place ({touched} events), restoring the same snapshot text "
                              f"again gives a different run state: {_first_diff(d2, d4)}", wit)
        if d2 != d3 or n1 != n2:
            acc.violation({"mech": "serialized_form_not_a_fixed_point"},
                          f"deserialize / re-serialize / deserialize at pause {k} changes the run state: {oracles.diff_state(n1, n2)[:2] or _first_diff(d2, d3)}", wit)
    except Exception as e:  # noqa: BLE001
        acc.violation({"mech": "from_dict_roundtrip_raises", "exc": type(e).__name__}, f"Context.from_dict(...).to_dict() after tick {k} raised {e!r}", wit)
        return
    if not snap.get("is_running") and not busy:
        return  # run had not started / already ended at this pause point: nothing to resume
    sender = (case["spec"].get("meta") or {}).get("sender")
    if sender is not None:
        w_s = snap["workers"].get(sender) or {}
        if w_s.get("in_progress") or w_s.get("queue") or not any(t["tick"] == "TickStepResult" and t.get("step") == sender for t in tr0.ticks[:ent["ticks"]]):
            acc.note("pause_before_the_sending_step_completed_skipped")   # re-executing it re-sends: at-least-once, not decided here
            return
        acc.hit("pause_after_sender_completed")
    unprocessed = "TickAddEvent" in (ent.get("recvq") or []) + (ent.get("pulled") or [])
    if unprocessed:
        acc.hit("pause_with_sent_events_not_yet_processed")
    # ---- resume
    spec2 = {**case["spec"], "uid_base": 1000}
    if (case["spec"].get("meta") or {}).get("answer_on_resume"):
        # the human answers the question that was open at the pause, 1 s after the resume (its announcement went out before the pause)
        ext = _answers_for(case, snap)
        if ext:
            acc.hit("resumed_with_open_question")
            if case["spec"]["meta"].get("opaque_req"):
                acc.hit("resumed_with_open_question_non_json_requirement")
        spec2["externals"] = ext
    chained = any(w["collected_events"] for w in snap["workers"].values()) or (case["seed"] * 31 + k) % 3 == 0
    if chained:
        # a partly filled collect buffer travels in this snapshot: the resumed run is itself serialized at every yield point
        # (pause -> resume -> snapshot again), and each of those chained snapshots must describe the resumed run's buffers
        acc.hit("resumed_run_snapshotted_again")
        tr2, snaps2 = engine_run.run_with_snapshots(spec2, ctx_factory=lambda w: Context.from_dict(w, json.loads(json.dumps(snap))), start=False)
    else:
        snaps2 = []
        tr2 = engine_run.run_case(spec2, ctx_factory=lambda w: Context.from_dict(w, json.loads(json.dumps(snap))), start=False)
    for ent2 in snaps2:
        if ent2.get("err"):
            acc.violation({"mech": "to_dict_raises", "chained": True}, f"resumed from pause {k}: ctx.to_dict() at yield {ent2['k']} of the resumed run raised {ent2['err']}", wit)
            break
        for sname, w2 in ((ent2.get("snap") or {}).get("workers") or {}).items():
            for buf, evs in (w2.get("collected_events") or {}).items():
                if len(evs) != len(set(evs)):
                    acc.violation({"mech": "chained_snapshot_buffer_has_duplicate_event"},
                                  f"resumed from pause {k}: snapshot at yield {ent2['k']} of the resumed run lists an event twice in collect buffer {sname}/{buf}: "
                                  f"{[json.loads(e).get('value', {}).get('_data', {}).get('uid') if isinstance(e, str) else e for e in evs]}", wit)
                    break
    for r2 in tr2.rec.of("collect"):
        got = r2.get("got")
        if got and len({x[1] for x in got}) != len(got):
            acc.violation({"mech": "collect_returned_one_event_twice", "resumed": True}, f"resumed from pause {k}: collect_events returned {got}", wit)
            break
    acc.case()
    acc.hit("resumed_run")
    if tr2.errors:
        acc.inconclusive.append(f"harness error in resumed run seed={case['seed']} k={k}: {tr2.errors[0][:300]}")
        return
    if busy:
        acc.sig(h({"spec": case["seed"], "k": k}))
    ref_out, out = tr0.outcome, tr2.outcome
    acc.hit("result_compare")
    if out is None:
        acc.violation({"mech": "resumed_run_never_finishes", "quiescent": tr2.quiescent, "delayed_retry_pending_at_pause": "TickAddEvent" in (ent.get("wakeups") or []),
                       "sent_events_unprocessed_at_pause": unprocessed}, f"resumed from tick {k} ({tick['tick']}): run quiescent without finishing; reference {ref_out}", wit)
        return
    if out != ref_out:
        acc.violation({"mech": "resumed_result_differs", "ref_kind": ref_out["kind"], "got_kind": out["kind"], "sent_events_unprocessed_at_pause": unprocessed},
                      f"resumed from tick {k} ({tick['tick']}): outcome {out} != uninterrupted {ref_out}", wit)
    acc.hit("state_compare")
    s0, s2 = tr0.extra.get("final_state"), tr2.extra.get("final_state")
    if s0 != s2 and out == ref_out:
        acc.violation({"mech": "resumed_state_store_differs"}, f"resumed from tick {k}: state {s2} != uninterrupted {s0}", wit)
    # ---- second generation: the RESUMED run is paused again (its own to_dict, through JSON) and resumed from there
    if out == ref_out and snaps2:
        rnd2 = random.Random(case["seed"] * 7919 + k)
        cands = [e for e in snaps2 if e.get("snap") and e["snap"].get("is_running")
                 and any(w["queue"] or w["in_progress"] for w in e["snap"]["workers"].values())]
        for ent2 in rnd2.sample(cands, min(2, len(cands))):
            snap2 = ent2["snap"]
            tr3 = engine_run.run_case({**case["spec"], "uid_base": 2000, **({"externals": _answers_for(case, snap2)} if case["spec"].get("meta", {}).get("answer_on_resume") else {})}, ctx_factory=lambda w: Context.from_dict(w, json.loads(json.dumps(snap2))), start=False)
            acc.case()
            if tr3.errors:
                acc.inconclusive.append(f"harness error in second-generation resume seed={case['seed']} k={k}: {tr3.errors[0][:300]}")
                continue
            acc.hit("second_generation_resume")
            if any(len(w["in_progress"]) >= 2 for w in snap2["workers"].values()):
                acc.hit("second_generation_resume_with_parallel_invocations")
            wit3 = {"case": {**case, "k": k, "k2": ent2["k"]}, "phase": "resumed"}
            if tr3.outcome is None:
                acc.violation({"mech": "resumed_run_never_finishes", "quiescent": tr3.quiescent, "generation": 2,
                               "delayed_retry_pending_at_pause": "TickAddEvent" in (ent2.get("wakeups") or [])},
                              f"paused at tick {k}, resumed, paused again at yield {ent2['k']} of the resumed run, resumed: quiescent without finishing; reference {ref_out}", wit3)
            elif tr3.outcome != ref_out:
                acc.violation({"mech": "resumed_result_differs", "ref_kind": ref_out["kind"], "got_kind": tr3.outcome["kind"], "generation": 2},
                              f"paused at tick {k}, resumed, paused again at yield {ent2['k']} of the resumed run, resumed: outcome {tr3.outcome} != uninterrupted {ref_out}", wit3)
            elif tr3.extra.get("final_state") != s0:
                acc.violation({"mech": "resumed_state_store_differs", "generation": 2},
                              f"second-generation resume (pause {k}, then yield {ent2['k']}): state {tr3.extra.get('final_state')} != uninterrupted {s0}", wit3)
    # ---- retry-number continuity: what was in flight / queued at the pause
    post = tick["post"]
    expected_att = {}
    for step, st in post.items():
        for (_wid, uid, att, _id) in st["ipe"]:
            expected_att[(step, uid)] = att
        for (uid, att, _id) in st["qe"]:
            expected_att.setdefault((step, uid), att)
    first = {}
    for b in tr2.bodies():
        first.setdefault((b["step"], b["uid"]), b)
    for key, att in expected_att.items():
        b = first.get(key)
        if b is None:
            continue
        acc.hit("retry_continuity_eval")
        if att > 0:
            acc.hit("resumed_in_flight_retry")
        if b["att"] != att:
            acc.violation({"mech": "retry_count_reset_on_resume", "in_progress": any(x[1] == key[1] for x in post[key[0]]["ipe"])},
                          f"{key[0]} uid={key[1]} was on attempt {att} at the pause (tick {k}) but resumed with retry_number={b['att']}", wit)
    # ---- recovery budget (lineage model shared with C08)
    if any(s.get("handler") for s in case["spec"]["steps"]):
        class _A:
            def __getattr__(self, n):
                return getattr(acc, n)

            def violation(self, sig, what, c):
                acc.violation({**sig, "resumed": True}, what, wit)

        oracles.c08(tr2, _A(), wit)


def _roundtrip(case, d):
    """dict -> run state (deserialize) -> dict (re-serialize), the public (de)serialization path of a paused context"""
    from workflows.context.context_types import SerializedContext
    from workflows.context.serializers import JsonSerializer
    from workflows.runtime.types.internal_state import BrokerState

    ser = JsonSerializer()
    sc = SerializedContext.from_dict_auto(json.loads(json.dumps(d)))
    st = BrokerState.from_serialized(sc, _instance(case), ser)
    out = st.to_serialized(ser)
    out.state = sc.state
    return st, json.loads(json.dumps(out.model_dump(mode="python")))


def _answers_for(case, snap):
    """externals answering the questions that are open in a snapshot (see gen_detwait)"""
    ext = []
    if not (case["spec"].get("meta") or {}).get("answer_on_resume"):
        return ext
    for w in snap["workers"].values():
        for cw in w["collected_waiters"]:
            if cw.get("resolved_event") is not None:
                continue
            try:
                ev0 = json.loads(cw["event"])
                v0 = (ev0.get("value") or ev0).get("_data", {}).get("v")
            except Exception:  # noqa: BLE001
                v0 = None
            if v0 is not None:
                pay = {"key": v0}
                if case["spec"]["meta"].get("opaque_req"):
                    pay["tok"] = {"$uuid": 7}
                ext.append({"at": 1.0, "type": "Answer", "pay": pay})
    return ext


def _touch_events(st):
    """edit every event held by a restored run state in place (dynamic field), like a step body working on its input"""
    n = 0
    for w in st.workers.values():
        evs = [q.event for q in w.queue] + [ip.event for ip in w.in_progress]
        for lst in w.collected_events.values():
            evs += list(lst)
        for cw in w.collected_waiters:
            evs += [cw.event] + ([cw.resolved_event] if cw.resolved_event is not None else [])
        for ev in evs:
            try:
                ev["__touched"] = ev.get("__touched", 0) + 1
                n += 1
            except Exception:  # noqa: BLE001
                pass
    return n


def _instance(case):
    from vf import programs

    return programs.make_instance(case["spec"])


def _first_diff(a, b, path=""):
    if type(a) != type(b):
        return f"{path}: {a!r} vs {b!r}"
    if isinstance(a, dict):
        for k in sorted(set(a) | set(b)):
            if a.get(k) != b.get(k):
                return _first_diff(a.get(k), b.get(k), f"{path}/{k}")
    if isinstance(a, list):
        if len(a) != len(b):
            return f"{path}: len {len(a)} vs {len(b)}"
        for i, (x, y) in enumerate(zip(a, b)):
            if x != y:
                return _first_diff(x, y, f"{path}[{i}]")
    return f"{path}: {str(a)[:120]!r} vs {str(b)[:120]!r}"


def run_one(case, acc, only_k=None):
    ref = reference(case)
    tr0, snaps = ref
    if tr0.errors or tr0.outcome is None:
        acc.inconclusive.append(f"reference run failed seed={case['seed']}: {tr0.errors[:1]} outcome={tr0.outcome}")
        return
    acc.sample({"seed": case["seed"], "steps": [(s["name"], s.get("nw"), bool(s.get("retry")), s.get("handler")) for s in case["spec"]["steps"]],
                "ticks": len(tr0.ticks), "reference_outcome": tr0.outcome, "reference_state": tr0.extra.get("final_state")})
    for k, ent in enumerate(snaps):
        if only_k is not None and k != only_k:
            continue
        check_pause(case, k, ent, ref, acc)


def run_waiter_fixed_point(seed, acc):
    """Serialized-form stability on snapshots that hold wait_for_event waiters (requirements are not serialized: the
    'had requirements' flag must survive re-serialization)."""
    from vf import engine_run, gen, oracles

    rnd = random.Random(seed)
    spec = gen.gen_wait(rnd)
    spec["sched_seed"] = seed
    case = {"seed": seed, "family": "wait", "spec": spec}
    tr0, snaps = engine_run.run_with_snapshots(spec)
    if tr0.errors:
        acc.inconclusive.append(f"wait-family reference failed seed={seed}: {tr0.errors[:1]}")
        return
    for ent in snaps:
        if ent["snap"] is None or not any(w["collected_waiters"] for w in ent["snap"]["workers"].values()):
            continue
        wit = {"case": {**case, "k": ent["k"], "mode": "waiter_fixed_point"}, "phase": "resumed"}
        try:
            st1, d2 = _roundtrip(case, ent["snap"])
            st2, d3 = _roundtrip(case, d2)
        except Exception as e:  # noqa: BLE001
            acc.violation({"mech": "from_dict_roundtrip_raises", "exc": type(e).__name__}, f"round trip at pause {ent['k']} raised {e!r}", wit)
            continue
        acc.case()
        acc.hit("fixed_point_eval")
        acc.hit("fixed_point_with_waiter")
        n1, n2 = oracles.norm_state(st1), oracles.norm_state(st2)
        if d2 != d3 or n1 != n2:
            acc.violation({"mech": "serialized_form_not_a_fixed_point"},
                          f"deserialize / re-serialize / deserialize at pause {ent['k']} changes the run state: {oracles.diff_state(n1, n2)[:2] or _first_diff(d2, d3)}", wit)


def run_shard(shard):
    acc = Acc()
    for i in range(shard["n"]):
        run_one(gen_case(shard["seed"] + i), acc)
        for j in range(4):
            run_waiter_fixed_point(shard["seed"] + 5000 + i * 10 + j, acc)
    return acc.to_dict()


def replay(rp):
    acc = Acc()
    c = rp["case"]["case"]
    if c.get("mode") == "waiter_fixed_point":
        run_waiter_fixed_point(c["seed"], acc)
        return acc.to_dict()
    run_one({k: v for k, v in c.items() if k != "k"}, acc, only_k=c.get("k"))
    return acc.to_dict()
