"""C30 — num_concurrent_runs: per-instance limit, progress, independence.

Monitor shape: invariant hooks in the step bodies of *real* `Workflow` subclasses run
through `wf.run()` on the default BasicRuntime under the virtual clock.  A case is a
program: 1-3 workflow instances (three shapes: one step, two chained steps, fan-out to
a 2-worker step) with `num_concurrent_runs` in 1..4 or None, and 2-16 runs started at
generated virtual instants with virtual step latencies; some runs fail in a step, time
out, are aborted with `handler.cancel()` or cancelled with `handler.cancel_run()`
(while executing or while still waiting for a slot).

Decided:
  * at every step-body entry the number of distinct runs of that *instance* that are
    inside a step body is <= N (monitor counters are decremented in the body's own
    `finally`, i.e. exactly when the code under test regains control);
  * a run started while its own instance has fewer than N unfinished runs enters its
    first step at the same virtual instant — whatever other instances are doing
    (independent limits / nothing else blocks a free slot);
  * every started run that nobody cancelled enters a step body; a loop that goes
    quiescent with such a run still waiting is the "never executes" verdict.
"""
from __future__ import annotations

import random

from vf.common import Acc, h

ID = "C30"
LEVEL = "exploration"
TECHNIQUE = ("runtime monitoring: step-body occupancy invariant per workflow instance + same-instant-start and quiescence "
             "(progress) monitors on real Workflow.run() executions under a virtual clock")
LEVEL_TEXT = ("Randomised exploration of start/finish interleavings: generated programs of overlapping runs on several "
              "instances with limits 1..4/None, exact ties (dyadic virtual times), failing / timed-out / aborted / cancelled "
              "runs so every release path of the limit is taken; the invariant is evaluated inside every step body.")
LEVEL_NOTE = ("Trusted: CPython asyncio, vf/vclock.py, the llama_index_instrumentation shim (tracing only), the monitor. "
              "Only the default BasicRuntime is exercised; step bodies are async (threads are real-time).")
DESIGN_REF = "§5 C30"
RULE = ("case = one generated program (instances with limits, runs with start instants/latencies/outcomes); distinct = hash of the "
        "program; non-trivial = the limit was binding in the execution (at least one run entered its first step later than it was started)")
REQUIRED_REACH = ["body_entry", "entry_at_limit", "run_waited_for_slot", "under_limit_start_checked",
                  "under_limit_start_other_instance_saturated", "runs_executed_checked",
                  "release_by_failure", "release_by_abort", "release_by_cancel_run", "release_by_timeout", "abort_while_waiting_for_slot",
                  "run_started_from_inside_a_step", "run_started_from_inside_a_step_of_the_same_instance", "runtime_lifecycle_call_with_runs_in_flight"]
ASSUMPTIONS = ["virtual-time asyncio loop; BasicRuntime; async steps whose cleanup (`finally`) does not await",
               "'execute steps' is read as 'is inside a step body'; the stricter interval reading is only counted (informational)"]
VCLOCK = True
SHARD_TIMEOUT = {"quick": 400, "thorough": 2400}

Q = 1 / 64
AT = [0, 0, 0, 0.25, 0.5, 0.5, 1, 1, 1.5, 2, 3]
LAT = [0, "y", 0.25, 0.5, 0.5, 1, 1, 2]


def plan(tier, seed):
    n = 16 if tier == "quick" else 64
    per = 500 if tier == "quick" else 1300
    return [{"seed": seed * 1000 + i, "n": per, "deep": tier != "quick"} for i in range(n)]


def gen_case(rnd, deep=False):
    ni = rnd.choice([1, 2, 2, 3])
    insts = []
    for _ in range(ni):
        insts.append({"cls": rnd.choice(["W1", "W2", "W2", "W3"]), "N": rnd.choice([1, 1, 2, 2, 3, 4, None]),
                      "timeout": rnd.choice([None, None, None, 1.5])})
    if ni >= 2 and rnd.random() < 0.5:
        insts[1]["cls"] = insts[0]["cls"]          # two instances of the same class, separate limits
    runs = []
    for _ in range(rnd.randint(2, 16 if deep else 10)):
        r = {"inst": rnd.randrange(ni), "at": rnd.choice(AT), "lat1": rnd.choice(LAT), "lat2": rnd.choice(LAT), "mode": "ok"}
        x = rnd.random()
        if x < 0.1:
            r["mode"] = "fail"
        elif x < 0.2:
            r["mode"] = "abort"
            r["cancel_after"] = [rnd.choice([0, 0, 0.25, 0.5, 1]), rnd.randint(0, 3)]
        elif x < 0.3:
            r["mode"] = "cancel_run"
            r["cancel_after"] = [rnd.choice([0, 0.25, 0.5, 1]), rnd.randint(0, 3)]
        runs.append(r)
    if len(runs) >= 3 and rnd.random() < 0.3:
        # nested starts: some runs are started from inside the first step body of another run (same instance or another one), not awaited there
        parent = rnd.randrange(len(runs))
        kids = [k for k in range(len(runs)) if k != parent and rnd.random() < 0.5][:6]
        for k in kids:
            runs[k]["parent"] = parent
            if rnd.random() < 0.7:
                runs[k]["inst"] = runs[parent]["inst"]
    life = []
    if rnd.random() < 0.25:
        # the runtime's lifecycle methods reach it while runs are in flight (another component sharing the runtime starts or stops,
        # or a runtime-agnostic caller launches before every run): they must not disturb the limits
        for _ in range(rnd.randint(1, 3)):
            life.append({"at": rnd.choice([0.25, 0.5, 0.75, 1, 1.25, 2]), "op": rnd.choice(["launch", "launch", "destroy"])})
    return {"insts": insts, "runs": runs, "life": life}


def _classes():
    """Real Workflow subclasses (module vf/c30_workflows.py; imported after the virtual clock is installed)."""
    from vf import c30_workflows as m

    return {"W1": m.W1, "W2": m.W2, "W3": m.W3}


class Monitor:
    def __init__(self, case, acc):
        self.case = case
        self.acc = acc
        self.N = [i["N"] for i in case["insts"]]
        ni = len(self.N)
        self.inbody = [dict() for _ in range(ni)]       # inst -> {uid: bodies currently executing}
        self.outstanding = [0] * ni                      # started and not yet observed finished
        self.first_entry: dict = {}
        self.start_vt: dict = {}
        self.under: dict = {}
        self.log: list = []
        self.viol: list = []
        self.waited = 0
        self.terminated: dict = {}                       # uid -> how the run ended (abort / cancel_run / outcome)
        self.spawned: set = set()
        self.spawner = None

    def spawn_children(self, uid):
        if uid in self.spawned or self.spawner is None:
            return
        self.spawned.add(uid)
        for k, sp in enumerate(self.case["runs"]):
            if sp.get("parent") == uid:
                self.acc.hit("run_started_from_inside_a_step")
                if sp["inst"] == self.case["runs"][uid]["inst"]:
                    self.acc.hit("run_started_from_inside_a_step_of_the_same_instance")
                self.spawner(k)

    def runs_in_body(self, i):
        return sum(1 for c in self.inbody[i].values() if c > 0)

    def enter(self, i, uid, name):
        from vf import vclock

        d = self.inbody[i]
        d[uid] = d.get(uid, 0) + 1
        now = vclock.vnow()
        self.log.append(["enter", i, uid, name, now])
        self.acc.hit("body_entry")
        n = self.N[i]
        k = self.runs_in_body(i)
        if n is not None:
            if k == n:
                self.acc.hit("entry_at_limit")
            if k > n:
                inb = sorted(u for u, c in d.items() if c > 0)
                ended = [u for u in inb if u in self.terminated]
                if ended:
                    # one of the counted bodies belongs to a run that was already aborted / cancelled / finished:
                    # its slot was released while one of its step bodies is still executing
                    sig = {"mech": "limit_exceeded_by_still_running_body_of_ended_run",
                           "ended_by": sorted({self.terminated[u] for u in ended})[0]}
                else:
                    sig = {"mech": "more_live_runs_in_step_bodies_than_limit"}
                self.viol.append((sig,
                                  f"instance {i} (num_concurrent_runs={n}) has {k} distinct runs inside step bodies at vt={now}: "
                                  f"{inb}" + (f"; runs {ended} had already ended ({[self.terminated[u] for u in ended]}) "
                                               f"but a step body of theirs is still executing" if ended else "")))
        if uid not in self.first_entry:
            self.first_entry[uid] = now
            if now != self.start_vt[uid]:
                self.waited += 1
                self.acc.hit("run_waited_for_slot")
            if self.under[uid][0]:
                self.acc.hit("under_limit_start_checked")
                if self.under[uid][1]:
                    self.acc.hit("under_limit_start_other_instance_saturated")
                if now != self.start_vt[uid]:
                    self.viol.append(({"mech": "run_blocked_although_instance_under_limit"},
                                      f"run {uid} was started on instance {i} (limit {n}) at vt={self.start_vt[uid]} with fewer than "
                                      f"{n} unfinished runs there, but entered its first step only at vt={now}"
                                      + (" while another instance was saturated" if self.under[uid][1] else "")))

    def exit(self, i, uid, name):
        from vf import vclock

        self.inbody[i][uid] -= 1
        self.log.append(["exit", i, uid, name, vclock.vnow()])


def run_case(case, acc: Acc):
    import asyncio

    from vf import vclock

    cls = _classes()
    mon = Monitor(case, acc)
    runs = case["runs"]
    cancel_req = [False] * len(runs)
    outcome: dict = {}
    started = [False] * len(runs)

    async def canceller(k, hnd):
        t, j = runs[k]["cancel_after"]
        if t:
            await asyncio.sleep(t)
        for _ in range(j):
            await asyncio.sleep(0)
        if hnd.is_done():
            return
        cancel_req[k] = True
        entered = k in mon.first_entry
        if runs[k]["mode"] == "abort":
            acc.hit("release_by_abort" if entered else "abort_while_waiting_for_slot")
            mon.terminated[k] = "handler.cancel"
            hnd.cancel()
        else:
            acc.hit("release_by_cancel_run" if entered else "cancel_run_while_waiting_for_slot")
            await hnd.cancel_run()

    async def starter(k, wfs, nested=False):
        sp = runs[k]
        if sp["at"] and not nested:
            await asyncio.sleep(sp["at"])
        i = sp["inst"]
        n = mon.N[i]
        under = n is None or mon.outstanding[i] < n
        other_sat = any(mon.N[j] is not None and mon.runs_in_body(j) >= mon.N[j] for j in range(len(wfs)) if j != i)
        mon.outstanding[i] += 1
        mon.start_vt[k] = vclock.vnow()
        mon.under[k] = (under and n is not None, other_sat)
        started[k] = True
        c = None
        aborted = False
        try:
            hnd = wfs[i].run(uid=k, lat1=sp["lat1"], lat2=sp["lat2"], fail=sp["mode"] == "fail")
            if "cancel_after" in sp:
                c = asyncio.ensure_future(canceller(k, hnd))
            try:
                res = await hnd
                outcome[k] = ["ok", res]
            except asyncio.CancelledError:
                if not cancel_req[k]:
                    raise
                aborted = True
                outcome[k] = ["CancelledError"]
            except Exception as e:  # noqa: BLE001
                outcome[k] = [type(e).__name__]
                if type(e).__name__ == "WorkflowTimeoutError":
                    acc.hit("release_by_timeout")
                elif sp["mode"] == "fail":
                    acc.hit("release_by_failure")
            mon.terminated.setdefault(k, "finished:" + outcome[k][0])
            if aborted:
                # the aborted run task unwinds during this virtual instant; only after time has advanced is
                # everything scheduled at that instant guaranteed to have run (keeps `outstanding` from reading low)
                await asyncio.sleep(Q)
        finally:
            mon.outstanding[i] -= 1
        if c is not None:
            await c

    async def main():
        wfs = []
        for idx, sp in enumerate(case["insts"]):
            wf = cls[sp["cls"]](timeout=sp["timeout"], num_concurrent_runs=sp["N"])
            wf._vf_mon = mon
            wf._vf_idx = idx
            wfs.append(wf)
        async def lifecycle(op):
            await asyncio.sleep(op["at"])
            acc.hit("runtime_lifecycle_call_with_runs_in_flight" if any(mon.outstanding) else "runtime_lifecycle_call")
            rt = wfs[0].runtime
            await (rt.launch() if op["op"] == "launch" else rt.destroy())

        life_tasks = [asyncio.ensure_future(lifecycle(op)) for op in case.get("life") or []]
        kids: list = []
        mon.spawner = lambda k: kids.append(asyncio.ensure_future(starter(k, wfs, nested=True)))
        await asyncio.gather(*[starter(k, wfs) for k in range(len(runs)) if runs[k].get("parent") is None])
        while any(not t.done() for t in kids):
            await asyncio.gather(*list(kids))
        for t in kids:
            t.result()
        for t in life_tasks:
            await t

    r = vclock.run(main)
    never = [k for k in range(len(runs)) if started[k] and not cancel_req[k] and k not in mon.first_entry]
    if r.livelock:
        acc.inconclusive.append(f"livelock guard fired in case {h(case)}")
    elif r.quiescent:
        if never:
            mon.viol.append(({"mech": "started_run_never_executes"},
                             f"loop quiescent at vt={r.vt} (no timer, nothing runnable) and runs {never} never entered a step; "
                             f"limits {mon.N}, instances of those runs {[runs[k]['inst'] for k in never]}"))
        else:
            acc.inconclusive.append(f"case {h(case)} went quiescent although every run had executed (not a C30 question)")
    elif r.done and not r.task.cancelled():
        exc = r.exception()
        if exc is not None:
            mon.viol.append(({"mech": "driver_or_run_call_raised", "exc": type(exc).__name__}, f"wf.run()/driver raised {exc!r}"))
        else:
            acc.hit("runs_executed_checked", len(runs))
            if never:
                mon.viol.append(({"mech": "started_run_ended_without_executing"},
                                 f"runs {never} finished with {[outcome.get(k) for k in never]} without ever entering a step"))
            for k, o in outcome.items():
                sp = runs[k]
                expect_ok = sp["mode"] == "ok" and not cancel_req[k]
                if expect_ok and o[0] not in ("ok", "WorkflowTimeoutError"):
                    mon.viol.append(({"mech": "run_failed_unexpectedly", "exc": o[0]}, f"run {k} ended with {o}"))
            # stricter reading (informational): [first entry, last exit] intervals
            for i, n in enumerate(mon.N):
                if n is None:
                    continue
                first, last = {}, {}
                for pos, (kind, ii, uid, _name, _vt) in enumerate(mon.log):
                    if ii != i:
                        continue
                    if kind == "enter":
                        first.setdefault(uid, pos)
                    else:
                        last[uid] = pos
                pts = sorted([(p, 1) for p in first.values()] + [(last[u], -1) for u in first if u in last])
                cur = peak = 0
                for _p, dlt in pts:
                    cur += dlt
                    peak = max(peak, cur)
                if peak > n:
                    acc.note("interval_reading_overlap_exceeds_limit")
    seen = set()
    for sig, what in mon.viol:
        key = h(sig)
        if key in seen:
            continue
        seen.add(key)
        acc.violation(sig, what, case)
    return mon


def run_shard(shard):
    acc = Acc()
    rnd = random.Random(shard["seed"])
    for _ in range(shard["n"]):
        case = gen_case(rnd, shard.get("deep", False))
        acc.case()
        mon = run_case(case, acc)
        if mon.waited:
            acc.sig(h(case))
            if len(acc.samples) < 2:
                acc.sample({"case": case, "log_head": mon.log[:16]})
    return acc.to_dict()


def replay(rp_file):
    acc = Acc()
    run_case(rp_file["case"], acc)
    return acc.to_dict()
