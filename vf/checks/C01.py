"""C01 — a step never runs more invocations at once than its worker limit; distinct slots."""

import random

from vf.common import Acc

ID = "C01"
LEVEL = "exploration"
VCLOCK = True
TECHNIQUE = ("runtime monitoring: generated fan-out/retry/collect workflows on the real engine under a virtual-time loop; "
             "body-log occupancy counter, reducer-state postcondition hook (capacity, distinct slots in range) and per-slot stream automaton")
LEVEL_TEXT = ("Randomised schedules (per-invocation virtual latencies incl. ties) of generated workflow graphs with num_workers 1..4, "
              "bursts above capacity, retries, collect re-runs and resumed (rewound) runs; three independent monitors observe every body "
              "entry/exit, every reducer result and every published slot transition.")
LEVEL_NOTE = ("Trusted: CPython asyncio, instrumentation shim (transparent spans), virtual clock, the probes wrapping control_loop._reduce_tick / "
              "rewind_in_progress from outside. Sync (threaded) steps are covered by a small real-thread workload only.")
DESIGN_REF = "§5 C01"
RULE = ("case = one generated program (fan / collect / wait / catch families) + schedule; distinct = hash of the tick-order signature (tick type, step, worker id); "
        "non-trivial = some step reached full capacity with a non-empty queue")
REQUIRED_REACH = ["overridden_inherited_step", "body_enter", "reducer_post", "stream_slot_events", "queue_nonempty",
                  "state_full_capacity_nw1", "state_full_capacity_nw2", "state_full_capacity_nw3", "state_full_capacity_nw4",
                  "resumed_case", "sync_case"]
ASSUMPTIONS = ["async steps under the virtual clock; sync steps in a separate real-thread workload"]


def plan(tier, seed):
    n = 16 if tier == "quick" else 32
    per = 120 if tier == "quick" else 1200
    return [{"seed": seed * 100000 + i * 1000, "n": per} for i in range(n)]


def gen_case(seed):
    from vf import gen

    rnd = random.Random(seed)
    kind = rnd.choice(["fan", "fan", "fan", "resume", "sync"]) if seed % 7 else "sync"
    fam = rnd.choice(["fan", "fan", "fan", "collect", "collect", "wait", "catch", "equalfan", "collect2", "syncfan"])
    spec = {"fan": lambda r: gen.gen_fan(r, hitl=False), "collect": gen.gen_collect, "wait": gen.gen_wait, "catch": gen.gen_catch,
            "equalfan": gen.gen_equalfan, "collect2": gen.gen_collect2, "syncfan": gen.gen_syncfan}[fam](rnd)
    spec["sched_seed"] = seed
    spec["family"] = fam
    if rnd.random() < 0.2:
        # class hierarchy: some steps come from a base class as they are, others are overridden by the program class with their
        # own num_workers / retry policy (the base declares two more workers and no policy)
        plain = [s_["name"] for s_ in spec["steps"] if not s_.get("handler") and not s_.get("late")]
        rnd.shuffle(plain)
        cut = rnd.randint(1, len(plain))
        spec["inherit"] = plain[:cut]
        spec["inherit_only"] = [n_ for n_ in plain[cut:] if rnd.random() < 0.5]
    return {"kind": kind, "seed": seed, "spec": spec, "snap_at": rnd.randint(2, 25)}


def run_one(case, acc):
    if case["spec"].get("inherit"):
        acc.hit("overridden_inherited_step")
    from vf import engine_run, oracles

    kind = case["kind"]
    if kind == "sync":
        return run_sync(case, acc)
    tr = engine_run.run_case(case["spec"])
    acc.case()
    oracles.c01(tr, acc, {"case": case})
    nontrivial = any(any(st["q"] > 0 and len(st["ip"]) == st["nw"] for st in t["post"].values()) for t in tr.ticks)
    if nontrivial:
        acc.sig(oracles.sig_of_trace(tr))
    acc.sample({"kind": kind, "steps": [(s["name"], s.get("nw"), s.get("in")) for s in case["spec"]["steps"]],
                "tick_signature_head": tr.tick_signature()[:12], "outcome": tr.outcome})
    if kind == "resume":
        run_resume(case, tr, acc)
    return tr


def run_resume(case, tr0, acc):
    """Resume from a mid-run serialized context: in-flight work is rewound and must respect capacity again."""
    import json

    from vf import engine_run, oracles, programs
    from workflows import Context

    spec = case["spec"]
    _tr, snaps = engine_run.run_with_snapshots(spec, only_k=case["snap_at"])
    snap = snaps[case["snap_at"]]["snap"] if len(snaps) > case["snap_at"] else None
    if snap is None:
        return
    if not any(w["in_progress"] or w["queue"] for w in snap["workers"].values()):
        return
    tr2 = engine_run.run_case({**spec, "uid_base": 1000}, ctx_factory=lambda w: Context.from_dict(w, snap), start=False)
    acc.case()
    acc.hit("resumed_case")
    oracles.c01(tr2, acc, {"case": case, "phase": "resumed"})
    acc.sig(oracles.sig_of_trace(tr2))


def run_sync(case, acc):
    """Real threads (run_in_executor) for sync steps: occupancy measured with a lock-protected counter."""
    import asyncio
    import threading
    import time as _t

    from vf import vclock
    from workflows import Context, Workflow, step
    from workflows.events import Event, StartEvent, StopEvent

    rnd = random.Random(case["seed"])
    nw = rnd.randint(1, 4)
    n = rnd.randint(nw + 1, 9)
    lock = threading.Lock()
    st = {"cur": 0, "peak": 0, "over": 0}

    class Item(Event):
        pass

    class Res(Event):
        pass

    class W(Workflow):
        @step
        async def fan(self, ctx: Context, ev: StartEvent) -> Item | None:
            for i in range(n):
                ctx.send_event(Item(uid=i))
            return None

        @step(num_workers=nw)
        def work(self, ctx: Context, ev: Item) -> Res:
            with lock:
                st["cur"] += 1
                st["peak"] = max(st["peak"], st["cur"])
                if st["cur"] > nw:
                    st["over"] += 1
            try:
                vclock._real_sleep(0.002 * rnd.choice([1, 2, 3]))
                return Res(uid=ev.uid)
            finally:
                with lock:
                    st["cur"] -= 1

        @step
        async def coll(self, ctx: Context, ev: Res) -> StopEvent | None:
            r = ctx.collect_events(ev, [Res] * n)
            if r is None:
                return None
            return StopEvent(result=len(r))

    async def main():
        return await W(timeout=None).run()

    cr = vclock.run(main)
    acc.case()
    acc.hit("sync_case")
    if not cr.done or cr.exception() is not None:
        acc.inconclusive.append(f"sync workload did not finish: quiescent={cr.quiescent} exc={cr.exception()!r}")
        return None
    if st["over"] or st["peak"] > nw:
        acc.violation({"mech": "bodies_exceed_num_workers", "kind": "sync_threads"},
                      f"sync step ran {st['peak']} bodies at once with num_workers={nw}", {"case": case})
    if st["peak"] == nw:
        acc.hit("sync_full_capacity")
        acc.sig({"sync": (nw, n)})
    return None


def run_shard(shard):
    acc = Acc()
    for i in range(shard["n"]):
        case = gen_case(shard["seed"] + i)
        run_one(case, acc)
    return acc.to_dict()


def replay(rp):
    acc = Acc()
    run_one(rp["case"]["case"], acc)
    return acc.to_dict()
