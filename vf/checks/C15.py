"""C15 — the server's handler record always reflects the run outcome."""
import asyncio
import json
import os
import random
import shutil

from vf.common import Acc, h

ID = "C15"
LEVEL = "exploration"
VCLOCK = True
TECHNIQUE = ("runtime monitoring on the real WorkflowServer stack: status history of every handler write logged at the store boundary (never terminal -> running), "
             "and the stored record compared with how the run actually ended (terminal event published by the control loop), under injected transient / "
             "persistent store-write faults, both SQLite and in-memory stores")
LEVEL_TEXT = ("Generated runs ending in every way (result, step failure, hostile retry code, non-event return, timeout, user cancel through the service) "
              "x fault plans on handler updates and event appends (within and beyond the persistence backoff budget); verdict taken 300 virtual seconds "
              "after the control loop exited, so 'stays running' is decided without wall-clock deadlines.")
LEVEL_NOTE = ("Trusted: starlette/instrumentation shims, virtual clock, store subclass that logs and injects faults around the real store methods. "
              "Faults beyond the configured backoff budget are exempt (the store is down) and only counted.")
DESIGN_REF = "§5 C15"
RULE = "case = (outcomes-family program, store kind, fault plan); distinct = hash of (tick-order signature, fault plan); non-trivial = the run ended"
REQUIRED_REACH = ["run_ended", "ended_result", "ended_failed", "ended_cancelled", "ended_timeout", "status_history_eval", "fault_injected", "store_sqlite", "store_memory", "slow_store", "hitl_case", "hitl_run_ended", "hitl_send_near_terminal", "hitl_cancel_case", "hitl_cancel_after_idle_release"]
ASSUMPTIONS = ["persistence_backoff=[0.5, 3]: up to 2 consecutive failures of one write are 'transient'"]


def plan(tier, seed):
    n = 16 if tier == "quick" else 32
    per = 30 if tier == "quick" else 400
    return [{"seed": seed * 1_000_000 + i * 10_000, "n": per} for i in range(n)]


def gen_case(seed):
    from vf import gen

    rnd = random.Random(seed)
    spec = gen.gen_outcomes(rnd)
    spec["sched_seed"] = seed
    cancel_at = None
    for x in spec.get("externals", []):
        if x.get("cancel"):
            cancel_at = x["at"]
    spec["externals"] = []
    faults = []
    style = rnd.choice(["none", "none", "update_transient", "update_transient", "update_over_budget", "append_event_once", "spread", "spread"])
    if style == "update_transient":
        faults = [{"method": "update", "from": rnd.randint(2, 4), "count": rnd.randint(1, 2)}]
    elif style == "update_over_budget":
        faults = [{"method": "update", "from": rnd.randint(2, 4), "count": 5}]
    elif style == "append_event_once":
        faults = [{"method": "append_event", "from": rnd.randint(1, 12), "count": 1}]
    elif style == "spread":
        # several isolated transient faults over the server's lifetime: each one is within the per-write retry budget
        a = rnd.randint(1, 4)
        b = a + rnd.randint(2, 4)
        c = b + rnd.randint(2, 4)
        faults = [{"method": "append_event", "from": a, "count": 1}, {"method": "append_event", "from": b, "count": 1},
                  {"method": "append_event", "from": c, "count": 1}, {"method": "update", "from": rnd.randint(2, 3), "count": 1}]
    return {"seed": seed, "spec": spec, "store": rnd.choice(["sqlite", "memory"]), "faults": faults, "fault_style": style, "cancel_at": cancel_at,
            "store_latency": rnd.choice([None, None, None, 0.05, 0.3])}


TERMINAL_STATUS = ("completed", "failed", "cancelled")


def run_one(case, acc):
    from vf import boot, oracles
    from vf import server_run as sr

    d = boot.scratch_dir()
    try:
        cs = sr.Case(case["spec"])
        out = {}
        log = []

        async def main():
            store = sr.fault_store(case["store"], os.path.join(d, "c.db"), faults=case["faults"], log=log, latency=case.get("store_latency"))
            if case.get("store_latency"):
                acc.hit("slow_store")
            proc = await sr.Proc(case["spec"], store).start()
            await proc.start_run("h1", cs.tr.rec)
            if case["cancel_at"] is not None:
                await asyncio.sleep(case["cancel_at"])
                try:
                    out["cancel"] = await proc.server._service.cancel_handler("h1")
                except Exception as e:  # noqa: BLE001
                    out["cancel_err"] = repr(e)
            await asyncio.sleep(400)
            out["h"] = sr.handler_view(await proc.handler("h1"))
            out["fault_hits"] = store.vf_fault_hits

        cs.phase(main)
        tr = cs.tr
        acc.case()
        acc.hit("store_" + case["store"])
        wit = {"case": case}
        ph = cs.phases[-1]
        if ph["exc"] is not None and "h" not in out:
            acc.inconclusive.append(f"server case crashed seed={case['seed']}: {ph['exc'][:300]}")
            return
        if out.get("fault_hits"):
            acc.hit("fault_injected")
        # ---- status history: a stored terminal status is never changed back to running
        hist = [e for e in log if e["k"] == "status" and e["handler"] == "h1"]
        acc.hit("status_history_eval")
        seen_terminal = None
        for e in hist:
            if seen_terminal and e["status"] == "running":
                acc.violation({"mech": "terminal_status_changed_back_to_running", "from": seen_terminal},
                              f"handler status history {[x['status'] for x in hist]}", wit)
                break
            if e["status"] in TERMINAL_STATUS:
                seen_terminal = e["status"]
        # ---- how did the run end (as published by the control loop)
        term = next((p["etype"] for p in tr.pubs if p["etype"] in ("StopEvent", "Done", "WorkflowFailedEvent", "WorkflowCancelledEvent", "WorkflowTimedOutEvent")), None)
        runner_done = bool(tr.runners) and all(not r.worker_tasks for r in tr.runners)
        ended = term is not None or any(t["exit"] for t in tr.ticks)
        hv = out.get("h")
        if not ended:
            # the control loop may have died without a terminal event (engine-side failure): the run has ended all the same
            died = ph["exc"] is None and tr.ticks and not any(t["exit"] for t in tr.ticks) and _loop_dead(tr)
            if died:
                acc.hit("run_ended")
                acc.hit("ended_engine_error")
                if hv is None or hv["status"] == "running":
                    if case["fault_style"] == "update_over_budget" and out.get("fault_hits", 0) > 2:
                        acc.note("running_after_over_budget_store_failure")
                        return
                    acc.violation({"mech": "handler_running_after_control_loop_died", "fault": case["fault_style"]},
                                  f"control loop exited without a terminal event (store fault / engine error) but handler is {hv}", wit)
            return
        acc.hit("run_ended")
        acc.sig(h({"sig": oracles.sig_of_trace(tr), "f": case["faults"], "st": case["store"]}))
        derived = term is None
        if term is None:
            # the terminal event never reached the innermost adapter (store fault on its way): read it off the exit tick's commands
            xt = next(t for t in tr.ticks if t["exit"])
            term = next((p["type"] for p in xt["pubs"] if p["type"] in ("StopEvent", "Done", "WorkflowFailedEvent", "WorkflowCancelledEvent", "WorkflowTimedOutEvent")), None)
        kind = {"StopEvent": "result", "Done": "result", "WorkflowFailedEvent": "failed", "WorkflowCancelledEvent": "cancelled", "WorkflowTimedOutEvent": "timeout"}.get(term, "failed")
        acc.hit("ended_" + kind)
        want = {"result": "completed", "failed": "failed", "cancelled": "cancelled", "timeout": "failed"}[kind]
        exempt = case["fault_style"] == "update_over_budget" and out.get("fault_hits", 0) > 2
        if hv is None:
            acc.violation({"mech": "handler_record_missing"}, "handler row not found after the run", wit)
            return
        if hv["status"] != want:
            if derived and case["cancel_at"] is not None and out.get("cancel") == "cancelled" and hv["status"] == "cancelled":
                # the user's cancel killed the control loop while it was still publishing its own terminal event (never observable):
                # 'cancelled' is the outcome the service reported and the only one anybody saw
                acc.note("cancel_killed_loop_before_its_terminal_event_was_published")
                return
            if exempt:
                acc.note("status_wrong_after_over_budget_store_failure")
                return
            acc.violation({"mech": "handler_status_does_not_match_outcome", "outcome": kind, "status": hv["status"], "fault": case["fault_style"]},
                          f"run ended as {kind} (terminal event {term}) but the stored handler is {hv}", wit)
            return
        if want == "completed" and hv["result"] is None:
            acc.violation({"mech": "completed_handler_without_result"}, f"handler {hv}", wit)
        if want == "failed" and not hv["error"]:
            acc.violation({"mech": "failed_handler_without_error"}, f"handler {hv}", wit)
        acc.sample({"seed": case["seed"], "store": case["store"], "faults": case["faults"], "terminal_event": term, "handler": hv,
                    "status_history": [e["status"] for e in hist]})
    finally:
        shutil.rmtree(d, ignore_errors=True)


def gen_hitl(seed):
    """a run waiting for human answers; every answer is sent by two clients (same instant or slightly apart), plus stray
    sends around the moment the last answer ends the run; slow store optional.  Decides: a terminal status is never
    overwritten by a send that was accepted while the run was still waiting."""
    from vf import idle_cases as ic

    rnd = random.Random(seed)
    spec, keys = ic.gen_program(rnd, n=rnd.randint(1, 2))
    spec["sched_seed"] = seed
    lat = rnd.choice([None, 0.05, 0.1, 0.3])
    t0 = 4.0 + 12 * (lat or 0)
    sends = []
    for i, k in enumerate(keys):
        at = t0 + i * rnd.choice([0, 0.5, 2.0])
        sends.append({"at": at, "key": k})
        for _ in range(rnd.randint(2, 4)):
            sends.append({"at": at + rnd.choice([0, 0, 0.001, 0.05, 0.2, 0.4, 0.6, 0.9, 1.2]), "key": k})
    case = {"seed": seed, "kind": "hitl", "spec": spec, "keys": keys, "store": rnd.choice(["sqlite", "memory"]), "store_latency": lat, "sends": sends,
            "idle_timeout": rnd.choice([1000.0, 1000.0, 1.0])}
    if rnd.random() < 0.3:
        # nobody answers; the user cancels the waiting run through the service — while it is in memory, or after idle release
        case["sends"] = []
        case["idle_timeout"] = rnd.choice([1000.0, 1.0, 1.0])
        case["cancel_at"] = t0 + rnd.choice([0, 2.0, 6.0])
    return case


def run_hitl(case, acc):
    from vf import boot
    from vf import server_run as sr

    d = boot.scratch_dir()
    try:
        cs = sr.Case(case["spec"])
        out = {}
        log = []

        async def main():
            store = sr.fault_store(case["store"], os.path.join(d, "c.db"), log=log, latency=case.get("store_latency"))
            proc = await sr.Proc(case["spec"], store, idle_timeout=case["idle_timeout"]).start()
            await proc.start_run("h1", cs.tr.rec)

            async def send_at(sd):
                await asyncio.sleep(sd["at"])
                await proc.send("h1", "Answer", {"key": sd["key"]}, cs.tr.rec)

            tasks = [asyncio.ensure_future(send_at(sd)) for sd in case["sends"]]
            if case.get("cancel_at") is not None:
                await asyncio.sleep(case["cancel_at"])
                try:
                    out["cancel"] = await proc.server._service.cancel_handler("h1")
                except Exception as e:  # noqa: BLE001
                    out["cancel_err"] = repr(e)
            await asyncio.sleep(300)
            out["h"] = sr.handler_view(await proc.handler("h1"))

        cs.phase(main)
        acc.case()
        acc.hit("hitl_case")
        if case.get("store_latency"):
            acc.hit("slow_store")
        wit = {"case": case}
        ph = cs.phases[-1]
        if ph["exc"] is not None and "h" not in out:
            acc.inconclusive.append(f"hitl case crashed seed={case['seed']}: {ph['exc'][:300]}")
            return
        hist = [e for e in log if e["k"] == "status" and e["handler"] == "h1"]
        acc.hit("status_history_eval")
        seen_terminal = None
        for e in hist:
            if seen_terminal and e["status"] == "running":
                acc.hit("hitl_send_after_terminal")
                acc.violation({"mech": "terminal_status_changed_back_to_running", "from": seen_terminal, "scenario": "duplicate_senders"},
                              f"two clients answering the same prompt: handler status history {[x['status'] for x in hist]}", wit)
                break
            if e["status"] in TERMINAL_STATUS:
                seen_terminal = e["status"]
        if seen_terminal:
            t_term = next(x["t"] for x in hist if x["status"] in TERMINAL_STATUS)
            if any(e["t"] > t_term for e in hist):
                acc.hit("hitl_write_after_terminal")
            if any(t_term - 1.0 <= sd["at"] <= t_term + 0.05 for sd in case["sends"]):
                acc.hit("hitl_send_near_terminal")  # a send accepted around the instant the terminal status was stored
        hv = out.get("h")
        if case.get("cancel_at") is not None:
            acc.hit("hitl_cancel_case")
            if case["idle_timeout"] < 100:
                acc.hit("hitl_cancel_after_idle_release")
            if out.get("cancel") == "cancelled" and (hv is None or hv["status"] != "cancelled"):
                acc.violation({"mech": "handler_status_does_not_match_outcome", "outcome": "cancelled", "status": hv and hv["status"], "scenario": "cancel_waiting_run",
                               "idle_released": case["idle_timeout"] < 100},
                              f"cancel_handler answered 'cancelled' for a waiting run (idle_timeout={case['idle_timeout']}) but the stored handler is {hv}; "
                              f"history {[x['status'] for x in hist]}", wit)
            return
        ended = any(t["exit"] for t in cs.tr.ticks)
        if ended:
            acc.hit("hitl_run_ended")
            if hv is None or hv["status"] != "completed":
                acc.violation({"mech": "handler_status_does_not_match_outcome", "outcome": "result", "status": hv and hv["status"], "scenario": "duplicate_senders"},
                              f"the run ended with its StopEvent but the stored handler is {hv}; history {[x['status'] for x in hist]}", wit)
        acc.sig(h({"hitl": case["seed"]}))
    finally:
        shutil.rmtree(d, ignore_errors=True)


def _loop_dead(tr):
    """all control-loop runners of this case have no worker tasks and at least one tick was processed"""
    return all(len(r.worker_tasks) == 0 for r in tr.runners)


def run_shard(shard):
    acc = Acc()
    for i in range(shard["n"]):
        run_one(gen_case(shard["seed"] + i), acc)
        run_hitl(gen_hitl(shard["seed"] + 5000 + i), acc)
    return acc.to_dict()


def replay(rp):
    acc = Acc()
    if rp["case"]["case"].get("kind") == "hitl":
        run_hitl(rp["case"]["case"], acc)
        return acc.to_dict()
    run_one(rp["case"]["case"], acc)
    return acc.to_dict()
