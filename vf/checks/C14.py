"""C14 — pending retries and waiter timeouts survive idle release and restart."""
import random

from vf.common import Acc, h

ID = "C14"
LEVEL = "exploration"
VCLOCK = True
TECHNIQUE = ("runtime monitoring on the real server stack under a virtual clock: programs whose only way forward is a pending timer (retry delay D, "
             "wait_for_event timeout T), idle_timeout and restart instants placed on a grid around D / T; verdict = stored handler status once the loop is quiescent")
LEVEL_TEXT = ("Grid of idle_timeout / D and idle_timeout / T ratios in {0.1 .. 10} plus process restarts at random instants while the timer is pending; "
              "a handler still 'running' with nothing scheduled, long after the timer was due, is the 'stays running forever' refutation (no wall-clock deadline involved).")
LEVEL_NOTE = "In-process stack with SQLite persistence; restart = emulated process death (fresh runtime + server over the same file). Trusted: virtual clock, shims."
DESIGN_REF = "§5 C14"
RULE = "case = (timer kind, D or T, idle_timeout, restart instant); distinct = hash of the scenario; non-trivial = a release or restart happened while the timer was pending"
REQUIRED_REACH = ["scenario", "timer_waiter_timeout", "timer_retry_delay", "released_while_timer_pending", "restart_while_timer_pending", "finished", "timer_waiter_chain", "timer_timeout_then_restart", "timer_fired_timeout_then_reload", "timer_shorter_than_a_store_write", "restart_with_another_unfinished_run"]
ASSUMPTIONS = []


def plan(tier, seed):
    n = 16 if tier == "quick" else 32
    per = 10 if tier == "quick" else 120
    return [{"seed": seed * 1_000_000 + i * 10_000, "n": per} for i in range(n)]


def gen_case(seed):
    from vf import idle_cases as ic

    rnd = random.Random(seed)
    kind = rnd.choice(["waiter_timeout", "retry_delay", "waiter_chain", "timeout_then_restart", "fired_timeout_then_reload", "short_timer_slow_store", "two_busy_runs_at_restart"])
    if kind == "two_busy_runs_at_restart":
        # two runs of the workflow are both busy handling a waiter timeout that has just fired when the server restarts; afterwards
        # each asks its human, and only one of the humans ever answers: that run must finish whatever the other one does
        dur0 = rnd.choice([1.0, 2.0])
        busy = rnd.choice([2.0, 4.0])
        spec, keys = ic.gen_program(rnd, n=1, escalate=dur0, post_wait_sleep=busy)
        for it in spec["steps"][0]["acts"][0]["items"]:
            it["lat"] = [0]
        spec["sched_seed"] = seed
        t_restart = dur0 + busy * rnd.choice([0.25, 0.5, 0.75])
        return {"seed": seed, "kind": "fired_timeout_then_reload", "variant": "two_busy_runs_at_restart", "dur": dur0, "I": 1000.0, "spec": spec, "keys": keys,
                "restart": "at", "restart_at": t_restart, "restart_frac": 0.5, "answer_at": t_restart + busy + dur0 + 5.0, "blocker": rnd.choice(["before", "after"])}
    dur = rnd.choice([2.0, 5.0, 10.0])
    if kind == "short_timer_slow_store":
        # a timer shorter than one store write (or zero): it falls due while the control loop is still busy persisting the tick that
        # armed it / marking the run idle.  No release, no restart: the timer simply has to take effect
        which = rnd.choice(["waiter_timeout", "retry_delay"])
        dur = rnd.choice([0, 0.02, 0.05, 0.15])
        if which == "waiter_timeout":
            spec, keys = ic.gen_program(rnd, n=rnd.randint(1, 2), waiter_timeout=dur)
        else:
            dur = dur or 0.02
            spec, keys = ic.gen_program(rnd, n=1, retry_delay=dur)
        spec["sched_seed"] = seed
        return {"seed": seed, "kind": which, "variant": "short_timer_slow_store", "dur": dur, "I": 1000.0, "spec": spec, "keys": keys, "restart": None, "restart_frac": 0.5,
                "store_latency": rnd.choice([0.1, 0.1, 0.03]), "late_event": rnd.random() < 0.5}
    ratio = rnd.choice([0.1, 0.25, 0.5, 2.0, 10.0])
    if kind == "fired_timeout_then_reload":
        # the waiter timeout FIRES in memory and the same invocation goes on to wait for the human; the run is then released for
        # idleness (or the server restarts) and only afterwards the answer arrives: the reloaded step re-runs from the top and must
        # get its TimeoutError for the first wait again
        dur = rnd.choice([1.0, 2.0])
        spec, keys = ic.gen_program(rnd, n=1, escalate=dur)
        spec["sched_seed"] = seed
        how = rnd.choice(["idle_release", "restart"])
        return {"seed": seed, "kind": kind, "dur": dur, "I": dur * 3 if how == "idle_release" else 1000.0, "spec": spec, "keys": keys,
                "restart": "after_fired" if how == "restart" else None, "restart_frac": 0.5, "answer_at": 1.0 + dur * 3 + dur + 5.0}
    if kind == "timeout_then_restart":
        # the waiter timeout fires in memory (idle_timeout is longer), the step is still busy handling it when the server restarts:
        # the TimeoutError must still take effect after the restart
        dur = rnd.choice([1.0, 2.0])
        busy = rnd.choice([2.0, 4.0])
        spec, keys = ic.gen_program(rnd, n=1, waiter_timeout=dur, post_wait_sleep=busy)
        spec["sched_seed"] = seed
        return {"seed": seed, "kind": kind, "dur": dur, "I": dur * rnd.choice([5.0, 20.0]), "spec": spec, "keys": keys, "restart": "after_timeout", "restart_frac": rnd.choice([0.25, 0.5, 0.75]),
                "busy": busy}
    if kind == "waiter_chain":
        # two waits in a row with idle_timeout between one and two waiter timeouts: the release timer armed in the first idle
        # period comes due in the second one, before the second wait's timeout; the run must not be released by it
        ratio = rnd.choice([1.25, 1.5, 1.75])
        spec, keys = ic.gen_program(rnd, n=1, waiter_timeout=dur, chain=True)
        spec["sched_seed"] = seed
        return {"seed": seed, "kind": kind, "dur": dur, "I": dur * ratio, "spec": spec, "keys": keys, "restart": None, "restart_frac": 0.5,
                "answer_first": rnd.random() < 0.5}
    if kind == "waiter_timeout":
        spec, keys = ic.gen_program(rnd, n=rnd.randint(1, 2), waiter_timeout=dur)
    else:
        # one pending retry, or two with different delays (the run is quiet between the first and the second retry)
        delays = dur if rnd.random() < 0.5 else [dur * rnd.choice([0.2, 0.4]), dur]
        spec, keys = ic.gen_program(rnd, n=1, retry_delay=delays)
    spec["sched_seed"] = seed
    restart = rnd.choice([None, None, "during"])
    return {"seed": seed, "kind": kind, "dur": dur, "I": dur * ratio, "spec": spec, "keys": keys, "restart": restart, "restart_frac": rnd.choice([0.2, 0.5, 0.9])}


def run_one(case, acc):
    from vf import idle_cases as ic

    wit = {"case": case}
    kind, dur, I = case["kind"], case["dur"], case["I"]
    sends = []
    if kind == "retry_delay":
        # the human answers at once; the only pending thing is the delayed retry of the flaky step
        sends = [{"at": 1.5 if not case.get("store_latency") else 8.0, "pay": {"key": k}} for k in case["keys"]]   # (after the wait is registered, also on a slow store)
    if kind == "waiter_chain" and case.get("answer_first"):
        # the first wait is answered (not timed out) a little before its timeout
        sends = [{"at": 1.0 + dur * 0.75, "pay": {"key": k}} for k in case["keys"]]
    if kind == "fired_timeout_then_reload":
        sends = [{"at": case["answer_at"], "pay": {"key": k}} for k in case["keys"]]
    restarts = []
    if case["restart"] == "after_fired":
        restarts = [1.0 + dur + 2.0]   # the timeout has fired, the run sits in its second wait
    if case["restart"] == "after_timeout":
        # items sleep <= 1 s before waiting; the timeout fires at <= 1 + dur (+ latencies); restart inside the busy stretch after it
        restarts = [1.0 + dur + case["busy"] * case["restart_frac"]]
    if case["restart"] == "at":
        restarts = [case["restart_at"]]
    if case["restart"] == "during":
        t0 = 1.0 if kind == "waiter_timeout" else 0.25
        restarts = [t0 + 0.5 + dur * case["restart_frac"] * 0.5]
    if case.get("variant") == "short_timer_slow_store":
        acc.hit("timer_shorter_than_a_store_write")
    blocker = case.get("blocker")
    if blocker:
        acc.hit("restart_with_another_unfinished_run")
    elif restarts and kind in ("retry_delay", "fired_timeout_then_reload") and random.Random(case["seed"] ^ 0xB10C).random() < 0.5:
        # another run of the same workflow is in flight at the restart and never finishes (its human never answers): resuming the
        # runs after the restart must not make one wait for the other
        blocker = random.Random(case["seed"] ^ 0xB10D).choice(["before", "after"])
        acc.hit("restart_with_another_unfinished_run")
    scn = {"spec": case["spec"], "idle_timeout": I, "sends": sends, "restarts": restarts, "store": "sqlite", "end": 100.0 + 6 * dur,
           "store_latency": case.get("store_latency"), "blocker": blocker}
    obs, cs = ic.run_scenario(scn)
    acc.case()
    acc.hit("scenario")
    acc.hit("timer_" + kind)
    if any(p["exc"] for p in obs["case_phases"]):
        acc.inconclusive.append(f"scenario crashed seed={case['seed']}: {[p['exc'] for p in obs['case_phases'] if p['exc']][0][:300]}")
        return
    final = obs["phases"][-1]["h"]
    pending_release = [r for r in obs["releases"] if r.get("reason") == "idle_release" and
                       (("TickWaiterTimeout" in r.get("wakeups", [])) if kind in ("waiter_timeout", "waiter_chain", "timeout_then_restart", "fired_timeout_then_reload") else ("TickAddEvent" in r.get("wakeups", [])))]
    if pending_release:
        acc.hit("released_while_timer_pending")
    if restarts:
        acc.hit("restart_while_timer_pending")
    if pending_release or restarts:
        acc.sig(h({k: v for k, v in case.items() if k != "spec"}))
    if final is not None and final["status"] == "completed":
        acc.hit("finished")
    else:
        lost_on = "restart" if restarts else ("idle_release" if pending_release else "none")
        acc.violation({"mech": "run_stays_running_timer_lost", "timer": kind, "lost_on": lost_on, "idle_timeout_shorter_than_timer": I < dur,
                       **({"variant": case["variant"]} if case.get("variant") else {}), **({"another_unfinished_run": True} if blocker else {})},
                      f"{kind}={dur}s, idle_timeout={I}s, restarts={restarts}: the timer never took effect; handler after {scn['end']} virtual s is {final}; "
                      f"releases {[(r['t'], r.get('wakeups')) for r in obs['releases']]}", wit)
    acc.sample({"seed": case["seed"], "kind": kind, "dur": dur, "idle_timeout": I, "restarts": restarts, "releases": [r["t"] for r in obs["releases"]], "final": final})


def run_shard(shard):
    acc = Acc()
    for i in range(shard["n"]):
        run_one(gen_case(shard["seed"] + i), acc)
    return acc.to_dict()


def replay(rp):
    acc = Acc()
    run_one(rp["case"]["case"], acc)
    return acc.to_dict()
