"""C04 — every run ends once, and its stream ends with the matching terminal event."""
from vf import engine_check

ID = "C04"
LEVEL = "exploration"
VCLOCK = True
TECHNIQUE = ("runtime monitoring: offline checker over the recorded handler outcome and the consumed stream (exactly one terminal event, last, of the "
             "matching class; nothing published after it; consumer terminates), with quiescence under a virtual clock deciding 'consumer never terminates'")
LEVEL_TEXT = ("Generated runs ending in every way (result, step failure, non-event return, racing StopEvents, cancel and timeout at random virtual "
              "instants, background stream writes, hostile user retry policies/predicates that raise or return junk); a stream consumer still pending "
              "when the loop is quiescent after the run ended is the bounded-liveness refutation.")
LEVEL_NOTE = "Trusted: virtual clock quiescence detection, instrumentation shim; the consumer is the real handler.stream_events(expose_internal=True)."
DESIGN_REF = "§5 C04"
RULE = "case = generated program (outcomes / fan / wait families) + schedule; distinct = tick-order signature hash; non-trivial = the run finished"
REQUIRED_REACH = ["finished_run", "outcome_result", "outcome_failed", "outcome_cancelled", "outcome_timeout", "family_outcomes", "family_syncfan", "late_stream_consumer", "verbose_workflow"]
ASSUMPTIONS = ["hostile retry code is limited to: next() raising, returning a str / NaN / negative number, predicate raising"]
FAMILIES = [("outcomes", 4), ("fan", 1), ("wait", 1), ("syncfan", 1)]


def plan(tier, seed):
    return engine_check.std_plan(tier, seed, quick_per=120, thorough_per=1500)


def _oracles():
    from vf import oracles

    return [oracles.c04]


def _nontrivial(tr):
    return tr.outcome is not None


def run_shard(shard):
    import random

    from vf.common import Acc

    acc = Acc()
    for i in range(shard["n"]):
        case = engine_check.gen_case(shard["seed"] + i, FAMILIES)
        rnd = random.Random(case["seed"] ^ 0xC04)
        if not case["spec"].get("responders") and rnd.random() < 0.25:
            # the stream consumer starts late: shortly after the start, in the middle, or long after the run has ended
            case["spec"]["consumer_delay"] = rnd.choice([0.3, 2, 50])
            acc.hit("late_stream_consumer")
        if rnd.random() < 0.15:
            case["spec"]["verbose"] = True
            acc.hit("verbose_workflow")
        engine_check.run_one(case, acc, _oracles(), _nontrivial)
    return acc.to_dict()


def replay(rp):
    return engine_check.replay(rp, _oracles())
