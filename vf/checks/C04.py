"""C04 — every run ends once, and its stream ends with the matching terminal event."""
from vf import engine_check

ID = "C04"
LEVEL = "exploration"
VCLOCK = True
TECHNIQUE = ("runtime monitoring: offline checker over the recorded handler outcome and the consumed stream (exactly one terminal event, last, of the "
             "matching class; nothing published after it; consumer terminates), with quiescence under a virtual clock deciding 'consumer never terminates'")
LEVEL_TEXT = ("Generated runs ending in every way (result, step failure, non-event return, racing StopEvents, cancel and timeout at random virtual "
              "instants, background stream writes, hostile user retry policies/predicates that raise or return junk); a stream consumer still pending "
              "when the loop is quiescent after the run ended is the bounded-liveness refutation.")
LEVEL_NOTE = "Trusted: virtual clock quiescence detection, instrumentation shim; the consumer is the real handler.stream_events(expose_internal=True)."
DESIGN_REF = "§5 C04"
RULE = "case = generated program (outcomes / fan / wait families) + schedule; distinct = tick-order signature hash; non-trivial = the run finished"
REQUIRED_REACH = ["finished_run", "outcome_result", "outcome_failed", "outcome_cancelled", "outcome_timeout", "family_outcomes", "family_syncfan", "late_stream_consumer", "verbose_workflow", "run_id_reuse_case"]
ASSUMPTIONS = ["hostile retry code is limited to: next() raising, returning a str / NaN / negative number, predicate raising"]
FAMILIES = [("outcomes", 4), ("fan", 1), ("wait", 1), ("syncfan", 1)]


def plan(tier, seed):
    return engine_check.std_plan(tier, seed, quick_per=120, thorough_per=1500)


def _oracles():
    from vf import oracles

    return [oracles.c04]


def _nontrivial(tr):
    return tr.outcome is not None


def _run_id_reuse(acc, seed):
    """An explicit run_id used a second time while the first run's handler (and its unread stream) is still around: the runtime may
    refuse the second run, but if it runs it is a run like any other -- its stream is its own and ends with ITS terminal event."""
    import asyncio
    import random

    from vf import events as E
    from vf import programs, vclock

    rnd = random.Random(seed)
    first_fails = rnd.random() < 0.6
    keep = rnd.random() < 0.8
    spec_a = {"family": "tiny", "steps": [{"name": "start", "in": ["Go"], "nw": 1, "acts": [{"k": "stream"}, {"k": "sleep", "d": 0.5}] + (
        [{"k": "fail", "n": -1, "exc": "E1"}] if first_fails else []) + [{"k": "ret", "type": "StopEvent", "result": "const"}]}], "timeout": None}
    spec_b = {"family": "tiny", "steps": [{"name": "start", "in": ["Go"], "nw": 1, "acts": [{"k": "stream"}, {"k": "sleep", "d": 0.5}, {"k": "ret", "type": "StopEvent", "result": "const"}]}], "timeout": None}
    out = {}
    rid = f"job-{seed}"

    async def main():
        programs.reset_recorder()
        wa, wb = programs.make_instance(spec_a), programs.make_instance(spec_b)
        ha = wa.run(run_id=rid, start_event=E.Go(uid=1, v="a"))
        try:
            await ha
            out["a"] = "result"
        except Exception as e:  # noqa: BLE001
            out["a"] = type(e).__name__
        held = [ha] if keep else None
        if not keep:
            del ha
        await asyncio.sleep(1)
        try:
            hb = wb.run(run_id=rid, start_event=E.Go(uid=2, v="b"))
        except Exception as e:  # noqa: BLE001
            out["b_refused"] = repr(e)
            return held
        got = []

        async def consume():
            async for ev in hb.stream_events():
                got.append(type(ev).__name__)

        c = asyncio.ensure_future(consume())
        try:
            await hb
            out["b"] = "result"
        except Exception as e:  # noqa: BLE001
            out["b"] = type(e).__name__
        try:
            await asyncio.wait_for(c, 50)
            out["consumer"] = "ended"
        except asyncio.TimeoutError:
            out["consumer"] = "pending"
        out["stream_b"] = got
        await asyncio.sleep(1)
        try:
            out["left_b"] = [type(x).__name__ for x in list(hb._external_adapter._queues.publish_queue._queue)]
        except Exception:  # noqa: BLE001
            out["left_b"] = []
        return held

    vclock.run(main)
    acc.case()
    acc.hit("run_id_reuse_case")
    wit = {"case": {"kind": "run_id_reuse", "seed": seed}}
    if "b_refused" in out:
        acc.hit("run_id_reuse_refused")
        return
    acc.hit("run_id_reuse_accepted")
    sb = out.get("stream_b", [])
    terminal = [x for x in sb if x in ("StopEvent", "WorkflowFailedEvent", "WorkflowCancelledEvent", "WorkflowTimedOutEvent")]
    want = "StopEvent" if out.get("b") == "result" else None
    if out.get("consumer") != "ended" or terminal != ([want] if want else terminal) or (sb and sb[-1] != terminal[-1] if terminal else True) or out.get("left_b"):
        acc.violation({"mech": "reused_run_id_stream_not_its_own", "first_run": out.get("a")},
                      f"second run under the run_id of the first (first run ended as {out.get('a')}, its stream unread, handler kept={keep}): outcome {out.get('b')}, "
                      f"stream {sb}, consumer {out.get('consumer')}, left in its queue afterwards {out.get('left_b')}", wit)


def run_shard(shard):
    import random

    from vf.common import Acc

    acc = Acc()
    for j in range(3):
        _run_id_reuse(acc, shard["seed"] * 7 + j)
    for i in range(shard["n"]):
        case = engine_check.gen_case(shard["seed"] + i, FAMILIES)
        rnd = random.Random(case["seed"] ^ 0xC04)
        if not case["spec"].get("responders") and rnd.random() < 0.25:
            # the stream consumer starts late: shortly after the start, in the middle, or long after the run has ended
            case["spec"]["consumer_delay"] = rnd.choice([0.3, 2, 50])
            acc.hit("late_stream_consumer")
        if rnd.random() < 0.15:
            case["spec"]["verbose"] = True
            acc.hit("verbose_workflow")
        engine_check.run_one(case, acc, _oracles(), _nontrivial)
    return acc.to_dict()


def replay(rp):
    c = rp["case"].get("case", {})
    if isinstance(c, dict) and c.get("kind") == "run_id_reuse":
        from vf.common import Acc

        acc = Acc()
        _run_id_reuse(acc, c["seed"])
        return acc.to_dict()
    return engine_check.replay(rp, _oracles())
