"""C37 — llamactl never activates a profile the user did not pick in that environment.

Monitor shape: history checker over random operation sequences on the real
`ConfigManager` / `EnvService` / `AuthService` (SQLite under a fresh temp
`LLAMACTL_CONFIG_DIR` per case).  After every operation the public observation points
are read back (`EnvService.get_current_environment()`, `list_environments()`,
`current_auth_service().get_current_profile()`) and judged against what the history says:

1. the current environment is one the tool lists, or the built-in default;
2. the active profile is `None`, or a profile whose `api_url` is the current environment
   and which was — at some point of the history — selected or created while that
   environment was the current one.

Clause 2 is decided with the most lenient reading of the statement: a profile qualifies
if *either* its identity (`id`) or its `(environment, name)` pair was ever picked
(created / selected, by the user or by the tool's own `select_any_profile`) while its
environment was current.  Stricter readings ("the active profile is the pick that is
still in force", "qualifies by identity only") are counted as informational notes only.

"While that environment was current" is taken from the *observed* current environment
right before each operation, not from a predictive model, so a broken environment
operation cannot corrupt the bookkeeping of the oracle.
"""
from __future__ import annotations

import os
import random
import shutil

from vf.common import Acc, h

ID = "C37"
LEVEL = "exploration"
TECHNIQUE = ("runtime monitoring: history-checker oracle over generated environment/profile operation sequences on the real "
             "ConfigManager/EnvService/AuthService over SQLite")
LEVEL_TEXT = ("Randomised model-based operation sequences (a quarter opened by a directed dangling-pointer prefix; <=25/40 ops, 3 environments, 3 profile names, same names across "
              "environments, current and non-current creation, process re-opens) with the active-pointer invariant evaluated after "
              "every operation; right level because the property quantifies over histories and the pointer is only wrong after "
              "specific sequences.")
LEVEL_NOTE = ("Trusted: sqlite3, the auto-stub/shims that let llama_agents.cli.config.auth_service import (no network client is ever "
              "constructed: api_key_id is never set), and the pick bookkeeping in this file. Operations are issued at the service "
              "layer the CLI commands call (EnvService/AuthService) plus ConfigManager.create_profile/delete_profile for "
              "non-current environments.")
DESIGN_REF = "§5 C37"
RULE = ("case = one generated operation sequence on a fresh config dir, invariant evaluated after every op; distinct = hash of the "
        "op list; non-trivial = at least one successful environment change AND a non-None active profile observed at some check")
REQUIRED_REACH = ["state_check", "active_profile_check", "env_add", "env_switch", "env_switch_other_spelling", "env_delete_current", "env_delete_other",
                  "profile_create_current", "profile_create_noncurrent", "profile_select", "profile_update", "profile_delete",
                  "same_name_in_other_env_active", "reopen"]
ASSUMPTIONS = [
    "operations are those llamactl issues at the EnvService/AuthService layer, plus ConfigManager.create_profile/delete_profile "
    "for a non-current environment (public API; older databases hold such profiles)",
    "a pick by the tool itself (select_any_profile after `env switch`) counts as 'selected while that environment was current'",
    "profiles are never moved between environments by update_profile (llamactl never does)",
]
SHARD_TIMEOUT = {"quick": 300, "thorough": 1800}

DEFAULT_URL = "https://api.cloud.llamaindex.ai"
ENVS = [DEFAULT_URL, "https://a.example.com", "https://b.example.com"]
TOKENS = [None, "alpha-key-000001", "bravo-key-000002"]      # -> profile names via the repo's own naming rule
USERS = ["u0", "u1"]

OPS = [("env_add", 10), ("env_switch", 13), ("env_delete", 11), ("prof_create", 14), ("prof_create_oidc", 4),
       ("prof_create_raw", 15), ("prof_select", 10), ("prof_select_any", 3), ("prof_update", 6), ("prof_delete", 6),
       ("prof_delete_raw", 3), ("reopen", 2)]


def plan(tier, seed):
    if tier == "quick":
        n, per, maxlen = 16, 300, 25
    else:
        n, per, maxlen = 64, 1000, 40
    return [{"seed": seed * 1000 + i, "n": per, "maxlen": maxlen} for i in range(n)]


# ------------------------------------------------------------------ generator
def gen_op(rnd):
    total = sum(w for _, w in OPS)
    x = rnd.uniform(0, total)
    for name, w in OPS:
        x -= w
        if x <= 0:
            break
    op = {"op": name}
    if name == "env_add":
        op["env"] = rnd.randrange(len(ENVS))
        op["auth"] = rnd.random() < 0.5
    elif name == "env_switch":
        op["env"] = rnd.randrange(len(ENVS))
        op["cli"] = rnd.random() < 0.5          # `llamactl auth env switch` also calls select_any_profile()
        op["variant"] = rnd.choice([None] * 8 + ["slash", "upper", "space"])   # service-level call with another spelling of a known URL
    elif name == "env_delete":
        op["env"] = rnd.randrange(len(ENVS))
        op["variant"] = rnd.choice([None] * 10 + ["slash", "upper"])
    elif name == "prof_create":
        op["name"] = rnd.randrange(len(TOKENS))
    elif name == "prof_create_oidc":
        op["name"] = rnd.randrange(len(TOKENS))
        op["user"] = rnd.randrange(len(USERS))
    elif name == "prof_create_raw":
        op["env"] = rnd.randrange(len(ENVS))
        op["name"] = rnd.randrange(len(TOKENS))
    elif name == "prof_select":
        op["name"] = rnd.randrange(len(TOKENS))
        op["raw"] = rnd.random() < 0.1          # raw: set_current_profile(name) without the CLI's existence check
    elif name == "prof_update":
        op["name"] = rnd.randrange(len(TOKENS))
        op["what"] = rnd.choice(["project", "project", "api_key", "rename"])
        op["to"] = rnd.randrange(len(TOKENS))
    elif name == "prof_delete":
        op["name"] = rnd.randrange(len(TOKENS))
    elif name == "prof_delete_raw":
        op["env"] = rnd.randrange(len(ENVS))
        op["name"] = rnd.randrange(len(TOKENS))
    return op


def gen_prefix(rnd):
    """Directed openings (then random ops follow): the active-profile *name* is left dangling in a non-default environment that
    has no profile rows, while the default environment holds a same-named profile that was never picked there; then the current
    environment is deleted / switched.  Random generation reaches this rarely (needs 4-6 specific ops in order)."""
    e = rnd.randrange(1, len(ENVS))
    n = rnd.randrange(len(TOKENS))
    m = rnd.choice([i for i in range(len(TOKENS)) if i != n])
    other = rnd.choice([0, 0, rnd.randrange(len(ENVS))])
    t = rnd.randrange(3)
    ops = [{"op": "env_add", "env": e, "auth": rnd.random() < 0.5}, {"op": "prof_create_raw", "env": other, "name": n}]
    if t == 0:
        ops.append({"op": "prof_select", "name": n, "raw": True})
    elif t == 1:
        ops += [{"op": "prof_create", "name": n}, {"op": "prof_update", "name": n, "what": "rename", "to": m},
                {"op": "prof_delete", "name": m}]
    else:
        ops += [{"op": "prof_create", "name": n}, {"op": "prof_delete_raw", "env": e, "name": n}]
    if rnd.random() < 0.7:
        ops.append({"op": "env_delete", "env": e, "variant": None})
    else:
        ops.append({"op": "env_switch", "env": other, "cli": rnd.random() < 0.3, "variant": None})
    return ops


def gen_case(rnd, maxlen):
    n = rnd.randint(3, maxlen)
    pre = gen_prefix(rnd) if rnd.random() < 0.25 else []
    return {"ops": pre + [gen_op(rnd) for _ in range(max(1, n - len(pre)))]}


def _spell(url, variant):
    if variant == "slash":
        return url + "/"
    if variant == "upper":
        return url.replace("https://", "https://").replace("example", "EXAMPLE").replace("cloud", "Cloud")
    if variant == "space":
        return url + " "
    return url


# ------------------------------------------------------------------ driver + oracle
class Mods:
    def __init__(self):
        import sqlite3

        from llama_agents.cli.config import _config, auth_service, env_service, schema

        self.sqlite3 = sqlite3
        self.cfg = _config
        self.ConfigManager = _config.ConfigManager
        self.EnvService = env_service.EnvService
        self.AuthService = auth_service.AuthService
        self.Environment = schema.Environment
        self.DeviceOIDC = schema.DeviceOIDC
        self.default_url = schema.DEFAULT_ENVIRONMENT.api_url
        self.names = ["default"] + [auth_service._auto_profile_name_from_token(t) for t in TOKENS[1:]]


class World:
    """One fresh config dir + the real services on top of it."""

    def __init__(self, mods, root, idx):
        self.m = mods
        self.dir = os.path.join(root, f"c{idx}")
        os.makedirs(self.dir)
        os.environ["LLAMACTL_CONFIG_DIR"] = self.dir
        self.reset_singletons()
        self.cm = mods.ConfigManager()
        assert str(self.cm.db_path).startswith(self.dir), self.cm.db_path
        self.es = mods.EnvService(lambda: self.cm)

    def reset_singletons(self):
        cc = getattr(self.m.cfg.config_manager, "cache_clear", None)
        if cc:
            cc()

    def reopen(self):
        self.reset_singletons()
        self.cm = self.m.ConfigManager()

    def close(self):
        self.reset_singletons()
        shutil.rmtree(self.dir, ignore_errors=True)


def observe(w):
    cur = w.es.get_current_environment().api_url
    known = {e.api_url for e in w.es.list_environments()}
    prof = w.es.current_auth_service().get_current_profile()
    return cur, known, prof


def run_case(case, acc, mods, root, idx):
    import asyncio

    w = World(mods, root, idx)
    try:
        return _run_case(case, acc, mods, w, asyncio)
    finally:
        w.close()


def _run_case(case, acc, mods, w, asyncio):
    benign = (ValueError, mods.sqlite3.IntegrityError)
    elig_ids: set[str] = set()
    elig_names: set[tuple[str, str]] = set()
    last_pick = None            # strict reading: id of the pick still in force
    seen_active = False
    env_changed = False
    stale = None                # environment whose deletion (while current) left the current_profile name behind

    def pick(auth_obj, cur_before):
        """Register a pick (create/select) of `auth_obj` if its environment was current when it happened."""
        if auth_obj is None:
            return
        if auth_obj.api_url == cur_before:
            elig_ids.add(auth_obj.id)
            elig_names.add((auth_obj.api_url, auth_obj.name))
            return True
        return False

    for k, op in enumerate(case["ops"]):
        kind = op["op"]
        cur_before = w.es.get_current_environment().api_url
        ptr_before = w.cm.get_settings_current_profile_name()
        deleted_current = False
        wrote = False               # the operation (re)wrote or cleared the current_profile setting by design
        try:
            if kind == "env_add":
                url = ENVS[op["env"]]
                w.es.create_or_update_environment(mods.Environment(api_url=url, requires_auth=op["auth"], min_llamactl_version=None))
                acc.hit("env_add")
                last_pick = None
                wrote = True
            elif kind == "env_switch":
                url = _spell(ENVS[op["env"]], op.get("variant"))
                if op.get("variant"):
                    acc.hit("env_switch_other_spelling")
                w.es.switch_environment(url)          # ValueError when unknown
                acc.hit("env_switch")
                last_pick = None
                wrote = True
                if op.get("cli"):
                    asvc = w.es.current_auth_service()
                    cur_now = asvc.env.api_url
                    cands = {p.id: p for p in asvc.list_profiles()}
                    asvc.select_any_profile()
                    name = w.cm.get_settings_current_profile_name()
                    chosen = asvc.get_profile(name) if name else None
                    if chosen is not None and chosen.id in cands:
                        if pick(chosen, cur_now):
                            last_pick = chosen.id
                            acc.hit("profile_select")
            elif kind == "env_delete":
                url = _spell(ENVS[op["env"]], op.get("variant"))
                ok = w.es.delete_environment(url)
                if ok:
                    if url == cur_before:
                        deleted_current = True
                        acc.hit("env_delete_current")
                    else:
                        acc.hit("env_delete_other")
            elif kind == "prof_create":
                asvc = w.es.current_auth_service()
                created = asvc.create_profile_from_token("proj-%d" % k, TOKENS[op["name"]])
                wrote = True
                if pick(created, cur_before):
                    last_pick = created.id
                acc.hit("profile_create_current")
            elif kind == "prof_create_oidc":
                asvc = w.es.current_auth_service()
                oidc = mods.DeviceOIDC(device_name="dev", user_id=USERS[op["user"]], email=mods.names[op["name"]], client_id="cid",
                                       discovery_url="https://idp.example/.well-known", device_access_token="tok-%d" % k)
                got = asvc.create_or_update_profile_from_oidc("proj-%d" % k, oidc)
                wrote = True
                if pick(got, cur_before):
                    last_pick = got.id
                acc.hit("profile_create_current")
            elif kind == "prof_create_raw":
                url = ENVS[op["env"]]
                created = w.cm.create_profile(mods.names[op["name"]], url, "proj-%d" % k)
                if url == cur_before:
                    pick(created, cur_before)       # created while its environment was current (pointer untouched)
                    acc.hit("profile_create_current")
                else:
                    acc.hit("profile_create_noncurrent")
            elif kind == "prof_select":
                asvc = w.es.current_auth_service()
                name = mods.names[op["name"]]
                target = asvc.get_profile(name)
                if target is not None or op.get("raw"):
                    asvc.set_current_profile(name)
                    wrote = True
                    if target is not None and pick(target, cur_before):
                        last_pick = target.id
                        acc.hit("profile_select")
                    else:
                        # the user named a profile that does not exist (yet): lenient reading, the *name* was selected here
                        elig_names.add((cur_before, name))
                        last_pick = None
            elif kind == "prof_select_any":
                asvc = w.es.current_auth_service()
                cands = {p.id: p for p in asvc.list_profiles()}
                asvc.select_any_profile()
                name = w.cm.get_settings_current_profile_name()
                chosen = asvc.get_profile(name) if name else None
                wrote = bool(cands)
                if cands and chosen is not None and chosen.id in cands:
                    if pick(chosen, cur_before):
                        last_pick = chosen.id
                        acc.hit("profile_select")
            elif kind == "prof_update":
                asvc = w.es.current_auth_service()
                target = asvc.get_profile(mods.names[op["name"]])
                if target is not None:
                    if op["what"] == "project":
                        asvc.set_project(target.name, "proj-upd-%d" % k)
                    elif op["what"] == "api_key":
                        target.api_key = "rotated-%d" % k
                        asvc.update_profile(target)
                    else:
                        target.name = mods.names[op["to"]]
                        asvc.update_profile(target)       # IntegrityError on a name collision
                    acc.hit("profile_update")
            elif kind == "prof_delete":
                asvc = w.es.current_auth_service()
                if asyncio.run(asvc.delete_profile(mods.names[op["name"]])):
                    acc.hit("profile_delete")
            elif kind == "prof_delete_raw":
                if w.cm.delete_profile(mods.names[op["name"]], ENVS[op["env"]]):
                    acc.hit("profile_delete")
            elif kind == "reopen":
                w.reopen()
                acc.hit("reopen")
            else:
                raise AssertionError(kind)
        except benign:
            acc.note("op_rejected_" + kind)
        except Exception as x:  # noqa: BLE001
            acc.inconclusive.append(f"operation {kind} raised unexpected {type(x).__name__}: {str(x)[:200]} (case ops={case['ops'][:k + 1]})")
            return seen_active and env_changed

        # ---------------- deciding monitor: read back the public state and judge it
        cur, known, prof = observe(w)
        ptr_after = w.cm.get_settings_current_profile_name()
        acc.hit("state_check")
        if deleted_current:
            stale = cur_before if ptr_after is not None else None
        elif wrote or ptr_after is None or ptr_after != ptr_before:
            stale = None
        if cur != cur_before:
            env_changed = True
            if kind not in ("env_add", "env_switch"):
                last_pick = None
        after = kind + ("_current" if deleted_current else "")
        if cur not in known and cur != mods.default_url:
            acc.violation({"mech": "current_environment_unknown", "after": after},
                          f"after {kind} the current environment {cur} is neither listed ({sorted(known)}) nor the built-in default",
                          {"ops": case["ops"][: k + 1]})
            return True
        if prof is None:
            continue
        acc.hit("active_profile_check")
        seen_active = True
        for other in ENVS:
            if other != cur and w.cm.get_profile(prof.name, other) is not None:
                acc.hit("same_name_in_other_env_active")
                break
        if prof.api_url != cur:
            acc.violation({"mech": "active_profile_of_other_environment", "after": after},
                          f"after {kind} the active profile {prof.name!r} belongs to {prof.api_url}, current environment is {cur}",
                          {"ops": case["ops"][: k + 1]})
            return True
        by_id = prof.id in elig_ids
        by_name = (cur, prof.name) in elig_names
        if not (by_id or by_name):
            if stale is not None:
                sig = {"mech": "stale_current_profile_after_delete_current_environment"}
                what = (f"delete_environment({stale}) of the current environment fell back to {cur} but kept the current_profile name "
                        f"{prof.name!r}, which (after {kind}) activates the same-named profile of {cur} that was never selected or created "
                        f"while {cur} was current")
            else:
                sig = {"mech": "never_picked_profile_active", "after": after}
                what = (f"after {kind} the active profile is {prof.name!r} of {cur}, which was never selected or created while {cur} was current")
            acc.violation(sig, what, {"ops": case["ops"][: k + 1]})
            return True
        if not by_id:
            acc.note("strict_active_qualifies_by_name_only")
        if prof.id != last_pick:
            acc.note("strict_active_is_not_the_pick_in_force")
            if stale is not None:
                acc.note("strict_stale_pointer_survives_delete_current_environment")
    return seen_active and env_changed


def _shard_root():
    from vf import boot

    return boot.scratch_dir()


def run_shard(shard):
    acc = Acc()
    rnd = random.Random(shard["seed"])
    root = _shard_root()
    saved = os.environ.get("LLAMACTL_CONFIG_DIR")
    try:
        os.environ["LLAMACTL_CONFIG_DIR"] = root      # never the user's real config dir, even at import time
        mods = Mods()
        for i in range(shard["n"]):
            case = gen_case(rnd, shard["maxlen"])
            acc.case()
            if len(case["ops"]) <= 8:
                acc.sample(case)
            if run_case(case, acc, mods, root, i):
                acc.sig(h(case))
            if len(acc.inconclusive) > 20:
                break
    finally:
        shutil.rmtree(root, ignore_errors=True)
        if saved is None:
            os.environ.pop("LLAMACTL_CONFIG_DIR", None)
        else:
            os.environ["LLAMACTL_CONFIG_DIR"] = saved
    return acc.to_dict()


def replay(rp_file):
    acc = Acc()
    root = _shard_root()
    try:
        os.environ["LLAMACTL_CONFIG_DIR"] = root
        mods = Mods()
        run_case(rp_file["case"], acc, mods, root, 0)
    finally:
        shutil.rmtree(root, ignore_errors=True)
    return acc.to_dict()
