"""C07 — retry building blocks obey their algebra and bounds (direct calls, no engine).

Monitor shape: reference-model comparison.  Random ASTs of retry / stop / wait
combinators are built twice: once with the real constructors (named combinators
and operator spellings) and once as a plain-Python model evaluated from the
property statement (any/all/sum, documented clamps).  Every evaluation of the real
object is compared with the model.
"""
from __future__ import annotations

import math
import random

from vf.common import Acc, h

ID = "C07"
LEVEL = "exploration"
TECHNIQUE = "runtime monitoring: reference-model oracle over generated combinator ASTs and parameter grids (direct calls on the real constructors)"
LEVEL_TEXT = ("Randomised differential monitoring of the public retry/stop/wait constructors against an independent "
              "model (any/all/sum, documented clamps) over generated ASTs, exceptions, attempt counts up to 1e6, elapsed "
              "times and seeds; right level because the property is a pure input/output statement.")
LEVEL_NOTE = "Trusted: CPython float arithmetic, random.Random, the model in this file. Parameter domain restricted to the documented one (non-negative, min<=max)."
DESIGN_REF = "§5 C07"
RULE = ("case = one generated AST (retry / stop / wait) evaluated on several inputs; distinct = structural hash of "
        "(AST, inputs); non-trivial = AST has >=1 combinator or a non-constant strategy")
REQUIRED_REACH = ["retry_eval", "stop_eval", "wait_eval", "combine_eval", "seed_determinism_eval", "big_attempt_eval"]
ASSUMPTIONS = ["documented parameter domain: non-negative numbers, min <= max, attempts >= 0"]

ATTEMPTS = list(range(0, 13)) + [50, 1000, 1024, 1100, 10_000, 1_000_000]


def plan(tier, seed):
    n = 16 if tier == "quick" else 64
    per = 1500 if tier == "quick" else 12000
    return [{"seed": seed * 1000 + i, "n": per} for i in range(n)]


# ----------------------------------------------------------------- generators
class E1(Exception):
    pass


class E2(E1):
    pass


class E3(Exception):
    pass


EXC_TYPES = {"E1": E1, "E2": E2, "E3": E3, "ValueError": ValueError, "KeyError": KeyError, "Exception": Exception}
MESSAGES = ["", "retry", "rate limit hit", "HTTP 503", "HTTP 404", "please retry", "x"]


def gen_exc(rnd):
    t = rnd.choice(list(EXC_TYPES))
    msg = rnd.choice(MESSAGES)
    cause = None
    if rnd.random() < 0.4:
        cause = [rnd.choice(list(EXC_TYPES)), rnd.choice(MESSAGES)]
        if rnd.random() < 0.3:
            cause.append([rnd.choice(list(EXC_TYPES)), "inner"])
    return {"t": t, "m": msg, "cause": cause}


def mk_exc(spec):
    e = EXC_TYPES[spec["t"]](spec["m"])
    c = spec.get("cause")
    cur = e
    while c:
        ce = EXC_TYPES[c[0]](c[1])
        cur.__cause__ = ce
        cur = ce
        c = c[2] if len(c) > 2 else None
    return e


def gen_retry(rnd, depth):
    if depth <= 0 or rnd.random() < 0.35:
        k = rnd.choice(["type", "not_type", "unless_type", "msg", "match", "not_msg", "cause", "always", "never", "pred"])
        if k in ("type", "not_type", "unless_type", "cause"):
            ts = rnd.sample(list(EXC_TYPES), rnd.randint(1, 2))
            return {"k": k, "types": ts}
        if k in ("msg", "not_msg"):
            return {"k": k, "message": rnd.choice(MESSAGES)}
        if k == "match":
            return {"k": k, "match": rnd.choice(["retry", r"HTTP 5\d\d", "^x$", "limit|please"])}
        if k == "pred":
            return {"k": k, "sub": rnd.choice(MESSAGES)}
        return {"k": k}
    k = rnd.choice(["any", "all", "or", "and"])
    n = 2 if k in ("or", "and") else rnd.randint(0, 3)
    out = {"k": k, "parts": [gen_retry(rnd, depth - 1) for _ in range(n)]}
    if n and rnd.random() < 0.3:
        out["plain"] = rnd.randrange(n)
    return out


def build_retry(ast, rp):
    k = ast["k"]
    if k == "type":
        ts = tuple(EXC_TYPES[t] for t in ast["types"])
        return rp.retry_if_exception_type(ts if len(ts) > 1 else ts[0])
    if k == "not_type":
        return rp.retry_if_not_exception_type(tuple(EXC_TYPES[t] for t in ast["types"]))
    if k == "unless_type":
        return rp.retry_unless_exception_type(tuple(EXC_TYPES[t] for t in ast["types"]))
    if k == "cause":
        return rp.retry_if_exception_cause_type(tuple(EXC_TYPES[t] for t in ast["types"]))
    if k == "msg":
        return rp.retry_if_exception_message(message=ast["message"])
    if k == "not_msg":
        return rp.retry_if_not_exception_message(message=ast["message"])
    if k == "match":
        return rp.retry_if_exception_message(match=ast["match"])
    if k == "pred":
        sub = ast["sub"]
        return rp.retry_if_exception(lambda e: sub in str(e))
    if k == "always":
        return rp.retry_always()
    if k == "never":
        return rp.retry_never()
    parts = [build_retry(p, rp) for p in ast["parts"]]
    parts = _as_plain_callables(ast, parts, lambda f: (lambda error: f(error)))
    if k == "any":
        return rp.retry_any(*parts)
    if k == "all":
        return rp.retry_all(*parts)
    if k == "or":
        return parts[0] | parts[1]
    if k == "and":
        return parts[0] & parts[1]
    raise AssertionError(k)


def _as_plain_callables(ast, parts, wrap):
    """`plain: i` on a composite: its i-th operand is handed over as a plain user callable (a function with the protocol's
    signature and no operators of its own), the documented way of plugging in one's own condition; with `|` / `&` the combination
    is then dispatched through the built-in operand's reflected operator when the plain one stands on the left"""
    i = ast.get("plain")
    if i is None or not parts:
        return parts
    i = i % len(parts)
    return [wrap(p) if j == i else p for j, p in enumerate(parts)]


def model_retry(ast, e):
    import re

    k = ast["k"]
    if k == "type":
        return isinstance(e, tuple(EXC_TYPES[t] for t in ast["types"]))
    if k in ("not_type", "unless_type"):
        return not isinstance(e, tuple(EXC_TYPES[t] for t in ast["types"]))
    if k == "cause":
        ts = tuple(EXC_TYPES[t] for t in ast["types"])
        c = e.__cause__
        while c is not None:
            if isinstance(c, ts):
                return True
            c = c.__cause__
        return False
    if k == "msg":
        return str(e) == ast["message"]
    if k == "not_msg":
        return str(e) != ast["message"]
    if k == "match":
        return re.search(ast["match"], str(e)) is not None
    if k == "pred":
        return ast["sub"] in str(e)
    if k == "always":
        return True
    if k == "never":
        return False
    vals = [model_retry(p, e) for p in ast["parts"]]
    return any(vals) if k in ("any", "or") else all(vals)


def gen_stop(rnd, depth):
    if depth <= 0 or rnd.random() < 0.35:
        k = rnd.choice(["attempt", "delay", "before", "never"])
        if k == "attempt":
            return {"k": k, "n": rnd.choice([0, 1, 2, 3, 5, 10, 1000])}
        if k in ("delay", "before"):
            # (durations of a day and more: timedelta keeps days apart from seconds)
            return {"k": k, "d": rnd.choice([0, 0.5, 1, 2.5, 10, 3600, 86400, 90000.5, 172800]), "td": rnd.random() < 0.35}
        return {"k": k}
    k = rnd.choice(["any", "all", "or", "and"])
    n = 2 if k in ("or", "and") else rnd.randint(0, 3)
    out = {"k": k, "parts": [gen_stop(rnd, depth - 1) for _ in range(n)]}
    if n and rnd.random() < 0.3:
        out["plain"] = rnd.randrange(n)
    return out


def build_stop(ast, rp):
    k = ast["k"]
    if k == "attempt":
        return rp.stop_after_attempt(ast["n"])
    if k == "delay":
        return rp.stop_after_delay(_dur(ast, ast["d"]))
    if k == "before":
        return rp.stop_before_delay(_dur(ast, ast["d"]))
    if k == "never":
        return rp.stop_never()
    parts = [build_stop(p, rp) for p in ast["parts"]]
    parts = _as_plain_callables(ast, parts, lambda f: (lambda attempts, elapsed_time, *, upcoming_sleep=0.0: f(attempts, elapsed_time, upcoming_sleep=upcoming_sleep)))
    if k == "any":
        return rp.stop_any(*parts)
    if k == "all":
        return rp.stop_all(*parts)
    if k == "or":
        return parts[0] | parts[1]
    return parts[0] & parts[1]


def model_stop(ast, attempts, elapsed, sleep):
    k = ast["k"]
    if k == "attempt":
        return attempts >= ast["n"]
    if k == "delay":
        return elapsed >= ast["d"]
    if k == "before":
        return elapsed + sleep >= ast["d"]
    if k == "never":
        return False
    vals = [model_stop(p, attempts, elapsed, sleep) for p in ast["parts"]]
    return any(vals) if k in ("any", "or") else all(vals)


NUMS = [0, 0.001, 0.5, 1, 2, 3, 10, 60, 1000.0, 1e9]
BASES = [0, 0.5, 1, 1.5, 2, 3, 10, 1e6]


def gen_wait_leaf(rnd):
    leaf = _gen_wait_leaf(rnd)
    if rnd.random() < 0.25:
        leaf["td"] = True   # durations spelled as datetime.timedelta
    return leaf


def _gen_wait_leaf(rnd):
    k = rnd.choice(["fixed", "none", "exp", "inc", "rand", "expjit", "randexp", "fulljit"])
    if k == "fixed":
        return {"k": k, "w": rnd.choice(NUMS)}
    if k == "none":
        return {"k": k}
    if k in ("exp", "randexp", "fulljit"):
        lo, hi = sorted([rnd.choice(NUMS), rnd.choice(NUMS)])
        return {"k": k, "mult": rnd.choice(NUMS), "base": rnd.choice(BASES), "max": hi, "min": lo}
    if k == "inc":
        return {"k": k, "start": rnd.choice(NUMS), "inc": rnd.choice(NUMS), "max": rnd.choice(NUMS + [float("inf")])}
    if k == "rand":
        lo, hi = sorted([rnd.choice(NUMS), rnd.choice(NUMS)])
        return {"k": k, "min": lo, "max": hi}
    if k == "expjit":
        return {"k": k, "initial": rnd.choice(NUMS), "base": rnd.choice(BASES), "max": rnd.choice(NUMS), "jitter": rnd.choice(NUMS)}
    raise AssertionError


def gen_wait(rnd, depth):
    if depth <= 0 or rnd.random() < 0.4:
        return gen_wait_leaf(rnd)
    k = rnd.choice(["combine", "plus", "sum", "chain"])
    n = rnd.randint(2, 3) if k != "chain" else rnd.randint(1, 4)
    return {"k": k, "parts": [gen_wait(rnd, depth - 1) for _ in range(n)]}


def _dur(ast, v):
    """a duration parameter in the spelling the AST asks for: plain number, or datetime.timedelta (`td`), both documented"""
    if ast.get("td") and isinstance(v, (int, float)) and not isinstance(v, bool) and math.isfinite(v) and 0 <= v < 10 ** 8 \
            and abs(v * 1e6 - round(v * 1e6)) < 1e-6:   # exactly representable in timedelta's microseconds
        import datetime

        return datetime.timedelta(seconds=v)
    return v


def build_wait(ast, rp):
    k = ast["k"]
    if k == "fixed":
        return rp.wait_fixed(_dur(ast, ast["w"]))
    if k == "none":
        return rp.wait_none()
    if k == "exp":
        return rp.wait_exponential(multiplier=ast["mult"], exp_base=ast["base"], max=_dur(ast, ast["max"]), min=_dur(ast, ast["min"]))
    if k == "randexp":
        return rp.wait_random_exponential(multiplier=ast["mult"], exp_base=ast["base"], max=_dur(ast, ast["max"]), min=_dur(ast, ast["min"]))
    if k == "fulljit":
        return rp.wait_full_jitter(multiplier=ast["mult"], exp_base=ast["base"], max=_dur(ast, ast["max"]), min=_dur(ast, ast["min"]))
    if k == "inc":
        return rp.wait_incrementing(start=_dur(ast, ast["start"]), increment=_dur(ast, ast["inc"]), max=_dur(ast, ast["max"]))
    if k == "rand":
        return rp.wait_random(min=_dur(ast, ast["min"]), max=_dur(ast, ast["max"]))
    if k == "expjit":
        return rp.wait_exponential_jitter(initial=ast["initial"], exp_base=ast["base"], max=ast["max"], jitter=ast["jitter"])
    parts = [build_wait(p, rp) for p in ast["parts"]]
    if k == "combine":
        return rp.wait_combine(*parts)
    if k == "plus":
        out = parts[0]
        for p in parts[1:]:
            out = out + p
        return out
    if k == "sum":
        return sum(parts)
    if k == "chain":
        return rp.wait_chain(*parts)
    raise AssertionError


def _pow(b, n):
    try:
        return float(b) ** n
    except OverflowError:
        return math.inf


def _mul(a, b):
    # 0 * inf := 0 for the purpose of a bound (multiplier 0 means "no delay")
    if a == 0 or b == 0:
        return 0.0
    return a * b


def bounds_wait(ast, n):
    """(lo, hi, exact|None) documented bounds of a wait AST at attempt n."""
    k = ast["k"]
    if k == "fixed":
        return ast["w"], ast["w"], float(ast["w"])
    if k == "none":
        return 0.0, 0.0, 0.0
    if k == "exp":
        v = max(max(0.0, ast["min"]), min(_mul(ast["mult"], _pow(ast["base"], n)), ast["max"]))
        return v, v, v
    if k in ("randexp", "fulljit"):
        up = max(max(0.0, ast["min"]), min(_mul(ast["mult"], _pow(ast["base"], n)), ast["max"]))
        return ast["min"], up, None
    if k == "inc":
        v = max(0.0, min(ast["start"] + _mul(ast["inc"], n), ast["max"]))
        return v, v, v
    if k == "rand":
        return ast["min"], ast["max"], None
    if k == "expjit":
        base = min(_mul(ast["initial"], _pow(ast["base"], n)), ast["max"])
        return min(base, ast["max"]), min(base + ast["jitter"], ast["max"]), None
    if k in ("combine", "plus", "sum"):
        lo = hi = 0.0
        ex = 0.0
        for p in ast["parts"]:
            l, u, e = bounds_wait(p, n)
            lo += l
            hi += u
            ex = None if (ex is None or e is None) else ex + e
        return lo, hi, ex
    if k == "chain":
        idx = min(n, len(ast["parts"]) - 1)
        return bounds_wait(ast["parts"][idx], n)
    raise AssertionError


def is_nontrivial(ast):
    return "parts" in ast or ast["k"] not in ("fixed", "none", "always", "never")


def close(a, b):
    return a == b or abs(a - b) <= 1e-9 * max(1.0, abs(a), abs(b))


# ----------------------------------------------------------------- shard
def check_case(case, acc, rp):
    kind = case["kind"]
    ast = case["ast"]
    if kind == "retry":
        obj = build_retry(ast, rp)
        for es in case["excs"]:
            e = mk_exc(es)
            acc.hit("retry_eval")
            try:
                got = bool(obj(e))
            except Exception as x:  # noqa: BLE001
                acc.violation({"mech": "retry_condition_raised", "exc": type(x).__name__},
                              f"retry condition raised {type(x).__name__}", case)
                continue
            if got != model_retry(ast, e):
                acc.violation({"mech": "retry_algebra_mismatch", "root": ast["k"]},
                              f"retry combinator {ast['k']} != logical model on {es}", case)
    elif kind == "stop":
        obj = build_stop(ast, rp)
        for (a, el, sl) in case["inputs"]:
            acc.hit("stop_eval")
            got = bool(obj(a, el, upcoming_sleep=sl))
            if got != model_stop(ast, a, el, sl):
                acc.violation({"mech": "stop_algebra_mismatch", "root": ast["k"]},
                              f"stop combinator {ast['k']} != logical model on attempts={a} elapsed={el} sleep={sl}", case)
    elif kind == "wait":
        obj = build_wait(ast, rp)
        for n in case["attempts"]:
            for seed in case["seeds"]:
                acc.hit("wait_eval")
                if n >= 1000:
                    acc.hit("big_attempt_eval")
                try:
                    v = obj(n, seed=seed)
                    v2 = obj(n, seed=seed)
                except Exception as x:  # noqa: BLE001
                    acc.violation({"mech": "wait_strategy_raised", "exc": type(x).__name__},
                                  f"wait strategy raised {type(x).__name__} at attempts={n}", {**case, "attempts": [n], "seeds": [seed]})
                    continue
                if seed is not None:
                    acc.hit("seed_determinism_eval")
                if not (isinstance(v, (int, float)) and math.isfinite(v) and v >= 0):
                    acc.violation({"mech": "wait_not_finite_nonneg"}, f"wait returned {v!r} at attempts={n}",
                                  {**case, "attempts": [n], "seeds": [seed]})
                    continue
                if seed is not None and v != v2:
                    acc.violation({"mech": "jitter_not_deterministic"}, f"same seed gave {v} then {v2}",
                                  {**case, "attempts": [n], "seeds": [seed]})
                lo, hi, ex = bounds_wait(ast, n)
                if "parts" in ast and ast["k"] != "chain":
                    acc.hit("combine_eval")
                if not (lo - 1e-9 * max(1, abs(lo)) <= v <= hi + 1e-9 * max(1, abs(hi))):
                    acc.violation({"mech": "wait_out_of_documented_bounds", "root": ast["k"]},
                                  f"wait {ast['k']} returned {v} outside [{lo},{hi}] at attempts={n}",
                                  {**case, "attempts": [n], "seeds": [seed]})
                elif ex is not None and not close(v, ex):
                    acc.violation({"mech": "wait_value_mismatch", "root": ast["k"]},
                                  f"wait {ast['k']} returned {v}, documented {ex} at attempts={n}",
                                  {**case, "attempts": [n], "seeds": [seed]})
                # sum-of-parts under the same seed (sentence 1 of the property)
                if ast["k"] in ("combine", "plus", "sum") and (seed is not None or ex is not None):
                    try:
                        parts = [build_wait(p, rp)(n, seed=seed) for p in ast["parts"]]
                        if not close(v, sum(parts)):
                            acc.violation({"mech": "wait_combine_not_sum"}, f"combine {v} != sum(parts) {sum(parts)}",
                                          {**case, "attempts": [n], "seeds": [seed]})
                    except Exception:  # part raised: reported above through the whole
                        pass


def gen_case(rnd):
    kind = rnd.choice(["retry", "stop", "wait", "wait"])
    if kind == "retry":
        return {"kind": kind, "ast": gen_retry(rnd, 3), "excs": [gen_exc(rnd) for _ in range(4)]}
    if kind == "stop":
        return {"kind": kind, "ast": gen_stop(rnd, 3),
                "inputs": [(rnd.choice([0, 1, 2, 3, 5, 10, 999, 1000, 10**6]), rnd.choice([0, 0.25, 0.5, 1, 2.5, 9.99, 10, 1e5]),
                            rnd.choice([0, 0.5, 1, 5])) for _ in range(4)]}
    atts = rnd.sample(ATTEMPTS, 4)
    return {"kind": kind, "ast": gen_wait(rnd, 2), "attempts": atts, "seeds": [rnd.choice([None, 0, 1, 42, 2**32 - 1]), rnd.randint(0, 2**32 - 1)]}


def run_shard(shard):
    import workflows.retry_policy as rp

    acc = Acc()
    rnd = random.Random(shard["seed"])
    for _ in range(shard["n"]):
        case = gen_case(rnd)
        acc.case()
        if is_nontrivial(case["ast"]):
            acc.sig(h(case))
        acc.sample(case)
        check_case(case, acc, rp)
    return acc.to_dict()


def replay(rp_file):
    import workflows.retry_policy as rp

    acc = Acc()
    check_case(rp_file["case"], acc, rp)
    return acc.to_dict()
