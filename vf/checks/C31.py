"""C31 — timeout and cancellation stop the run cleanly and keep it resumable."""
import asyncio
import json
import random

from vf.common import Acc, h

ID = "C31"
LEVEL = "fault_enumeration"
VCLOCK = True
TECHNIQUE = ("runtime monitoring with enumerated fault points: cancel_run() injected at every control-loop yield of a deterministic run and workflow "
             "timeouts over a grid of virtual instants; oracle over handler outcome, terminal stream event, body entries after the terminal "
             "publication, active_steps vs bodies in flight, and a resume of the cancelled context")
LEVEL_TEXT = ("Per generated program every yield point of the control loop is a cancellation point (exhaustive per case) and 8 timeout instants placed "
              "between the run's own event times; timeouts are exact under the virtual clock, so 'a run that finishes first is never timed out' is a comparison of numbers.")
LEVEL_NOTE = "Trusted: virtual clock, probes attached from /verif (wait_for_next_task entry = yield point), recorder in the step bodies."
DESIGN_REF = "§5 C31"
RULE = "case = (program, cancel point k) or (program, timeout T); distinct = hash of (program, fault); non-trivial = fault lands while the run is unfinished"
REQUIRED_REACH = ["cancel_point", "cancelled_run", "cancel_after_finish", "timeout_case", "timed_out_run", "timeout_after_finish", "resume_after_cancel",
                  "active_steps_eval", "active_steps_nonempty", "reserialize_after_resume", "deadline_inside_blocked_stretch", "stop_returned_before_deadline_loop_regained_after", "resumed_run_with_timeout", "deadline_in_run_whose_steps_never_await", "resume_on_the_same_instance", "cancelled_while_resource_was_being_resolved"]
ASSUMPTIONS = ["timeout instants avoid exact ties with the run's own event times (x.37 offsets)"]


def plan(tier, seed):
    n = 16 if tier == "quick" else 32
    per = 5 if tier == "quick" else 40
    return [{"seed": seed * 1_000_000 + i * 10_000, "n": per} for i in range(n)]


def gen_case(seed):
    from vf import gen

    rnd = random.Random(seed)
    if rnd.random() < 0.2:
        if rnd.random() < 0.4:
            spec = gen.gen_spin(rnd)
            fam = "spin"
        else:
            spec = gen.gen_busy(rnd)
            fam = "busy"
    elif rnd.random() < 0.6:
        spec = gen.gen_detq(rnd) if rnd.random() < 0.3 else gen.gen_det(rnd)
        fam = "det"
    else:
        spec = gen.gen_fan(rnd, externals=False, unhandled=False)
        fam = "fan"
    spec["sched_seed"] = seed
    spec["timeout"] = None
    if fam == "det" and rnd.random() < 0.35:
        # one single-worker step gets a resource whose async factory really suspends: cancel / timeout instants then also fall
        # into "dispatched, resource still being resolved, body not started"; the cancelled context is resumed on the SAME instance
        cands = [s_ for s_ in spec["steps"] if not s_.get("handler") and s_["name"] not in ("start",) and not s_.get("late")]
        if cands:
            st = rnd.choice(cands)
            st["nw"] = 1
            st["res"] = {"kind": "async", "delay": rnd.choice([0.5, 1, 2]), "cache": rnd.random() < 0.5}
            spec["same_instance"] = True
    return {"seed": seed, "family": fam, "spec": spec}


def _res(case, outcome):
    """comparable result: the fan family's StopEvent lineage depends on which tie finishes last, its collected set does not"""
    if case["family"] == "fan" and outcome and outcome.get("kind") == "result" and isinstance(outcome.get("value"), dict):
        return {"kind": "result", "got": outcome["value"].get("got")}
    return outcome


def _terminal(tr):
    return [e for e in tr.stream if e["terminal"]]


def check_cancel(case, k, ref, acc):
    from vf import engine_run, oracles
    from workflows import Context

    tr0 = ref
    wit = {"case": {**case, "fault": {"cancel_at_yield": k}}}
    box = {"n": 0}

    def at_yield(adapter):
        i = box["n"]
        box["n"] += 1
        if i == k and "fired" not in box:
            box["fired"] = True
            tr = engine_run._CUR["trace"]
            runner = next((r for r in reversed(tr.runners) if r.adapter.run_id == adapter.run_id), None)
            box["wakeups"] = [type(t[2]).__name__ for t in runner.scheduled_wakeups] if runner else []
            tr.rec.add("cancel_call")
            box["task"] = asyncio.ensure_future(tr.handler.cancel_run())

    holder = {}

    def after_done(handler):
        pass

    tr = engine_run.run_case(case["spec"], extra={"at_yield": at_yield})
    acc.case()
    acc.hit("cancel_point")
    if tr.errors:
        acc.inconclusive.append(f"harness error cancel k={k} seed={case['seed']}: {tr.errors[0][:300]}")
        return
    kind = oracles.outcome_kind(tr)
    if kind == "result":
        acc.hit("cancel_after_finish")
        if _res(case, tr.outcome) != _res(case, tr0.outcome):
            acc.violation({"mech": "cancel_changed_result_of_finished_run"}, f"cancel at yield {k}: outcome {tr.outcome} != reference {tr0.outcome}", wit)
        return
    if kind is None:
        acc.violation({"mech": "cancelled_run_never_ends", "quiescent": tr.quiescent}, f"cancel_run() at yield {k}: run neither finished nor cancelled (quiescent={tr.quiescent})", wit)
        return
    if kind != "cancelled":
        if kind == tr0.outcome.get("kind") or (kind == "failed" and oracles.outcome_kind(tr0) == "failed"):
            acc.hit("cancel_after_finish")
            return
        acc.violation({"mech": "cancel_wrong_outcome", "outcome": kind}, f"cancel_run() at yield {k}: run ended with {tr.outcome}", wit)
        return
    acc.hit("cancelled_run")
    acc.sig(h({"s": case["seed"], "cancel": k}))
    terms = _terminal(tr)
    if [e["type"] for e in terms] != ["WorkflowCancelledEvent"]:
        acc.violation({"mech": "cancel_terminal_event_wrong"}, f"cancelled run's terminal stream events: {[e['type'] for e in terms]}", wit)
    pub = next((p for p in tr.pubs if p["etype"] == "WorkflowCancelledEvent"), None)
    if pub is not None:
        late = [r for r in tr.rec.of("enter") if r["n"] > pub["n"]]
        if late:
            acc.violation({"mech": "step_started_after_cancellation"}, f"step {late[0]['step']} started after WorkflowCancelledEvent was published", wit)
    # ---- the cancelled context can be serialized and resumed
    try:
        snap = json.loads(json.dumps(tr.handler.ctx.to_dict()))
    except Exception as e:  # noqa: BLE001
        acc.violation({"mech": "cancelled_context_not_serializable", "exc": type(e).__name__}, f"ctx.to_dict() after cancel at yield {k} raised {e!r}", wit)
        return
    if case["family"] != "det":
        return
    same = tr.extra.get("wf") if case["spec"].get("same_instance") else None
    if same is not None:
        acc.hit("resume_on_the_same_instance")
        if any(r["k"] == "res_enter" for r in tr.rec.log) and not any(r["k"] == "res_ready" for r in tr.rec.log if r["k"] == "res_ready"):
            acc.hit("cancelled_while_resource_was_being_resolved")
    tr2 = engine_run.run_case({**case["spec"], "uid_base": 1000}, wf=same, ctx_factory=lambda w: Context.from_dict(w, json.loads(json.dumps(snap))), start=False)
    acc.case()
    acc.hit("resume_after_cancel")
    if tr2.errors:
        acc.inconclusive.append(f"harness error resume-after-cancel k={k} seed={case['seed']}: {tr2.errors[0][:300]}")
        return
    # a delayed retry still sitting in the (dead) control loop's wakeup heap when the run was cancelled
    delayed = any(type(t[2]).__name__ == "TickAddEvent" for r in tr.runners for t in r.scheduled_wakeups)
    # the resumed run's own context must again be serializable (cancel -> resume -> serialize again)
    try:
        json.dumps(tr2.handler.ctx.to_dict())
        acc.hit("reserialize_after_resume")
    except Exception as e:  # noqa: BLE001
        acc.violation({"mech": "resumed_context_not_serializable", "exc": type(e).__name__},
                      f"after cancel at yield {k} and resume, ctx.to_dict() of the resumed run raised {e!r}", wit)
    if tr2.outcome is None:
        acc.violation({"mech": "resume_after_cancel_never_finishes", "delayed_retry_pending_at_cancel": delayed},
                      f"resumed the context of a run cancelled at yield {k}: quiescent without finishing (reference {tr0.outcome})", wit)
    elif tr2.outcome != tr0.outcome:
        acc.violation({"mech": "resume_after_cancel_result_differs"}, f"resumed after cancel at yield {k}: {tr2.outcome} != {tr0.outcome}", wit)
    elif tr2.extra.get("final_state") != tr0.extra.get("final_state"):
        acc.violation({"mech": "resume_after_cancel_state_differs"}, f"resumed after cancel at yield {k}: state {tr2.extra.get('final_state')} != {tr0.extra.get('final_state')}", wit)
    # ---- the resumed run is a run like any other: its workflow timeout applies to it
    if tr2.outcome is not None and tr2.extra.get("vt_handler_done", 0) > 0.2:
        Tr = round(min(0.13, tr2.extra["vt_handler_done"] / 2), 3)
        tr3 = engine_run.run_case({**case["spec"], "uid_base": 2000, "timeout": Tr}, ctx_factory=lambda w: Context.from_dict(w, json.loads(json.dumps(snap))), start=False)
        acc.case()
        acc.hit("resumed_run_with_timeout")
        if not tr3.errors:
            kind3 = oracles.outcome_kind(tr3)
            done3 = tr3.extra.get("vt_handler_done")
            if kind3 != "timeout" and (done3 is None or done3 > Tr + 1e-6):
                acc.violation({"mech": "unfinished_run_not_timed_out", "outcome": str(kind3), "resumed": True},
                              f"context of a run cancelled at yield {k} resumed with timeout={Tr}: the resumed run went on until vt={done3} and ended as {tr3.outcome}", wit)


def check_timeout(case, T, ref, acc):
    from vf import engine_run, oracles

    tr0 = ref
    wit = {"case": {**case, "fault": {"timeout": T}}}
    spec = {**case["spec"], "timeout": T}
    tr = engine_run.run_case(spec)
    acc.case()
    acc.hit("timeout_case")
    if tr.errors:
        acc.inconclusive.append(f"harness error timeout={T} seed={case['seed']}: {tr.errors[0][:300]}")
        return
    # Decided on THIS run's own timeline (tie orders may differ from the reference run, so its end time is no oracle)
    kind = oracles.outcome_kind(tr)
    done_at = tr.extra.get("vt_handler_done")
    stop_returned = [r for r in tr.rec.of("emit") if r["how"] == "return" and r["type"] in ("StopEvent", "Done")]
    if case["family"] == "busy":
        acc.hit("deadline_inside_blocked_stretch")
        if any(r["t"] < T - 1e-6 for r in stop_returned) and done_at is not None and done_at > T:
            acc.hit("stop_returned_before_deadline_loop_regained_after")  # the decisive order
    if case["family"] == "spin":
        acc.hit("deadline_in_run_whose_steps_never_await")
        # the deadline falls inside a blocked stretch, so the run cannot end AT T; but once the loop has regained control after T
        # (it did if it started another step body), an unfinished run must not go on as if it had no timeout
        later = [r for r in tr.rec.of("enter") if r["t"] > T + 1e-9]
        if kind != "timeout" and len(later) >= 2:
            acc.violation({"mech": "unfinished_run_not_timed_out", "outcome": str(kind), "steps_never_await": True},
                          f"timeout={T}: the control loop regained control after the deadline and started {len(later)} more step bodies "
                          f"(first at vt={later[0]['t']}); the run went on until vt={done_at} and ended as {tr.outcome}", wit)
            return
    if kind != "timeout":
        acc.hit("timeout_after_finish")
        # (busy family: the loop is blocked across the deadline, the run cannot end at T; only the finished-first clause is decided there)
        if done_at is not None and done_at > T + 1e-6 and case["family"] not in ("busy", "spin"):
            acc.violation({"mech": "unfinished_run_not_timed_out", "outcome": str(kind)},
                          f"timeout={T} but the run went on until vt={done_at} and ended as {tr.outcome}", wit)
        return
    acc.hit("timed_out_run")
    acc.sig(h({"s": case["seed"], "T": T}))
    early_stop = [r for r in stop_returned if r["t"] < T - 1e-6]
    if early_stop:
        acc.violation({"mech": "finished_run_timed_out"}, f"a step returned the StopEvent at vt={early_stop[0]['t']} but the run was timed out at {T}", wit)
    terms = _terminal(tr)
    if [e["type"] for e in terms] != ["WorkflowTimedOutEvent"]:
        acc.violation({"mech": "timeout_terminal_event_wrong"}, f"timed-out run's terminal stream events: {[e['type'] for e in terms]}", wit)
        return
    ev = terms[0]
    if abs(ev["t"] - T) > 1e-6 and case["family"] not in ("busy", "spin"):
        acc.violation({"mech": "timeout_at_wrong_instant"}, f"WorkflowTimedOutEvent published at vt={ev['t']}, timeout={T}", wit)
    # active steps: steps with a body in flight at T  <=  active_steps  <=  steps holding an in-progress invocation
    acc.hit("active_steps_eval")
    inflight = {b["step"] for b in tr.bodies() if b["t0"] <= T and (b["t1"] is None or b["t1"] >= T) and b["how"] in ("cancel", "open")}
    tick = next((t for t in tr.ticks if t["tick"] == "TickTimeout"), None)
    holding = {s for s, st in (tick["pre"].items() if tick else []) if st["ip"]}
    active = set(ev["timed_out"]["active"])
    if active:
        acc.hit("active_steps_nonempty")
    if not (inflight <= active <= holding):
        acc.violation({"mech": "timed_out_event_active_steps_wrong"},
                      f"WorkflowTimedOutEvent.active_steps={sorted(active)}; bodies in flight {sorted(inflight)}; steps with an invocation in progress {sorted(holding)}", wit)
    late = [r for r in tr.rec.of("enter") if r["t"] > T + 1e-9]
    if late:
        acc.violation({"mech": "step_started_after_timeout"}, f"step {late[0]['step']} started at vt={late[0]['t']} after the timeout at {T}", wit)


def run_one(case, acc, only=None):
    from vf import engine_run

    box = {"n": 0}

    def count(adapter):
        box["n"] += 1

    tr0 = engine_run.run_case(case["spec"], extra={"at_yield": count})
    if tr0.errors or tr0.outcome is None:
        acc.inconclusive.append(f"reference run failed seed={case['seed']}: {tr0.errors[:1]} {tr0.outcome}")
        return
    acc.sample({"seed": case["seed"], "family": case["family"], "yields": box["n"], "reference_outcome": tr0.outcome, "end": tr0.vt_end})
    rnd = random.Random(case["seed"] ^ 0x31)
    if case["family"] in ("busy", "spin"):
        ts = case["spec"]["meta"]["deadlines"] if only is None else ([only["timeout"]] if "timeout" in only else [])
        for T in ts:
            check_timeout(case, T, tr0, acc)
        return
    if only is None or "cancel_at_yield" in only:
        ks = range(box["n"] + 1) if only is None else [only["cancel_at_yield"]]
        for k in ks:
            check_cancel(case, k, tr0, acc)
    if only is None or "timeout" in only:
        end = tr0.extra.get("vt_handler_done", tr0.vt_end)
        grid = sorted({round(x + 0.37, 2) for x in [0, 0.5, 1, 2, 3]} | {round(end * f + 0.01, 3) for f in (0.25, 0.5, 0.9)} | {round(end + 0.37, 2), round(end + 5.37, 2)})
        ts = grid if only is None else [only["timeout"]]
        for T in ts:
            check_timeout(case, T, tr0, acc)


def run_shard(shard):
    acc = Acc()
    for i in range(shard["n"]):
        run_one(gen_case(shard["seed"] + i), acc)
    return acc.to_dict()


def replay(rp):
    acc = Acc()
    c = dict(rp["case"]["case"])
    fault = c.pop("fault")
    run_one(c, acc, only=fault)
    return acc.to_dict()
