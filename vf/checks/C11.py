"""C11 — replaying the recorded tick log reproduces the live run state."""
import json
import random

from vf import engine_check
from vf.common import Acc

ID = "C11"
LEVEL = "exploration"
VCLOCK = True
TECHNIQUE = ("runtime monitoring: invariant hook after every processed tick comparing rebuild_state_from_ticks(init_state, ticks so far) with the live "
             "control-loop state (queues, in-progress incl. attempts / recovery counts / snapshots, collected events, waiters, running flag)")
LEVEL_TEXT = ("All engine families (fan-out, retries incl. elapsed-time policies, collectors, waiters, catch_error, cancel/timeout) incl. resumed runs; "
              "the comparison runs after EVERY tick of every run (quadratic), which is what ctx.to_dict() / running_steps() compute from outside.")
LEVEL_NOTE = "Trusted: probe on _ControlLoopRunner._process_tick (attached from /verif), virtual clock. Timestamps are excluded, exceptions compared by type+message."
DESIGN_REF = "§5 C11"
RULE = "case = generated program + schedule (+ resume point); distinct = tick-order signature hash; non-trivial = run had >= 8 ticks"
REQUIRED_REACH = ["state_compare", "compare_with_in_progress", "compare_with_waiters", "compare_with_collected", "compare_with_retry_attempts", "resumed_case",
                  "family_fan", "family_wait", "family_retry", "family_collect", "family_catch", "public_view_compare", "public_view_with_in_progress", "late_replay_compare",
                  "mid_tick_compare", "mid_tick_compare_during_worker_shutdown"]
ASSUMPTIONS = ["<= 150 ticks per run"]
FAMILIES = [("fan", 2), ("wait", 2), ("retry", 2), ("collect", 1), ("catch", 1), ("outcomes", 1)]


def plan(tier, seed):
    return engine_check.std_plan(tier, seed, quick_per=45, thorough_per=900)


def _uses_elapsed(spec):
    def m(ast):
        if not isinstance(ast, dict):
            return False
        if ast.get("k") in ("delay", "before"):
            return True
        return any(m(p) for p in ast.get("parts", []))

    return any(s.get("retry") and m((s["retry"] or {}).get("stop") or {}) for s in spec["steps"])


def _hook(acc, case, box):
    from vf import oracles
    from workflows.runtime.control_loop import rebuild_state_from_ticks

    def after_tick(runner, tick):
        if box.get("violated") or box.get("n", 0) > 150:
            return
        box["n"] = box.get("n", 0) + 1
        ticks = list(runner.adapter.replay())
        init = runner.adapter.init_state
        try:
            rebuilt = rebuild_state_from_ticks(init, ticks)
        except Exception as e:  # noqa: BLE001
            acc.violation({"mech": "rebuild_raises", "exc": type(e).__name__}, f"rebuild_state_from_ticks raised {e!r} after {len(ticks)} ticks", case)
            box["violated"] = True
            return
        live, reb = oracles.norm_state(runner.state), oracles.norm_state(rebuilt)
        acc.hit("state_compare")
        # which failure of its event is this tick? (the known re-stamping finding can only bite at an event's FIRST failure)
        nth_failure = 0
        if type(tick).__name__ == "TickStepResult" and any(type(r).__name__ == "StepWorkerFailed" for r in getattr(tick, "result", [])):
            key = (tick.step_name, repr(getattr(tick.event, "_data", tick.event)))
            cnt = box.setdefault("failures", {})
            cnt[key] = nth_failure = cnt.get(key, 0) + 1
        if _uses_elapsed(case["case"]["spec"]):
            box.setdefault("late", []).append((len(ticks), live, type(tick).__name__, nth_failure))
            box["late_src"] = (init, ticks)
        for w in live["workers"].values():
            if w["in_progress"]:
                acc.hit("compare_with_in_progress")
                if any(x[2] for x in w["in_progress"]):
                    acc.hit("compare_with_retry_attempts")
            if w["waiters"]:
                acc.hit("compare_with_waiters")
            if w["collected"]:
                acc.hit("compare_with_collected")
        d = oracles.diff_state(live, reb)
        if not d:
            # the public face is built on the same replay: it is only news where the direct replay agrees with the live state
            _public_view(acc, case, box, runner, tick, len(ticks))
        if d:
            box["violated"] = True
            field = d[0][0] if d[0][0] == "is_running" else d[0][1]
            acc.violation({"mech": "rebuilt_state_differs_from_live", "field": field, "elapsed_time_policy": _uses_elapsed(case["case"]["spec"]),
                           "resumed": bool(case.get("phase") == "resumed"), "later_failure_of_the_event": nth_failure > 1},
                          f"after tick #{len(ticks)} ({type(tick).__name__}) live vs rebuilt differ: {json.dumps(d[:2], default=str)[:600]}", case)

    return after_tick


def _point_hook(acc, case, box):
    """'At every point of a run': the same comparison at moments that are NOT tick boundaries -- whenever a step body starts, ends or
    is cancelled (the latter happens while the control loop is still inside the processing of a terminal tick)."""
    from vf import oracles
    from workflows.runtime.control_loop import rebuild_state_from_ticks

    def at_step_point(tr, step, how):
        if box.get("violated") or box.get("pt_violated") or box.get("np", 0) > 300 or not tr.runners:
            return
        if _uses_elapsed(case["case"]["spec"]):
            # the known re-stamping finding diverges at the reduction of a tick; the tick-boundary hook decides (and classifies) those
            return
        runner = tr.runners[-1]
        if not hasattr(runner, "state"):
            return
        box["np"] = box.get("np", 0) + 1
        try:
            ticks = list(runner.adapter.replay())
            rebuilt = rebuild_state_from_ticks(runner.adapter.init_state, ticks)
        except Exception:  # noqa: BLE001  (the tick-boundary hook reports rebuild failures)
            return
        acc.hit("mid_tick_compare")
        if how == "cancel":
            acc.hit("mid_tick_compare_during_worker_shutdown")
        d = oracles.diff_state(oracles.norm_state(runner.state), oracles.norm_state(rebuilt))
        if d:
            box["pt_violated"] = True
            field = d[0][0] if d[0][0] == "is_running" else d[0][1]
            acc.violation({"mech": "rebuilt_state_differs_from_live", "field": field, "at": "step_body_" + ("cancelled" if how == "cancel" else "boundary"),
                           "elapsed_time_policy": _uses_elapsed(case["case"]["spec"]), "resumed": bool(case.get("phase") == "resumed")},
                          f"while step {step} was at '{how}' (vt inside the processing of a tick), live state vs replay of the {len(ticks)} ticks recorded so far differ: "
                          f"{json.dumps(d[:2], default=str)[:600]}", case)

    return at_step_point


def _ser_view(d):
    """comparable view of a serialized context's workers: timestamps dropped (replay stamps its own clock)"""
    out = {}
    for name, w in (d.get("workers") or {}).items():
        out[name] = {
            "queue": [(q.get("event"), q.get("attempts") or 0, tuple(sorted((q.get("recovery_counts") or {}).items()))) for q in (w.get("queue") or [])],
            "in_progress": sorted(w.get("in_progress") or []),
            "collected_events": {k: list(v) for k, v in (w.get("collected_events") or {}).items() if v},
            "waiters": sorted((cw.get("waiter_id"), cw.get("resolved_event") is not None, bool(cw.get("timed_out"))) for cw in (w.get("collected_waiters") or [])),
        }
    return {"is_running": d.get("is_running"), "workers": out}


def _public_view(acc, case, box, runner, tick, n_ticks):
    """the same comparison through the public face: handler.ctx.to_dict() / running_steps(), asked after EVERY tick of the same
    handler (so anything the external context keeps between calls is exercised), vs the live state serialized the same way"""
    from vf import engine_run
    from workflows.context.serializers import JsonSerializer

    tr = engine_run._CUR["trace"]
    handler = getattr(tr, "handler", None)
    if handler is None or box.get("pub_violated"):
        return
    try:
        ext = handler.ctx.to_dict()
    except Exception as e:  # noqa: BLE001
        box["pub_violated"] = True
        acc.violation({"mech": "to_dict_raises_mid_run", "exc": type(e).__name__}, f"handler.ctx.to_dict() after tick #{n_ticks} ({type(tick).__name__}) raised {e!r}", case)
        return
    live = json.loads(json.dumps(runner.state.to_serialized(JsonSerializer()).model_dump(mode="python")))
    a, b = _ser_view(live), _ser_view(json.loads(json.dumps(ext)))
    acc.hit("public_view_compare")
    if any(w["in_progress"] for w in a["workers"].values()):
        acc.hit("public_view_with_in_progress")
    if a != b:
        # only report what the rebuilt-state comparison does not already explain (same known mechanisms)
        names = [n for n in a["workers"] if a["workers"][n] != b["workers"].get(n)]
        fields = sorted({f for n in names for f in a["workers"][n] if a["workers"][n][f] != (b["workers"].get(n) or {}).get(f)}) or ["is_running"]
        box["pub_violated"] = True
        acc.violation({"mech": "to_dict_differs_from_live", "field": fields[0], "elapsed_time_policy": _uses_elapsed(case["case"]["spec"]),
                       "resumed": bool(case.get("phase") == "resumed")},
                      f"after tick #{n_ticks} ({type(tick).__name__}) ctx.to_dict() != live state in steps {names[:3]} fields {fields}: "
                      f"live {json.dumps({n: a['workers'][n] for n in names[:1]}, default=str)[:300]} vs to_dict {json.dumps({n: b['workers'].get(n) for n in names[:1]}, default=str)[:300]}", case)
        return
    running_live = sorted(n for n, w in a["workers"].items() if w["in_progress"])
    box.setdefault("running_checks", []).append((handler, running_live, n_ticks))


def _late_replay(acc, wit, box):
    """Replay every prefix of the finished run's tick log LATER (500 virtual seconds on) and compare with the live state
    recorded after that tick: the replay must depend on the log only, not on when it is run."""
    from vf import oracles, vclock
    from workflows.runtime.control_loop import rebuild_state_from_ticks

    if not box.get("late") or box.get("violated"):
        return
    init, ticks = box["late_src"]
    vclock.burn(500.0)
    for (k, live, tname, nth_failure) in box["late"]:
        try:
            reb = oracles.norm_state(rebuild_state_from_ticks(init, ticks[:k]))
        except Exception as e:  # noqa: BLE001
            acc.violation({"mech": "rebuild_raises", "exc": type(e).__name__, "late_replay": True}, f"late replay of {k} ticks raised {e!r}", wit)
            return
        acc.hit("late_replay_compare")
        d = oracles.diff_state(live, reb)
        if d:
            field = d[0][0] if d[0][0] == "is_running" else d[0][1]
            acc.violation({"mech": "rebuilt_state_differs_from_live", "field": field, "elapsed_time_policy": True, "resumed": bool(wit.get("phase") == "resumed"),
                           "later_failure_of_the_event": nth_failure > 1, "late_replay": True},
                          f"tick log prefix of {k} ticks (last {tname}, failure #{nth_failure} of its event) replayed 500 s later differs from the live state after that tick: "
                          f"{json.dumps(d[:2], default=str)[:500]}", wit)
            return


def run_one(case, acc):
    from vf import engine_run, oracles

    box = {}
    wit = {"case": case}
    tr = engine_run.run_case(case["spec"], extra={"after_tick": _hook(acc, wit, box), "at_step_point": _point_hook(acc, wit, box)})
    _late_replay(acc, wit, box)
    acc.case()
    acc.hit("family_" + case["family"])
    if tr.errors:
        acc.inconclusive.append(f"harness error seed={case['seed']}: {tr.errors[0][:300]}")
        return
    if len(tr.ticks) >= 8:
        acc.sig(oracles.sig_of_trace(tr))
    acc.sample({"family": case["family"], "seed": case["seed"], "ticks": len(tr.ticks), "compared_after_ticks": box.get("n", 0), "outcome": tr.outcome})
    # resumed phase: snapshot mid-run (JSON round trip) and monitor the resumed run the same way
    rnd = random.Random(case["seed"] ^ 0xC11)
    if len(tr.ticks) >= 4 and rnd.random() < 0.5 and not tr.spec.get("responders"):
        _tr, snaps = engine_run.run_with_snapshots(case["spec"])
        cands = [e for e in snaps if e["snap"] is not None]
        if cands:
            ent = rnd.choice(cands)
            run_resumed({"seed": case["seed"], "family": case["family"], "spec": {**case["spec"], "uid_base": 1000}, "snap": ent["snap"], "k": ent["k"]}, acc)


def run_resumed(case2, acc):
    from vf import engine_run, oracles
    from workflows import Context

    box = {}
    wit = {"case": case2, "phase": "resumed"}
    snap = case2["snap"]
    tr2 = engine_run.run_case(case2["spec"], ctx_factory=lambda w: Context.from_dict(w, json.loads(json.dumps(snap))), start=False,
                              extra={"after_tick": _hook(acc, wit, box), "at_step_point": _point_hook(acc, wit, box)})
    acc.case()
    acc.hit("resumed_case")
    if tr2.errors:
        acc.inconclusive.append(f"harness error (resumed) seed={case2['seed']}: {tr2.errors[0][:300]}")
        return
    acc.sig(oracles.sig_of_trace(tr2))


def run_shard(shard):
    acc = Acc()
    for i in range(shard["n"]):
        run_one(engine_check.gen_case(shard["seed"] + i, FAMILIES), acc)
    return acc.to_dict()


def replay(rp):
    acc = Acc()
    c = rp["case"]
    if c.get("phase") == "resumed":
        run_resumed(c["case"], acc)
    else:
        run_one(c["case"], acc)
    return acc.to_dict()
