"""C34 — release tooling converts and classifies versions consistently (direct calls).

Monitor shape: reference-model comparison.  Versions are generated as *structured*
values (release tuple, optional (a|b|rc, n)) and rendered in normalised and
un-normalised PEP 440 / semver spellings.  The real `pep440_to_semver`,
`semver_to_pep440` (dev_cli.changesets) and `detect_change_type`
(dev_cli.versioning) are called on the rendered strings; the oracle is computed
from the structured value (canonical rendering, tuple ordering) — it never
parses the string, so it is independent of the code under test and of
`packaging`.  `packaging.Version` is only used as a harness self-check of the
model (disagreement => inconclusive, not a verdict).
"""
from __future__ import annotations

import random

from vf.common import Acc, h

ID = "C34"
LEVEL = "exploration"
TECHNIQUE = ("runtime monitoring: reference-model oracle over generated structured versions rendered in normalised and "
             "un-normalised spellings (direct calls on pep440_to_semver / semver_to_pep440 / detect_change_type)")
LEVEL_TEXT = ("Randomised + boundary-grid differential monitoring of the three release-tooling functions against a model that "
              "works on the structured version (release tuple, optional a/b/rc number) the string was rendered from; right "
              "level because the property is a pure input/output statement over an infinite but regular domain.")
LEVEL_NOTE = ("Trusted: the structured model in this file (canonical rendering, lexicographic order with a<b<rc<final), "
              "cross-checked at run time against packaging.Version (disagreement => inconclusive). Domain: release tuples "
              "with optional a/b/rc number, no epoch/post/dev/local parts; conversions use 3-component releases (semver).")
DESIGN_REF = "§5 C34"
RULE = ("case = one structured version (round trips, every spelling) or one ordered pair of structured versions "
        "(classification, random spellings); distinct = hash of the structured value(s) + spelling; non-trivial = has a "
        "pre-release part or an un-normalised spelling (round trips); the two versions differ or are spelled un-normalised (pairs)")
REQUIRED_REACH = ["pep440_roundtrip_eval", "semver_roundtrip_eval", "classify_none_eval", "classify_grew_eval",
                  "classify_prerelease_only_eval", "unnormalised_spelling_eval", "model_vs_packaging_selfcheck"]
ASSUMPTIONS = ["versions are release tuples (1-3 components for classification, exactly 3 for conversions) with an optional "
               "a/b/rc pre-release number; no epoch, post, dev or local segments",
               "when only the pre-release part grew the statement names no component: any answer other than 'none' is accepted"]

NUMS = [0, 1, 2, 3, 9, 10, 11, 19, 20, 99, 100, 2024, 65535, 2 ** 31, 10 ** 12]
SMALL = [0, 1, 2, 3, 10]
LABELS = ["a", "b", "rc"]
LABEL_RANK = {"a": 0, "b": 1, "rc": 2}
# PEP 440 alternative spellings that normalise to a/b/rc
ALT_LABEL = {"a": ["a", "alpha", "A", "ALPHA", "Alpha"], "b": ["b", "beta", "B", "Beta"],
             "rc": ["rc", "c", "pre", "preview", "RC", "Rc"]}
SEPS = ["", ".", "-", "_"]


def plan(tier, seed):
    n = 16 if tier == "quick" else 64
    per = 2500 if tier == "quick" else 90000
    return [{"seed": seed * 1000 + i, "n": per, "grid": i} for i in range(n)]


# ----------------------------------------------------------------- structured model
def canon_pep440(v):
    rel, pre = v["rel"], v.get("pre")
    s = ".".join(str(x) for x in rel)
    if pre:
        s += f"{pre[0]}{pre[1]}"
    return s


def canon_semver(v):
    rel, pre = v["rel"], v.get("pre")
    s = ".".join(str(x) for x in rel)
    if pre:
        s += f"-{pre[0]}.{pre[1]}"
    return s


def key(v):
    rel = tuple(v["rel"])
    # PEP 440 compares releases with trailing zeros stripped == zero padded
    rel = (rel + (0, 0, 0))[:3] if len(rel) <= 3 else rel
    pre = v.get("pre")
    return (rel, (LABEL_RANK[pre[0]], pre[1]) if pre else (3, 0))


def model_change(new, old):
    """-> set of accepted answers"""
    kn, ko = key(new), key(old)
    if kn <= ko:
        return {"none"}, "none"
    for i, name in enumerate(("major", "minor", "patch")):
        if kn[0][i] > ko[0][i]:
            return {name}, name
        if kn[0][i] < ko[0][i]:  # cannot happen when kn > ko
            raise AssertionError("model order broken")
    # release tuple identical: only the pre-release part grew -> not defined by the statement
    return {"major", "minor", "patch", "prerelease", "pre", "prepatch", "preminor", "premajor"}, "pre_only"


# ----------------------------------------------------------------- renderers
def _num(rnd, n, messy):
    if messy and rnd.random() < 0.3:
        return "0" * rnd.randint(1, 2) + str(n)
    return str(n)


def render_pep440(rnd, v, messy):
    rel = ".".join(_num(rnd, x, messy) for x in v["rel"])
    s = rel
    pre = v.get("pre")
    if pre:
        lab = rnd.choice(ALT_LABEL[pre[0]]) if messy else pre[0]
        sep1 = rnd.choice(SEPS) if messy else ""
        sep2 = rnd.choice(SEPS) if messy else ""
        if messy and pre[1] == 0 and rnd.random() < 0.5:
            s += f"{sep1}{lab}"  # implicit 0
        else:
            s += f"{sep1}{lab}{sep2}{_num(rnd, pre[1], messy)}"
    if messy:
        if rnd.random() < 0.2:
            s = rnd.choice(["v", "V"]) + s
        if rnd.random() < 0.15:
            s = rnd.choice([" ", "\t", "\n"]) + s + rnd.choice([" ", "\n", ""])
    return s


def render_semver(rnd, v, messy):
    # semver itself forbids leading zeros; the messy spelling only zero-pads the pre-release number,
    # which the tooling's own regex (\d+) admits
    s = ".".join(str(x) for x in v["rel"])
    pre = v.get("pre")
    if pre:
        s += f"-{pre[0]}.{_num(rnd, pre[1], messy)}"
    return s


def gen_version(rnd, ncomp=None, nums=NUMS):
    n = ncomp or rnd.choice([1, 2, 3, 3, 3])
    v = {"rel": [rnd.choice(nums) for _ in range(n)]}
    if rnd.random() < 0.55:
        v["pre"] = [rnd.choice(LABELS), rnd.choice(nums)]
    return v


def gen_pair(rnd):
    """Ordered pair biased to differ in one deciding place."""
    nums = SMALL if rnd.random() < 0.7 else NUMS
    old = gen_version(rnd, nums=nums)
    mode = rnd.choice(["same", "bump", "bump", "drop", "pre", "random", "pad"])
    new = {"rel": list(old["rel"]), **({"pre": list(old["pre"])} if old.get("pre") else {})}
    if mode == "random":
        new = gen_version(rnd, nums=nums)
    elif mode in ("bump", "drop"):
        rel = (list(new["rel"]) + [0, 0, 0])[:3]
        i = rnd.randrange(3)
        rel[i] = rel[i] + rnd.choice([1, 1, 2, 10]) if mode == "bump" else max(0, rel[i] - rnd.choice([1, 2]))
        # lower components: keep, reset to zero or randomise (must not matter when a higher one grew)
        for j in range(i + 1, 3):
            r = rnd.random()
            if r < 0.4:
                rel[j] = 0
            elif r < 0.7:
                rel[j] = rnd.choice(nums)
        new["rel"] = rel[:rnd.choice([max(1, i + 1), 3, 3])] if rnd.random() < 0.3 else rel
        if rnd.random() < 0.4:
            new["pre"] = [rnd.choice(LABELS), rnd.choice(nums)]
        elif rnd.random() < 0.5:
            new.pop("pre", None)
    elif mode == "pre":
        r = rnd.random()
        if r < 0.3:
            new.pop("pre", None)
        else:
            new["pre"] = [rnd.choice(LABELS), rnd.choice(SMALL)]
    elif mode == "pad":
        # same version spelled with a different number of components (1.2 vs 1.2.0)
        rel = list(new["rel"])
        while len(rel) > 1 and rel[-1] == 0 and rnd.random() < 0.7:
            rel.pop()
        while len(rel) < 3 and rnd.random() < 0.5:
            rel.append(0)
        new["rel"] = rel
    if rnd.random() < 0.5:
        new, old = old, new
    return new, old


# ----------------------------------------------------------------- monitors
def check_roundtrip(case, acc, cs):
    v = case["v"]
    want_pep, want_sem = canon_pep440(v), canon_semver(v)
    for s in case["pep"]:
        acc.hit("pep440_roundtrip_eval")
        if s != want_pep:
            acc.hit("unnormalised_spelling_eval")
        try:
            mid = cs.pep440_to_semver(s)
            back = cs.semver_to_pep440(mid)
        except Exception as x:  # noqa: BLE001
            acc.violation({"mech": "pep440_roundtrip_raised", "exc": type(x).__name__},
                          f"pep440->semver->pep440 raised {type(x).__name__}: {x} on {s!r}", {**case, "pep": [s], "sem": []})
            continue
        if back != want_pep:
            acc.violation({"mech": "pep440_roundtrip_mismatch", "pre": bool(v.get("pre"))},
                          f"semver_to_pep440(pep440_to_semver({s!r})) = {back!r} (via {mid!r}), normalised original is {want_pep!r}",
                          {**case, "pep": [s], "sem": []})
        elif mid != want_sem:
            acc.note("pep440_to_semver_not_canonical_semver")
    for s in case["sem"]:
        acc.hit("semver_roundtrip_eval")
        if s != want_sem:
            acc.hit("unnormalised_spelling_eval")
        try:
            mid = cs.semver_to_pep440(s)
            back = cs.pep440_to_semver(mid)
        except Exception as x:  # noqa: BLE001
            acc.violation({"mech": "semver_roundtrip_raised", "exc": type(x).__name__},
                          f"semver->pep440->semver raised {type(x).__name__}: {x} on {s!r}", {**case, "pep": [], "sem": [s]})
            continue
        if back != want_sem:
            acc.violation({"mech": "semver_roundtrip_mismatch", "pre": bool(v.get("pre"))},
                          f"pep440_to_semver(semver_to_pep440({s!r})) = {back!r} (via {mid!r}), normalised original is {want_sem!r}",
                          {**case, "pep": [], "sem": [s]})
        elif mid != want_pep and s == want_sem:
            acc.note("semver_to_pep440_not_canonical_pep440")


def check_short_release_note(case, acc, cs):
    """Informational stricter reading: 1/2-component releases through the conversions."""
    v = case["v"]
    try:
        back = cs.semver_to_pep440(cs.pep440_to_semver(canon_pep440(v)))
        if back != canon_pep440(v):
            acc.note("short_release_roundtrip_differs(stricter reading: non-semver release lengths)")
        else:
            acc.note("short_release_roundtrip_ok")
    except Exception:  # noqa: BLE001
        acc.note("short_release_roundtrip_raises(stricter reading)")


def check_classify(case, acc, vs, Version):
    new, old = case["new"], case["old"]
    sn, so = case["sn"], case["so"]
    accepted, tag = model_change(new, old)
    # harness self-check of the model against packaging (never a verdict on the repo)
    acc.hit("model_vs_packaging_selfcheck")
    try:
        pn, po = Version(sn), Version(so)
        if (pn <= po) != (tag == "none") or str(pn) != canon_pep440(new) or str(po) != canon_pep440(old):
            acc.inconclusive.append(f"model disagrees with packaging on {sn!r} vs {so!r}")
            return
    except Exception as x:  # noqa: BLE001
        acc.inconclusive.append(f"packaging rejects generated spelling {sn!r}/{so!r}: {x}")
        return
    acc.hit({"none": "classify_none_eval", "pre_only": "classify_prerelease_only_eval"}.get(tag, "classify_grew_eval"))
    if sn != canon_pep440(new) or so != canon_pep440(old):
        acc.hit("unnormalised_spelling_eval")
    try:
        got = vs.detect_change_type(sn, so)
    except Exception as x:  # noqa: BLE001
        acc.violation({"mech": "detect_change_type_raised", "exc": type(x).__name__},
                      f"detect_change_type({sn!r}, {so!r}) raised {type(x).__name__}: {x}", case)
        return
    if got not in accepted:
        if tag == "none":
            sig = {"mech": "classified_change_but_not_greater", "got": got}
        elif got == "none":
            sig = {"mech": "classified_none_but_greater", "grew": tag}
        else:
            sig = {"mech": "wrong_component_named", "grew": tag, "got": got}
        acc.violation(sig, f"detect_change_type({sn!r}, {so!r}) = {got!r}; statement demands {sorted(accepted)}", case)
    elif tag == "pre_only":
        acc.note(f"prerelease_only_growth_classified_as_{got}")


# ----------------------------------------------------------------- cases
def gen_rt_case(rnd, v=None):
    v = v or gen_version(rnd, ncomp=3)
    pep = [canon_pep440(v)] + [render_pep440(rnd, v, True) for _ in range(3)]
    sem = [canon_semver(v), render_semver(rnd, v, True)]
    return {"kind": "rt", "v": v, "pep": pep, "sem": sem}


def gen_cl_case(rnd, pair=None):
    new, old = pair or gen_pair(rnd)
    messy = rnd.random() < 0.4
    return {"kind": "cl", "new": new, "old": old,
            "sn": render_pep440(rnd, new, messy) if messy else canon_pep440(new),
            "so": render_pep440(rnd, old, messy and rnd.random() < 0.7) if messy else canon_pep440(old)}


def grid_cases(rnd, part, parts):
    """Deterministic boundary grid, split over shards: all pairs over a small component alphabet."""
    vals = [0, 1, 2, 10]
    pres = [None, ["a", 0], ["a", 1], ["b", 0], ["rc", 1], ["rc", 2]]
    vs = [{"rel": [a, b, c], **({"pre": p} if p else {})} for a in vals[:3] for b in vals[:3] for c in vals[:3] for p in pres]
    vs += [{"rel": [a], **({"pre": p} if p else {})} for a in vals for p in pres[:3]]
    vs += [{"rel": [a, b], **({"pre": p} if p else {})} for a in vals[:3] for b in vals[:3] for p in pres[:3]]
    k = 0
    for x in vs:
        for y in vs:
            k += 1
            if k % parts == part:
                yield gen_cl_case(rnd, (x, y))
    for i, x in enumerate(vs):
        if len(x["rel"]) == 3 and i % parts == part:
            yield gen_rt_case(rnd, x)


def nontrivial(case):
    if case["kind"] == "rt":
        return bool(case["v"].get("pre")) or any(s != canon_pep440(case["v"]) for s in case["pep"])
    return key(case["new"]) != key(case["old"]) or case["sn"] != canon_pep440(case["new"])


def run_case(case, acc, cs, vs, Version):
    if case["kind"] == "rt":
        check_roundtrip(case, acc, cs)
    elif case["kind"] == "short":
        check_short_release_note(case, acc, cs)
    else:
        check_classify(case, acc, vs, Version)


def _mods():
    import dev_cli.changesets as cs
    import dev_cli.versioning as vs
    from packaging.version import Version

    return cs, vs, Version


def run_shard(shard):
    cs, vs, Version = _mods()
    acc = Acc()
    rnd = random.Random(shard["seed"])
    parts = 16
    for case in grid_cases(rnd, shard["grid"] % parts, parts):
        acc.case()
        if nontrivial(case):
            acc.sig(h(case))
        run_case(case, acc, cs, vs, Version)
    for i in range(shard["n"]):
        r = rnd.random()
        if r < 0.4:
            case = gen_rt_case(rnd)
        elif r < 0.43:
            case = {"kind": "short", "v": gen_version(rnd, ncomp=rnd.choice([1, 2]))}
        else:
            case = gen_cl_case(rnd)
        acc.case()
        if case["kind"] != "short" and nontrivial(case):
            acc.sig(h(case))
        acc.sample(case)
        run_case(case, acc, cs, vs, Version)
    return acc.to_dict()


def replay(rp_file):
    cs, vs, Version = _mods()
    acc = Acc()
    run_case(rp_file["case"], acc, cs, vs, Version)
    return acc.to_dict()
