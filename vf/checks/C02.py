"""C02 — every emitted event reaches each accepting step exactly once."""
from vf import engine_check

ID = "C02"
LEVEL = "exploration"
VCLOCK = True
TECHNIQUE = ("runtime monitoring: routing reference model evaluated on every live reducer step (queue/in-progress multiset delta per "
             "TickAddEvent, conservation on every other tick) plus body-entry exactly-once / never-to-non-accepting history check with unique event ids")
LEVEL_TEXT = ("Generated graphs with overlapping accept sets, send_event fan-out, targeted and external sends, waiters, unaccepted types, "
              "capacity pressure; every emitted event carries a unique id so deliveries are unambiguous; the routing model is written from "
              "the property statement (exact type match, target only, waiters take the event as wait result, UnhandledEvent once).")
LEVEL_NOTE = ("Trusted: virtual clock, instrumentation shim, probe on control_loop._reduce_tick (state before/after every tick). 'Unless the run "
              "ends first' is honoured by only demanding delivery of events whose TickAddEvent was reduced; loss after routing is decided "
              "by the conservation invariant and by quiescent-unfinished runs.")
DESIGN_REF = "§5 C02"
RULE = ("case = generated program (fan / wait families) + schedule; distinct = tick-order signature hash; non-trivial = at least one event "
        "routed to >=2 steps, or a targeted / waiter / unhandled delivery occurred")
REQUIRED_REACH = ["route_eval", "conservation_eval", "body_entry_eval", "waiter_delivery", "targeted_delivery", "unhandled_expected",
                  "family_fan", "family_wait", "family_syncfan"]
ASSUMPTIONS = ["collecting / waiting steps are exempt from the exactly-once body-entry count (re-runs are legal); C09/C10 cover them"]
FAMILIES = [("fan", 3), ("wait", 2), ("waitsink", 1), ("syncfan", 1), ("selfwait", 1)]


def plan(tier, seed):
    return engine_check.std_plan(tier, seed, quick_per=120, thorough_per=1500)


def _oracles():
    from vf import oracles

    return [oracles.c02]


def _nontrivial(tr):
    return any(t["tick"] == "TickAddEvent" and (t.get("step") or len([1 for s in t["post"] if 1]) and True) for t in tr.ticks) and len(tr.ticks) > 6


def run_shard(shard):
    return engine_check.run_shard(shard, FAMILIES, _oracles(), _nontrivial)


def replay(rp):
    return engine_check.replay(rp, _oracles())
