"""C32 — generated deployment ids are valid DNS-1035 labels (direct calls, no engine).

Monitor shape: invariant + reference-model oracle on the *returned id* of the real
`llama_agents.control_plane.k8s_client.find_deployment_id`.

Probes (installed from the harness on module globals the function looks up at call
time, nothing in /repo is edited):
  * `k8s_client.validate_deployment_id`  -> scripted availability oracle
    (free / taken k times / only un-suffixed candidates taken / always taken);
  * `k8s_client.random`                  -> a recording, seeded `random.Random`
    whose 5-hex draws can also be forced to boundary values ("00000", "99999", ...),
    so "carries a random suffix" is decided against the suffix that was really drawn.

Oracle (from the property statement only):
  U. every returned id is a DNS-1035 label: [a-z]([a-z0-9-]*[a-z0-9])?, 1..63 chars;
  D. if the name has >= 3 lowercase alphanumerics the id (minus a drawn suffix and the
     'd-' letter prefix) consists of a non-empty prefix of them;
  S. otherwise the id carries the random suffix that was drawn.
"lowercase alphanumerics" is read in three ways (ASCII-only lowering, str.lower(),
str.casefold()); a case is a violation only when it fails under every reading.
"""
from __future__ import annotations

import random
import re

from vf.common import Acc as _Acc
from vf.common import h


class Acc(_Acc):
    """Violation texts are made ASCII-safe (names / payloads contain arbitrary Unicode incl. lone surrogates)."""

    def violation(self, sig, what, case):
        super().violation(sig, what.encode("ascii", "backslashreplace").decode("ascii"), case)

ID = "C32"
LEVEL = "exploration"
TECHNIQUE = ("runtime monitoring: invariant + reference-model oracle on ids returned by the real find_deployment_id under a "
             "scripted availability oracle and a recording/forcing random source (direct calls)")
LEVEL_TEXT = ("Generated hostile display names (all Unicode planes, case-mapping oddities, ASCII edge shapes, lengths 0-200, "
              "truncation boundaries) x force flag x availability scripts x forced/seeded suffix draws; each returned id is "
              "judged by a label grammar and a derivation model written from the statement. Right level: pure function of "
              "(name, draws, availability answers).")
LEVEL_NOTE = ("Trusted: CPython re/str case mapping, the label grammar and derivation model in this file, the auto-stub finder "
              "that satisfies k8s_client's kubernetes/urllib3 imports (none of that code is called). The Kubernetes lookup "
              "behind validate_deployment_id is replaced by a script, so only find_deployment_id/_append_random_suffix run.")
DESIGN_REF = "§5 C32"
RULE = ("case = (display name, force_suffix, availability script, suffix-draw plan); distinct = hash of the name's sanitisation "
        "feature vector (length bucket, character classes present, edge characters, alnum-count bucket, boundary hit) + force "
        "+ script + outcome shape; non-trivial = the name is not already a valid label, or a suffix/truncation/prefix was needed")
REQUIRED_REACH = ["dns_label_eval", "derived_from_name_eval", "short_name_suffix_eval", "collision_suffix_eval",
                  "forced_suffix_eval", "truncation_eval", "digit_first_eval", "unicode_name_eval", "empty_slug_eval",
                  "suffix_draw_recorded"]
ASSUMPTIONS = ["availability lookups (Kubernetes) are scripted; their answers are arbitrary but finite",
               "'lowercase alphanumerics' = [a-z0-9] after lower-casing (ASCII-only, str.lower or str.casefold: any reading accepted)",
               "when all 99 candidates are reported taken the function may raise ValueError (no id is derived)"]

LABEL = re.compile(r"[a-z](?:[a-z0-9-]{0,61}[a-z0-9])?\Z")
HEX5 = re.compile(r"[0-9a-f]{5}\Z")
HEXCHARS = "0123456789abcdef"
EDGE_DRAWS = ["00000", "99999", "0a0a0", "fffff", "a0000", "0000a", "12345", "9abcd"]


def plan(tier, seed):
    n = 16 if tier == "quick" else 64
    per = 5000 if tier == "quick" else 60000
    return [{"seed": seed * 1000 + i, "n": per, "part": i} for i in range(n)]


# ----------------------------------------------------------------- probes
class RecRandom(random.Random):
    """Seeded random source that records (and can force) the 5-hex suffix draws."""

    def __init__(self, seed, forced):
        super().__init__(seed)
        self.forced = list(forced)
        self.draws = []
        self.first_fix = []

    def choices(self, population, weights=None, *, cum_weights=None, k=1):
        pop = list(population)
        if self.forced and k == 5 and all(c in pop for c in self.forced[0]):
            out = list(self.forced.pop(0))
        else:
            out = super().choices(population, weights, cum_weights=cum_weights, k=k)
        if k == 5:
            self.draws.append("".join(map(str, out)))
        return out

    def choice(self, seq):
        c = super().choice(seq)
        self.first_fix.append(c)
        return c


class Script:
    def __init__(self, spec, rec):
        self.spec = spec
        self.rec = rec
        self.calls = []

    async def __call__(self, deployment_id):
        self.calls.append(deployment_id)
        k = self.spec
        if k == "free":
            return True
        if k == "all_taken":
            return False
        if k == "unsuffixed_taken":
            return bool(self.rec.draws)
        return len(self.calls) > k["taken"]


# ----------------------------------------------------------------- model
def readings(name):
    return {
        "ascii_lower": "".join(c.lower() for c in name if c.isascii() and c.isalnum()),
        "str_lower": "".join(re.findall(r"[a-z0-9]", name.lower())),
        "casefold": "".join(re.findall(r"[a-z0-9]", name.casefold())),
    }


def alnum(s):
    return s.replace("-", "")


def split_suffix(rid, rec):
    """Candidate (body, suffix|None) decompositions.  With recorded draws there is exactly one (decided against
    the suffix really drawn); without (an implementation drawing elsewhere) the structural reading is also offered."""
    if rec.draws:
        for d in reversed(rec.draws):
            if rid.endswith("-" + d):
                return [(rid[: -6], d)]
            # empty slug: the id is the draw itself, first char possibly replaced by a letter
            if len(rid) == 5 and rid[1:] == d[1:] and (rid[0] == d[0] or (d[0].isdigit() and rid[0] in "abcdef")):
                return [("", rid)]
        return [(rid, None)]
    out = [(rid, None)]
    m = re.search(r"(?:^|-)([0-9a-f]{5})\Z", rid)
    if m:
        out.append((rid[: m.start()], m.group(1)))
    return out


def derived(body, seq):
    a = alnum(body)
    if a and seq.startswith(a):
        return True
    if body.startswith("d-"):
        a = alnum(body[2:])
        return bool(a) and seq.startswith(a)
    return False


def why_not_label(rid):
    if rid == "":
        return "empty"
    if len(rid) > 63:
        return "too_long"
    if not ("a" <= rid[0] <= "z"):
        return "bad_start"
    if not re.fullmatch(r"[a-z0-9-]*", rid):
        return "bad_char"
    if rid[-1] == "-":
        return "bad_end"
    return "other"


def judge(case, acc, k8s, loop):
    name, force, spec = case["name"], case["force"], case["script"]
    rec = RecRandom(case["rseed"], case.get("forced", []))
    script = Script(spec, rec)
    k8s.random = rec
    k8s.validate_deployment_id = script
    try:
        rid = loop.run_until_complete(k8s.find_deployment_id(name, force_suffix=force))
    except ValueError as x:
        if spec == "all_taken" or (isinstance(spec, dict) and spec["taken"] >= 99):
            acc.note("all_candidates_taken_raises_ValueError")
            return None
        acc.violation({"mech": "find_deployment_id_raised", "exc": "ValueError"},
                      f"find_deployment_id({name!r}) raised ValueError({x}) although a candidate was free", case)
        return None
    except Exception as x:  # noqa: BLE001
        acc.violation({"mech": "find_deployment_id_raised", "exc": type(x).__name__},
                      f"find_deployment_id({name!r}) raised {type(x).__name__}: {x}", case)
        return None

    # ---- U: DNS-1035 label, <= 63
    acc.hit("dns_label_eval")
    if not isinstance(rid, str) or not LABEL.match(rid) or len(rid) > 63:
        why = why_not_label(rid) if isinstance(rid, str) else "not_str"
        acc.violation({"mech": "not_dns1035_label", "why": why},
                      f"id {rid!r} derived from {name!r} is not a DNS-1035 label (<=63): {why}", case)
        return rid
    if rec.draws:
        acc.hit("suffix_draw_recorded")
    cands = split_suffix(rid, rec)
    body, suffix = cands[0]
    rd = readings(name)
    collided = len(script.calls) > 1
    if any(not c.isascii() for c in name):
        acc.hit("unicode_name_eval")
    if collided:
        acc.hit("collision_suffix_eval")
    if force:
        acc.hit("forced_suffix_eval")
    if len(rid) >= 57 and max(len(s) for s in rd.values()) > len(alnum(body)):
        acc.hit("truncation_eval")
    if rid.startswith("d-") and rd["str_lower"][:1].isdigit():
        acc.hit("digit_first_eval")
    if body == "":
        acc.hit("empty_slug_eval")

    # ---- D / S under every reading
    ok = {}
    for r, seq in rd.items():
        if len(seq) >= 3:
            ok[r] = any(derived(b, seq) for b, _ in cands)
        else:
            ok[r] = any(sfx is not None for _, sfx in cands)
    if max(len(s) for s in rd.values()) >= 3:
        acc.hit("derived_from_name_eval")
    if min(len(s) for s in rd.values()) < 3:
        acc.hit("short_name_suffix_eval")
    if len(set(ok.values())) > 1:
        acc.note("readings_of_lowercase_alphanumerics_disagree")
    if not any(ok.values()):
        short = [s for s in rd.values() if len(s) < 3]
        if short and all(sfx is None for _, sfx in cands):
            n = len(rd["str_lower"])
            # id_len separates "the slug is >= 3 chars only thanks to separators / the d- prefix" from "a slug shorter
            # than 3 chars was returned bare"
            acc.violation({"mech": "short_name_without_random_suffix", "id_len": "ge3" if len(rid) >= 3 else "lt3"},
                          f"name {name!r} has {n} (<3) lowercase alphanumerics but id {rid!r} carries no random suffix "
                          f"(suffix draws recorded: {rec.draws})", case)
        else:
            acc.violation({"mech": "id_not_derived_from_name_alphanumerics"},
                          f"id {rid!r} (body {body!r}) is not made of a prefix of the lowercase alphanumerics "
                          f"{rd['str_lower'][:70]!r} of name {name!r}", case)
        return rid
    # ---- informational stricter readings
    seq = rd["str_lower"]
    if len(seq) >= 3:
        if suffix is not None and not collided and not force:
            acc.note("suffix_although_name_long_enough_and_free")
        if len(rid) < 57 and alnum(body[2:] if body.startswith("d-") and not seq.startswith("d") else body) != seq:
            acc.note("derived_part_incomplete_without_truncation")
    if suffix is not None and not HEX5.match(suffix):
        acc.note("suffix_not_5_hex")
    for c in script.calls:
        if not LABEL.match(c):
            acc.note("candidate_offered_to_availability_check_not_a_label")
            break
    return rid


# ----------------------------------------------------------------- generators
SPECIAL = ["\u0130", "\u0131", "\u212a", "\u212b", "\u017f", "\u00df", "\u01c5", "\u1e9e", "\u03a9", "\u2126", "\ufb01",
           "\uff21", "\uff41", "\uff11", "\u0663", "\u00b2", "\u2460", "\u2167", "\u0307", "\u200d", "\u00a0", "\u2028",
           "\x00", "\n", "\t", "\x7f", "\u00e9", "\u00c9", "\u0416", "\u4e2d", "\U0001f600", "\U0001d400", "\U0001d7d8",
           "\U00010400", "\U000e0041"]
PUNCT = list(" -_.!/@#$%^&*()+=[]{}|\\:;\"'<>,?~`")
ASCII_L = "abcdefghijklmnopqrstuvwxyz"
RESERVED = ["validate-repository", "list-projects", "organizations", "version"]


def rand_cp(rnd):
    r = rnd.random()
    if r < 0.35:
        return rnd.choice(ASCII_L + ASCII_L.upper())
    if r < 0.5:
        return rnd.choice("0123456789")
    if r < 0.7:
        return rnd.choice(PUNCT)
    if r < 0.85:
        return rnd.choice(SPECIAL)
    if r < 0.86:
        return chr(rnd.randint(0xD800, 0xDFFF))  # lone surrogate: a legal Python str
    plane = rnd.choice([0, 0, 0, 1, 2, 14, 15, 16])
    cp = plane * 0x10000 + rnd.randint(0, 0xFFFF)
    if 0xD800 <= cp <= 0xDFFF:
        cp = 0xE000
    return chr(min(cp, 0x10FFFF))


def gen_name(rnd):
    k = rnd.random()
    if k < 0.30:  # fully random unicode, length 0..200
        n = rnd.choice([0, 1, 2, 3, 4, 5, 8, 20, 62, 63, 64, 65, 100, 200]) if rnd.random() < 0.5 else rnd.randint(0, 40)
        return "".join(rand_cp(rnd) for _ in range(n))
    if k < 0.50:  # very short: 0..4 alphanumerics with separators / specials around and between
        parts = [rnd.choice(ASCII_L + ASCII_L.upper() + "0123456789" + "".join(SPECIAL[:12])) for _ in range(rnd.randint(0, 4))]
        sep = [rnd.choice(["", "", "-", " ", "_", ".", "--", rnd.choice(SPECIAL)]) for _ in range(len(parts) + 1)]
        out = sep[0]
        for p, s in zip(parts, sep[1:]):
            out += p + s
        return out
    if k < 0.70:  # truncation boundaries: slug lengths around 57/58 and 62..65 with hyphens at the cut
        target = rnd.choice([55, 56, 57, 58, 59, 61, 62, 63, 64, 65, 66, 120])
        s = ""
        while len(s) < target:
            s += rnd.choice(ASCII_L + "0123456789") * rnd.randint(1, 3)
            if rnd.random() < 0.4:
                s += rnd.choice(["-", " ", "__", "."])
        cut = rnd.choice([56, 57, 58, 61, 62, 63])
        if len(s) > cut and rnd.random() < 0.6:
            s = s[:cut - 1] + rnd.choice(["-", "--", " "]) + s[cut:]
        if rnd.random() < 0.3:
            s = rnd.choice("0123456789") + s
        return s
    if k < 0.80:  # digit / hyphen first, trailing junk
        core = "".join(rnd.choice(ASCII_L + "0123456789-") for _ in range(rnd.randint(0, 12)))
        return rnd.choice(["", "-", "--", "9", "0-", "-1", " ", "_"]) + core + rnd.choice(["", "-", "--", " ", "!", "\n"])
    if k < 0.85:
        return rnd.choice(RESERVED + [r.upper() for r in RESERVED] + ["Version ", "d-", "d", "D-1", "d-d"])
    if k < 0.93:  # ordinary display names
        words = [rnd.choice(["My", "app", "Agent", "v2", "RAG", "demo", "2024", "prod", "\u00c9mile", "\u30c7\u30fc\u30bf", "x", "Q&A"])
                 for _ in range(rnd.randint(1, 5))]
        return rnd.choice([" ", "-", "_", " - ", ""]).join(words)
    # already-valid labels incl. ones that look like they carry a suffix
    base = "".join(rnd.choice(ASCII_L) for _ in range(rnd.randint(1, 8)))
    return base + rnd.choice(["", "-" + "".join(rnd.choice(HEXCHARS) for _ in range(5)), "-1", "1"])


def gen_case(rnd):
    name = gen_name(rnd)
    r = rnd.random()
    if r < 0.55:
        script = "free"
    elif r < 0.8:
        script = {"taken": rnd.choice([1, 1, 2, 3, 10, 98])}
    elif r < 0.95:
        script = "unsuffixed_taken"
    elif r < 0.98:
        script = {"taken": 99}
    else:
        script = "all_taken"
    forced = []
    if rnd.random() < 0.35:
        forced = [rnd.choice(EDGE_DRAWS) for _ in range(rnd.randint(1, 3))]
    return {"name": name, "force": rnd.random() < 0.2, "script": script, "rseed": rnd.randint(0, 2 ** 31), "forced": forced}


def bucket(n):
    for b in (0, 1, 2, 3, 4, 8, 16, 32, 56, 57, 58, 62, 63, 64):
        if n <= b:
            return b
    return 999


def features(case, rid):
    name = case["name"]
    low = name.lower()
    slugish = re.sub(r"[^a-z0-9]", "-", low)
    return [bucket(len(name)), bucket(len(re.findall(r"[a-z0-9]", low))),
            any(c.isupper() for c in name), any(not c.isascii() for c in name), any(c in SPECIAL for c in name),
            slugish[:1] == "-", slugish[-1:] == "-", "--" in slugish, low[:1].isdigit(),
            slugish[62:63] == "-", slugish[56:57] == "-",
            case["force"], case["script"] if isinstance(case["script"], str) else ("taken", case["script"]["taken"]),
            bool(case.get("forced")),
            None if rid is None else [bucket(len(rid)), rid.startswith("d-"), bool(HEX5.search(rid))]]


def _setup():
    import asyncio

    import llama_agents.control_plane.k8s_client as k8s

    return k8s, asyncio.new_event_loop()


def _validator_note(acc, rnd):
    """Informational only: the schema-side validator for explicit ids vs the label grammar."""
    try:
        from llama_agents.core.schema.deployments import validate_dns_1035_label
    except Exception:  # noqa: BLE001
        return
    for s in ["abc", "abc\n", "a", "a-", "-a", "A", "a" * 63, "a" * 64, "a--b", "1a", "", "a\u0131"]:
        try:
            validate_dns_1035_label(s)
            acc_ok = True
        except Exception:  # noqa: BLE001
            acc_ok = False
        if acc_ok != bool(LABEL.match(s) and len(s) <= 63):
            acc.note("schema_validator_disagrees_with_label_grammar(explicit ids; outside the statement): " + repr(s))


def run_shard(shard):
    k8s, loop = _setup()
    acc = Acc()
    rnd = random.Random(shard["seed"])
    try:
        if shard.get("part") == 0:
            _validator_note(acc, rnd)
        prelude = []
        if shard.get("part") == 0:
            # small fixed names first, so that the first witness of a signature is a minimal one
            prelude = [{"name": n, "force": f, "script": sc, "rseed": 1, "forced": []}
                       for n in ["a b", "1", "12", "a-b", "x.y", "ab", "a", "", "abc", "My App", "1abc", "-", "a" * 64]
                       for f in (False, True) for sc in ("free", {"taken": 1})]
        for i in range(len(prelude) + shard["n"]):
            case = prelude[i] if i < len(prelude) else gen_case(rnd)
            acc.case()
            rid = judge(case, acc, k8s, loop)
            if rid is None or rid != case["name"]:
                acc.sig(h(features(case, rid)))
            acc.sample({**case, "id": rid})
    finally:
        loop.close()
    return acc.to_dict()


def replay(rp_file):
    k8s, loop = _setup()
    acc = Acc()
    try:
        case = {k: v for k, v in rp_file["case"].items() if k != "id"}
        judge(case, acc, k8s, loop)
    finally:
        loop.close()
    return acc.to_dict()
