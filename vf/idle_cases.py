"""Idle release / reload scenarios on the real in-process server stack (IdleReleaseDecorator + PersistenceDecorator +
ServerRuntimeDecorator over BasicRuntime) under the virtual clock.  Shared by C14, C26, C36.

A scenario: a wait-family program (n items, each waits for Answer(key=v), optional waiter timeout / a retrying step),
idle_timeout I, a list of sends at absolute virtual instants, optional restart (crash + new process) instants, optional
seeded yields at the store's async boundaries.
"""
from __future__ import annotations

import asyncio
import os
import random
import shutil

from vf import engine_run, vclock
from vf import server_run as sr

_probes = {"installed": False}
LIVE = {}  # run_id -> number of control loops inside _ControlLoopRunner.run
OBS = {"cur": None}


def install():
    if _probes["installed"]:
        return
    import workflows.runtime.control_loop as cl
    from llama_agents.server._runtime import idle_release_runtime as irr

    orig_run = cl._ControlLoopRunner.run

    async def run_probe(self, *a, **k):
        rid = self.adapter.run_id
        LIVE[rid] = LIVE.get(rid, 0) + 1
        o = OBS["cur"]
        if o is not None:
            o["loops_started"] += 1
            o["max_live"] = max(o["max_live"], LIVE[rid])
            o["loop_log"].append(("start", rid, vclock.vnow(), LIVE[rid]))
        try:
            return await orig_run(self, *a, **k)
        finally:
            LIVE[rid] -= 1
            if o is not None:
                o["loop_log"].append(("end", rid, vclock.vnow(), LIVE[rid]))

    cl._ControlLoopRunner.run = run_probe

    orig_abort = irr.IdleReleaseDecorator._abort_inner_run

    def abort_probe(self, run_id):
        o = OBS["cur"]
        tr = engine_run._CUR["trace"]
        if o is not None and tr is not None:
            runner = next((r for r in reversed(tr.runners) if r.adapter.run_id == run_id), None)
            snap = {"t": vclock.vnow(), "run_id": run_id, "reason": o.get("stopping") and "server_stop" or "idle_release"}
            if runner is not None:
                try:
                    q = runner.adapter
                    while hasattr(q, "_decorated"):
                        q = q._decorated
                    recvq = [type(t).__name__ for t in list(q._queues.receive_queue._queue)]
                except Exception:  # noqa: BLE001
                    recvq = ["?"]
                snap.update({
                    "workers": {n: {"q": len(w.queue), "ip": len(w.in_progress)} for n, w in runner.state.workers.items()},
                    "wakeups": [type(t[2]).__name__ for t in runner.scheduled_wakeups],
                    "buffer": [type(t).__name__ for t in runner.tick_buffer],
                    "recvq": recvq,
                    "pulled": [n for (n, rid) in tr.extra.get("pulled", {}).values() if rid == run_id],
                    "live": LIVE.get(run_id, 0),
                })
            o["releases"].append(snap)
        return orig_abort(self, run_id)

    irr.IdleReleaseDecorator._abort_inner_run = abort_probe

    orig_release = irr.IdleReleaseDecorator._release_idle_handler

    async def release_probe(self, run_id, *a, **k):
        o = OBS["cur"]
        t0 = vclock.vnow()
        try:
            return await orig_release(self, run_id, *a, **k)
        finally:
            if o is not None:
                o.setdefault("release_attempts", []).append((t0, vclock.vnow()))

    irr.IdleReleaseDecorator._release_idle_handler = release_probe
    _probes["installed"] = True


def new_obs():
    return {"loops_started": 0, "max_live": 0, "loop_log": [], "releases": [], "sends": [], "handler_samples": [], "phases": []}


def run_scenario(scn):
    """scn: {spec, idle_timeout, sends:[{at,key,...}], restarts:[t...], yield_seed, store, end}
    Returns (obs, case_trace)."""
    from vf import boot

    sr.patch_modules()
    engine_run.install_probes()
    install()
    spec = scn["spec"]
    d = boot.scratch_dir()
    obs = new_obs()
    OBS["cur"] = obs
    LIVE.clear()
    cs = sr.Case(spec)
    db = os.path.join(d, "s.db")

    def on_reduce(tick, init, state, commands):
        if type(tick).__name__ != "TickIdleRelease":
            return
        tr = cs.tr
        runner = tr.runners[-1] if tr.runners else None
        snap = {"t": vclock.vnow(), "run_id": runner.adapter.run_id if runner else None, "reason": "idle_release", "via": "TickIdleRelease"}
        if runner is not None:
            try:
                q = runner.adapter
                while hasattr(q, "_decorated"):
                    q = q._decorated
                recvq = [type(t).__name__ for t in list(q._queues.receive_queue._queue)]
            except Exception:  # noqa: BLE001
                recvq = ["?"]
            snap.update({
                "workers": {n: {"q": len(w.queue), "ip": len(w.in_progress)} for n, w in init.workers.items()},
                "wakeups": [type(t[2]).__name__ for t in runner.scheduled_wakeups],
                "buffer": [type(t).__name__ for t in runner.tick_buffer],
                "recvq": recvq,
                "pulled": [n for (n, rid) in tr.extra.get("pulled", {}).values() if rid == snap["run_id"]],
                "live": LIVE.get(snap["run_id"], 0),
            })
        obs["releases"].append(snap)

    if scn.get("stack") == "dbos_sub":
        cs.tr.extra["on_reduce"] = on_reduce
    cuts = sorted(scn.get("restarts") or [])
    bounds = [0.0] + cuts + [scn.get("end", 400.0)]
    mem_store = {"obj": None}
    try:
        for pi in range(len(bounds) - 1):
            t0, t1 = bounds[pi], bounds[pi + 1]
            last = pi == len(bounds) - 2

            async def main(pi=pi, t0=t0, t1=t1, last=last):
                yr = random.Random(scn["yield_seed"] * 1000 + pi) if scn.get("yield_seed") is not None else None
                if scn.get("store", "sqlite") == "sqlite":
                    store = sr.fault_store("sqlite", db, yield_rnd=yr, log=[], latency=scn.get("store_latency"))
                else:
                    store = mem_store["obj"] or sr.fault_store("memory", None, yield_rnd=yr, log=[], latency=scn.get("store_latency"))
                    mem_store["obj"] = store
                proc = sr.Proc(spec, store, idle_timeout=scn["idle_timeout"], stack=scn.get("stack", "inproc"), lifecycle_db=os.path.join(d, "lifecycle.db"),
                               engine_latency=scn.get("engine_latency"), clock_latency=scn.get("clock_latency"))
                procs = [proc]
                if scn.get("replicas", 1) > 1 and scn.get("stack") == "dbos_sub":
                    # second replica: its own decorator chain / server / workflow instance over the SAME store, lifecycle table and engine
                    proc2 = sr.Proc(spec, store, idle_timeout=scn["idle_timeout"], stack="dbos_sub", lifecycle_db=os.path.join(d, "lifecycle.db"), engine=proc.engine,
                                    engine_latency=scn.get("engine_latency"), clock_latency=scn.get("clock_latency"))
                    procs.append(proc2)
                starter = asyncio.ensure_future(proc.start())
                senders = []

                async def send_at(s):
                    delay = s["at"] - vclock.vnow()
                    if delay > 0:
                        await asyncio.sleep(delay)
                    via = procs[s.get("via", 0) % len(procs)]
                    ok = await via.send("h1", s.get("type", "Answer"), s.get("pay", {}), cs.tr.rec, v=s.get("v"), step=s.get("step"))
                    obs["sends"].append({"at": s["at"], "t_done": vclock.vnow(), "ok": ok, "pay": s.get("pay"), "phase": pi})

                await starter
                for extra in procs[1:]:
                    await extra.start()
                if pi == 0:
                    # an unrelated second run of the same workflow that nobody ever answers (it stays `running`, waiting for its human)
                    if scn.get("blocker") == "before":
                        await proc.start_run("h0", cs.tr.rec)
                    await proc.start_run("h1", cs.tr.rec)
                    if scn.get("blocker") == "after":
                        await proc.start_run("h0", cs.tr.rec)
                for s in scn.get("sends", []):
                    if t0 <= s["at"] < t1 or (last and s["at"] >= t1):
                        senders.append(asyncio.ensure_future(send_at(s)))
                for p in scn.get("probes", []):
                    if t0 <= p < t1:
                        async def probe_at(p=p):
                            await asyncio.sleep(max(0, p - vclock.vnow()))
                            h = sr.handler_view(await proc.handler("h1"))
                            rid = h["run_id"] if h else None
                            obs["handler_samples"].append({"t": vclock.vnow(), "h": h, "live": LIVE.get(rid, 0)})
                        senders.append(asyncio.ensure_future(probe_at()))
                await asyncio.sleep(max(0, t1 - vclock.vnow()))
                h = sr.handler_view(await proc.handler("h1"))
                obs["phases"].append({"phase": pi, "t_end": vclock.vnow(), "h": h, "live": LIVE.get(h["run_id"], 0) if h else None})
                if scn.get("stack") == "dbos_sub":
                    obs["lifecycle"] = sr.lifecycle_rows(os.path.join(d, "lifecycle.db"))
                    obs["sub_calls"] = list(proc.dbos_runtime.vf_sub.calls)
                if not last:
                    store.vf_crashed = True  # the process dies here: nothing more is persisted
                    obs["stopping"] = False

            cs.phase(main)
            LIVE.clear()  # the dead process' control loops are gone with it
            cs.tr.extra.get("pulled", {}).clear()  # ... and so is whatever they had pulled but not yet reduced
        obs["case_phases"] = cs.phases
        return obs, cs
    finally:
        OBS["cur"] = None
        shutil.rmtree(d, ignore_errors=True)


def gen_program(rnd, *, n=None, waiter_timeout=None, retry_delay=None, chain=False, post_wait_sleep=None, escalate=None, warmup=None):
    """wait-family program for the server: n items wait for Answer(key=v); optional waiter timeout; optional step that
    fails once and retries after `retry_delay`."""
    n = n or rnd.randint(1, 3)
    wait = {"k": "wait", "type": "Answer", "req": {"key": "{v}"}, "wid": "w-{uid}", "ask": "Ask"}
    if waiter_timeout is not None:
        wait["timeout"] = waiter_timeout
    items = [{"lat": [rnd.choice([0, 0.5, 1])]} for _ in range(n)]
    steps = [
        {"name": "start", "in": ["Go"], "nw": 1, "acts": [{"k": "send", "type": "EvD", "items": items}, {"k": "ret", "type": None}], "declare": ["EvD"]},
        {"name": "ask", "in": ["EvD"], "nw": rnd.randint(1, 3), "acts": [{"k": "sleep", "d": {"from": "lat"}}, wait, {"k": "ret", "type": "EvC"}]},
    ]
    if escalate:
        # one invocation waits twice: a quick confirmation that nobody sends (times out after `escalate` s, the step catches the
        # TimeoutError) and then the human's answer, without a timeout
        quick = {"k": "wait", "type": "Answer2", "req": {"key": "{v}"}, "wid": "q-{uid}", "ask": "Ask2", "timeout": escalate}
        i = steps[1]["acts"].index(wait)
        steps[1]["acts"].insert(i, quick)
    if post_wait_sleep:
        # the step goes on working for a while after its wait ended (answer or TimeoutError)
        steps[1]["acts"].insert(2, {"k": "sleep", "d": post_wait_sleep})
    if chain:
        # two waits one after the other: the second idle period starts when the first wait ends (answer or timeout)
        steps[1]["acts"][-1] = {"k": "ret", "type": "EvE"}
        steps.insert(2, {"name": "ask2", "in": ["EvE"], "nw": steps[1]["nw"], "acts": [dict(wait, wid="w2-{uid}"), {"k": "ret", "type": "EvC"}]})
    total = n
    if retry_delay is not None:
        delays = retry_delay if isinstance(retry_delay, list) else [retry_delay]
        steps[0]["acts"].insert(1, {"k": "send", "type": "EvA", "items": [{}]})
        steps[0]["declare"].append("EvA")
        for i, dly in enumerate(delays):
            # several steps accept the same event: several delayed retries are pending at once, with different delays
            steps.append({"name": f"flaky{i}", "in": ["EvA"], "nw": 1, "retry": {"wait": {"k": "fixed", "w": dly}, "stop": {"k": "attempt", "n": 3}},
                          "acts": [{"k": "sleep", "d": 0.25}, {"k": "fail", "n": 1, "exc": "E1"}, {"k": "ret", "type": "EvC"}]})
            total += 1
    if warmup:
        # a long history before the run goes quiet: a self-feeding chain of `warmup` quick hops (3 ticks each), so that the persisted
        # tick log is longer than one page of whatever reads it back
        steps[0]["acts"].insert(len(steps[0]["acts"]) - 1, {"k": "send", "type": "EvB", "items": [{"left": int(warmup)}]})
        steps[0]["declare"].append("EvB")
        steps.append({"name": "warm", "in": ["EvB"], "nw": 1, "acts": [{"k": "hop", "type": "EvB", "done": "EvC"}]})
        total += 1
    # (with a warm-up chain two lineages reach the join: the result must not name the one that happened to arrive last)
    steps.append({"name": "join", "in": ["EvC"], "nw": 1, "acts": [{"k": "collect", "types": ["EvC"] * total},
                                                                    {"k": "ret", "type": "StopEvent", "result": ({"done": True, "in": "joined"} if warmup else "const")}]})
    keys = [f"r>start.0.{i}" for i in range(n)]
    return {"family": "idle", "steps": steps, "timeout": None, "externals": [], "meta": {"n": n, "keys": keys, "waiter_timeout": waiter_timeout, "retry_delay": retry_delay}}, keys


def idle_instant(spec, store_latency=None, stack="inproc", clock_latency=None):
    """virtual instant at which the run first becomes idle with every wait registered (reference run, no sends, no release);
    measured with the same store latency as the scenario it is a reference for"""
    obs, cs = run_scenario({"spec": spec, "idle_timeout": 1e6, "sends": [], "end": 60.0, "store": "memory", "store_latency": store_latency, "stack": stack, "clock_latency": clock_latency})
    idles = [p["t"] for p in cs.tr.pubs if p["etype"] == "WorkflowIdleEvent"]
    if stack == "dbos_sub":
        # the event interceptor keeps published events away from the inner runtime: read the idle instants off the reducer
        idles = [t["t"] for t in cs.tr.ticks if t["tick"] == "TickIdleCheck" and any(p.get("type") == "WorkflowIdleEvent" for p in t.get("pubs", []))]
    n_wait = spec["meta"]["n"]
    regs = [r["t"] for r in cs.tr.rec.of("wait_call")]
    if not idles or len(regs) < n_wait:
        return None
    t_all = sorted(regs)[n_wait - 1]
    if spec["meta"].get("retry_delay") is not None:
        # a flaky step is retried after a delay: the run is not idle before its last attempt has ended (an idle announcement made
        # while its start event still sat in the mailbox is the known premature one, not the reference instant)
        ends = [b["t1"] for b in cs.tr.bodies() if b["step"].startswith("flaky") and b["t1"] is not None]
        if ends:
            t_all = max(t_all, max(ends))
    if any(s_["name"] == "warm" for s_ in spec["steps"]):
        # the warm-up chain is work like any other: the reference idle instant lies after its last hop (and the join's look at it)
        ends = [b["t1"] for b in cs.tr.bodies() if b["step"] in ("warm", "join") and b["t1"] is not None]
        if ends:
            t_all = max(t_all, max(ends))
    later = [t for t in idles if t >= t_all - 1e-9]
    if not later:
        # every wait is registered, no step body is executing, 60 virtual seconds passed without input: the run IS idle, but no idle
        # announcement was made from then on
        open_bodies = [b["step"] for b in cs.tr.bodies() if b["t1"] is None]
        wakeups = []
        for rn in cs.tr.runners[-1:]:
            try:
                wakeups = [type(t[2]).__name__ for t in rn.scheduled_wakeups]
            except Exception:  # noqa: BLE001
                pass
        LAST_REFERENCE.clear()
        LAST_REFERENCE.update({"never_announced": not open_bodies and "TickAddEvent" not in wakeups, "quiet_since": t_all, "announcements": idles[-5:],
                               "open_bodies": open_bodies, "wakeups": wakeups})
    return later[0] if later else None


LAST_REFERENCE: dict = {}
