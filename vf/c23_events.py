"""Fixed universe of module-level event classes for the C23 check.

Imported lazily from vf.checks.C23.run_shard (it imports repo code).  The names are
what the JSON case specs refer to; subclass relations are part of the universe so
that exact-class vs subclass-aware decisions in the validator become observable.
"""
from __future__ import annotations

from workflows.events import (
    Event,
    HumanResponseEvent,
    InputRequiredEvent,
    StartEvent,
    StepFailedEvent,
    StopEvent,
)


# plain events (with a subclass chain A <- A1 <- A2 and B <- B1)
class A(Event):
    pass


class A1(A):
    pass


class A2(A1):
    pass


class B(Event):
    pass


class B1(B):
    pass


class C(Event):
    pass


class D(Event):
    pass


# start events
class S1(StartEvent):
    pass


class S2(StartEvent):
    pass


class S11(S1):
    pass


# stop events
class T1(StopEvent):
    pass


class T2(StopEvent):
    pass


class T11(T1):
    pass


# human-in-the-loop: requests
class I1(InputRequiredEvent):
    pass


class I11(I1):
    pass


class I2(InputRequiredEvent):
    pass


# human-in-the-loop: responses
class H1(HumanResponseEvent):
    pass


class H11(H1):
    pass


class H2(HumanResponseEvent):
    pass


# a subclass of the failure event (only a plain step may accept it; @catch_error
# requires the exact StepFailedEvent)
class F1(StepFailedEvent):
    pass


UNIVERSE: dict[str, type] = {
    "Event": Event,
    "A": A, "A1": A1, "A2": A2, "B": B, "B1": B1, "C": C, "D": D,
    "StartEvent": StartEvent, "S1": S1, "S2": S2, "S11": S11,
    "StopEvent": StopEvent, "T1": T1, "T2": T2, "T11": T11,
    "InputRequiredEvent": InputRequiredEvent, "I1": I1, "I11": I11, "I2": I2,
    "HumanResponseEvent": HumanResponseEvent, "H1": H1, "H11": H11, "H2": H2,
    "StepFailedEvent": StepFailedEvent, "F1": F1,
}
