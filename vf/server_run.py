"""Server-stack harness (DESIGN §3.4): real WorkflowServer + SqliteWorkflowStore / MemoryWorkflowStore under the virtual
clock, with store-fault, crash and yield injection, and in-process "process restart" emulation.

A case is a sequence of *phases*; each phase is one emulated OS process: fresh BasicRuntime singleton, fresh
WorkflowServer over the same database file, its own event loop (virtual time keeps running across phases).
"""
from __future__ import annotations

import asyncio
import json
import os
import random

from vf import engine_run, programs, vclock


class Crash(BaseException):
    """Emulated process death: passes through every `except Exception` of the engine."""


_patched = False


def patch_modules():
    """virtualise datetime.now() in the modules that decide on it; idempotent."""
    global _patched
    if _patched:
        return
    import llama_agents.server._runtime.idle_release_runtime as irr
    import llama_agents.server._runtime.server_runtime as srt
    import llama_agents.server._service as svc
    import llama_agents.server._store.abstract_workflow_store as aws

    vclock.patch_datetime(irr, srt, svc, aws)
    _patched = True


def make_store_class(base):
    """Subclass of a real store adding: status history, fault plan, crash switch, seeded yields at async boundaries."""

    class FaultStore(base):  # type: ignore[misc, valid-type]
        def vf_init(self, *, crash_at=None, crash_on=None, faults=None, yield_rnd=None, log=None, latency=None):
            self.vf_latency = latency  # virtual seconds every mutating store call takes (a networked store's round trip)
            self.vf_crash_at = crash_at  # crash right after the k-th successful append_tick (1-based)
            self.vf_crash_on = crash_on  # or a predicate name handled by the harness
            self.vf_crashed = False
            self.vf_ticks = 0
            self.vf_faults = list(faults or [])  # [{"method":..., "from": i, "count": n}]
            self.vf_calls = {}
            self.vf_yield = yield_rnd
            self.vf_log = log if log is not None else []
            self.vf_fault_hits = 0
            return self

        async def _vf_gate(self, method):
            if self.vf_crashed:
                raise Crash()
            if self.vf_yield is not None:
                for _ in range(self.vf_yield.choice([0, 0, 1, 2])):
                    await asyncio.sleep(0)
            if self.vf_latency:
                await asyncio.sleep(self.vf_latency)
                if self.vf_crashed:
                    raise Crash()
            n = self.vf_calls[method] = self.vf_calls.get(method, 0) + 1
            for f in self.vf_faults:
                if f["method"] == method and f["from"] <= n < f["from"] + f["count"]:
                    self.vf_fault_hits += 1
                    self.vf_log.append({"k": "fault", "method": method, "n": n, "t": vclock.vnow()})
                    raise OSError(f"injected store fault in {method} call #{n}")

        async def append_tick(self, run_id, tick_data):
            await self._vf_gate("append_tick")
            await super().append_tick(run_id, tick_data)
            self.vf_ticks += 1
            self.vf_log.append({"k": "tick", "run": run_id, "type": tick_data.get("type"), "n": self.vf_ticks, "t": vclock.vnow()})
            if self.vf_crash_at is not None and self.vf_ticks == self.vf_crash_at:
                self.vf_crashed = True
                self.vf_log.append({"k": "crash", "after_tick": self.vf_ticks, "t": vclock.vnow()})
                raise Crash()

        async def append_event(self, run_id, event):
            await self._vf_gate("append_event")
            return await super().append_event(run_id, event)

        async def update(self, handler):
            await self._vf_gate("update")
            res = await super().update(handler)
            self.vf_log.append({"k": "status", "handler": handler.handler_id, "run": handler.run_id, "status": handler.status,
                                "idle": handler.idle_since is not None, "has_result": handler.result is not None,
                                "error": handler.error, "t": vclock.vnow()})
            return res

        async def query(self, query):
            if self.vf_crashed:
                raise Crash()
            if self.vf_yield is not None:
                for _ in range(self.vf_yield.choice([0, 0, 1])):
                    await asyncio.sleep(0)
            if self.vf_latency:
                # reads suspend too on a networked store
                await asyncio.sleep(self.vf_latency)
                if self.vf_crashed:
                    raise Crash()
            return await super().query(query)

    FaultStore.__name__ = "Fault" + base.__name__
    return FaultStore


_store_classes = {}


def fault_store(kind, db_path=None, **kw):
    from llama_agents.server import SqliteWorkflowStore
    from llama_agents.server._store.memory_workflow_store import MemoryWorkflowStore

    base = SqliteWorkflowStore if kind == "sqlite" else MemoryWorkflowStore
    cls = _store_classes.get(base)
    if cls is None:
        cls = _store_classes[base] = make_store_class(base)
    st = cls(db_path) if kind == "sqlite" else cls()
    return st.vf_init(**kw)


class Proc:
    """One emulated server process."""

    def __init__(self, spec, store, *, idle_timeout=1000.0, backoff=(0.5, 3), name="wf", stack="inproc", lifecycle_db=None, create_rows=False, engine=None, engine_latency=None, clock_latency=None):
        import llama_agents.server.server as srv
        import workflows.plugins.basic as basic
        from llama_agents.server import WorkflowServer

        patch_modules()
        engine_run.install_probes()
        # `engine`: a second replica of the DBOS-substitute stack shares the first one's engine (DBOS's system database is shared)
        fresh = engine if engine is not None else basic.BasicRuntime()
        self.engine = fresh
        basic.basic_runtime = fresh
        srv.basic_runtime = fresh
        try:
            import workflows.plugins._context as pc

            if hasattr(pc, "basic_runtime"):
                pc.basic_runtime = fresh
        except Exception:  # noqa: BLE001
            pass
        self.store = store
        if stack == "dbos_sub":
            # DBOS server stack with the DBOS engine substituted: the real DBOSIdleReleaseDecorator / EventInterceptorDecorator /
            # TickPersistenceDecorator / SqliteRunLifecycleLock chain (as DBOSRuntime.build_server_runtime wires it) over a BasicRuntime
            self.dbos_runtime = build_dbos_substitute(fresh, store, idle_timeout, lifecycle_db, latency=engine_latency, clock_latency=clock_latency)
            self.server = WorkflowServer(workflow_store=store, runtime=self.dbos_runtime, persistence_backoff=list(backoff))
        else:
            self.server = WorkflowServer(workflow_store=store, idle_timeout=idle_timeout, persistence_backoff=list(backoff))
        self.wf = programs.make_instance(spec)
        self.name = name
        self.server.add_workflow(name, self.wf)

    async def start(self):
        await self.server.start()
        return self

    async def start_run(self, handler_id, rec):
        from vf import events as E

        st = E.Go(uid=rec.new_uid(), v="r")
        rec.add("emit", how="external", step=None, bid=None, att=None, uid=st.get("uid"), v="r", type="Go", target=None, parent=None)
        return await self.server._service.start_workflow(self.wf, handler_id, start_event=st)

    async def send(self, handler_id, tname, pay, rec, v=None, step=None):
        from vf import events as E

        ev = E.BY_NAME[tname](uid=rec.new_uid(), v=v or f"ext@{vclock.vnow()}", **pay)
        rec.add("emit", how="external", step=None, bid=None, att=None, uid=ev.get("uid"), v=ev.get("v"), type=tname, target=step, parent=None, fields=pay)
        try:
            await self.server._service.send_event(handler_id, ev, step=step)
            rec.add("send_ok", uid=ev.get("uid"))
            return True
        except Exception as e:  # noqa: BLE001
            rec.add("send_error", uid=ev.get("uid"), err=f"{type(e).__name__}: {e}")
            return False

    async def handler(self, handler_id):
        from llama_agents.server._store.abstract_workflow_store import HandlerQuery

        found = await type(self.store).__mro__[1].query(self.store, HandlerQuery(handler_id_in=[handler_id]))
        return found[0] if found else None


def build_dbos_substitute(basic, store, idle_timeout, lifecycle_db, latency=None, clock_latency=None):
    """DBOSRuntime.build_server_runtime's chain with `basic` in DBOSRuntime's place.  The `DBOS` name used by
    llama_agents.dbos.idle_release (retrieve_workflow_async / delete_workflow_async) is bound to the substitute engine."""
    import sqlite3

    import llama_agents.dbos.idle_release as ir
    import llama_agents.dbos.journal.lifecycle as lc
    from llama_agents.server._runtime.event_interceptor import EventInterceptorDecorator
    from llama_agents.server._runtime.persistence_runtime import TickPersistenceDecorator

    vclock.patch_datetime(ir, lc)
    if not os.path.exists(lifecycle_db):
        conn = sqlite3.connect(lifecycle_db)
        mig = os.path.join(os.environ.get("VERIF_REPO", "/repo"), "packages/llama-agents-dbos/src/llama_agents/dbos/_store/sqlite/migrations/0001_init.sql")
        conn.executescript(open(mig).read())
        conn.commit()
        conn.close()

    class _Handle:
        def __init__(self, q):
            self.q = q

        async def get_result(self):
            return await self.q.complete

    class SubDBOS:
        """what idle_release needs from the engine: wait for a workflow id to finish; purge it so the id can be reused"""
        calls = basic.vf_calls if hasattr(basic, "vf_calls") else []

        @staticmethod
        async def retrieve_workflow_async(run_id):
            SubDBOS.calls.append(("retrieve", run_id, vclock.vnow()))
            q = basic._queues.get(run_id)
            if os.environ.get("VF_DEBUG_SUB"):
                print("SUB retrieve", run_id, vclock.vnow(), "queues", q is not None, "complete", q and q.complete, flush=True)
            if q is None:
                raise RuntimeError(f"no workflow {run_id}")
            return _Handle(q)

        @staticmethod
        async def delete_workflow_async(run_id):
            SubDBOS.calls.append(("delete", run_id, vclock.vnow()))
            basic._queues.pop(run_id, None)

    from workflows.runtime.runtime_decorators import BaseRuntimeDecorator

    class SubEngine(BaseRuntimeDecorator):
        """DBOSRuntime's place in the chain.  Like DBOSRuntime it does not build an in-memory state store from
        `serialized_state`: workflow state lives in the workflow store's state store, keyed by run_id (same run_id on resume)."""

        def run_workflow(self, run_id, workflow, init_state, start_event=None, serialized_state=None, serializer=None):
            SubDBOS.calls.append(("run_workflow", run_id, vclock.vnow()))
            return self._decorated.run_workflow(run_id, workflow, init_state, start_event=start_event, serialized_state=None, serializer=serializer)

        def get_internal_adapter(self, workflow):
            inner = self._decorated.get_internal_adapter(workflow)
            if not clock_latency:
                return inner
            from workflows.runtime.runtime_decorators import BaseInternalRunAdapterDecorator

            class SlowClock(BaseInternalRunAdapterDecorator):
                """the engine's clock is a durable (journaled) call: reading it takes a round trip"""

                async def get_now(self):
                    await asyncio.sleep(clock_latency)
                    return await super().get_now()

            return SlowClock(inner)

        def get_external_adapter(self, run_id):
            inner = self._decorated.get_external_adapter(run_id)
            q = basic._queues.get(run_id)
            orig_send = inner.send_event

            async def send_event(tick):
                # history of what the real decorators hand to the engine: was the engine run this tick goes to already finished?
                ev = getattr(tick, "event", None)
                uid = ev.get("uid", None) if ev is not None and hasattr(ev, "get") else None
                SubDBOS.calls.append(("send", run_id, vclock.vnow(), uid, bool(q is not None and q.complete is not None and q.complete.done())))
                if latency:
                    await asyncio.sleep(latency)  # the engine's send is a database round trip
                return await orig_send(tick)

            inner.send_event = send_event
            return inner

    ir.DBOS = SubDBOS
    # one history per engine (replicas share the engine, hence the history)
    if not hasattr(basic, "vf_calls"):
        basic.vf_calls = []
    SubDBOS.calls = basic.vf_calls
    tick_persistence = TickPersistenceDecorator(SubEngine(basic), store)
    class LatentLock:
        """the real lifecycle lock; every reply arrives `latency` virtual seconds after the call took effect (a networked database)"""

        def __init__(self, inner):
            self._inner = inner

        def __getattr__(self, name):
            fn = getattr(self._inner, name)
            if not asyncio.iscoroutinefunction(fn):
                return fn

            async def call(*a, **k):
                r = await fn(*a, **k)
                await asyncio.sleep(latency)
                return r

            return call

    def make_lock():
        lk = lc.SqliteRunLifecycleLock(lifecycle_db)
        return LatentLock(lk) if latency else lk

    rt = ir.DBOSIdleReleaseDecorator(EventInterceptorDecorator(tick_persistence), store=store, idle_timeout=idle_timeout, journal_crud=None,
                                     lifecycle_lock=make_lock)
    rt.vf_sub = SubDBOS
    return rt


def lifecycle_rows(lifecycle_db):
    import sqlite3

    if not os.path.exists(lifecycle_db):
        return {}
    c = sqlite3.connect(lifecycle_db)
    try:
        return {r[0]: r[1] for r in c.execute("SELECT run_id, state FROM run_lifecycle")}
    finally:
        c.close()


def handler_view(h):
    if h is None:
        return None
    res = None
    if h.result is not None:
        try:
            res = engine_run.jsonable(h.result.result)
        except Exception:  # noqa: BLE001
            res = repr(h.result)
    return {"status": h.status, "result": res, "error": h.error, "idle": h.idle_since is not None, "run_id": h.run_id}


class Case:
    """Carries the trace/recorder across phases."""

    def __init__(self, spec):
        self.spec = spec
        self.tr = engine_run.Trace(spec)
        self.tr.rec = programs.reset_recorder()
        self.tr.rec._uid = int(spec.get("uid_base", 0))
        self.phases = []
        self.first = True

    def phase(self, main, *, vt_limit=1e6):
        """Run one emulated process: `main` is an async function; returns vclock.CaseResult."""
        engine_run._CUR["trace"] = self.tr
        try:
            cr = vclock.run(main, vt_limit=vt_limit, reset=self.first)
        finally:
            engine_run._CUR["trace"] = None
        self.first = False
        self.phases.append({"quiescent": cr.quiescent, "livelock": cr.livelock, "vt": cr.vt, "done": cr.done,
                            "exc": repr(cr.exception()) if cr.done and cr.exception() is not None else None})
        return cr


def read_db(db_path, handler_id="h1"):
    """Out-of-band view of the persisted handler + tick log (plain sqlite3, no harness objects)."""
    import sqlite3

    conn = sqlite3.connect(db_path)
    try:
        cur = conn.execute("SELECT handler_id, status, run_id, error, result, idle_since FROM handlers WHERE handler_id = ?", (handler_id,))
        row = cur.fetchone()
        h = None
        if row:
            h = {"status": row[1], "run_id": row[2], "error": row[3], "result_raw": row[4], "idle": row[5] is not None}
        ticks = []
        if h and h["run_id"]:
            for (seq, data) in conn.execute("SELECT sequence, tick_data FROM ticks WHERE run_id = ? ORDER BY sequence", (h["run_id"],)):
                ticks.append(json.loads(data))
        return h, ticks
    finally:
        conn.close()
