"""Generators of workflow-program specs (families), DESIGN §3.3.  Pure functions of a random.Random."""
from __future__ import annotations

LATS = [0, 0, 0.5, 1, 1, 2, 3]
DELAYS = [0, 0, 0.25, 0.5, 2]


def _lat_list(rnd, n):
    return [rnd.choice(LATS) for _ in range(n)]


def gen_fan(rnd, *, max_items=8, allow_fail=True, allow_exhaust=True, hitl=False, ties=None, tap=True, unhandled=True,
            targeted=True, externals=True, stream=True):
    """start -> n x EvA -> work1 (each emits m_i EvB) -> work2 -> EvC -> join(collect all) -> StopEvent.

    Options add: a `tap` step that also accepts EvB (overlapping accept sets), targeted sends, an unaccepted
    event type (EvU), external sends, background stream writes, failing items with retry policies.
    """
    ties = rnd.random() < 0.5 if ties is None else ties
    lats = [0, 1, 1, 2] if ties else LATS
    n_items = rnd.randint(1, max_items)
    att1 = rnd.randint(1, 3)
    att2 = rnd.randint(1, 3)
    pol1 = {"wait": {"k": "fixed", "w": rnd.choice(DELAYS)}, "stop": {"k": "attempt", "n": att1}} if allow_fail and rnd.random() < 0.7 else None
    pol2 = {"wait": {"k": "fixed", "w": rnd.choice(DELAYS)}, "stop": {"k": "attempt", "n": att2}} if allow_fail and rnd.random() < 0.5 else None
    items = []
    total_b = 0
    exhaust = False
    for i in range(n_items):
        m = rnd.choice([1, 1, 1, 2, 3])
        fails = 0
        if pol1 is not None and rnd.random() < 0.4:
            fails = rnd.randint(1, att1 - 1) if att1 > 1 else 0
            if allow_exhaust and rnd.random() < 0.08:
                fails = att1
                exhaust = True
        items.append({"lat": [rnd.choice(lats) for _ in range(att1)], "fails": fails, "m": m})
        total_b += m
    w1_nw = rnd.randint(1, 4)
    w2_nw = rnd.randint(1, 4)
    # work1 sends m EvB: encode as up to 3 conditional sends via separate acts keyed on m
    b_items = {"lat2": None}
    steps = []
    start_acts = []
    if stream and rnd.random() < 0.3:
        start_acts.append({"k": "stream"})
    start_acts.append({"k": "send", "type": "EvA", "items": items, "gap": rnd.choice([None, None, 0, 1])})
    if unhandled and rnd.random() < 0.3:
        start_acts.append({"k": "send", "type": "EvU", "items": [{}]})
    if targeted and rnd.random() < 0.3:
        # targeted EvB straight to work2 (must not reach tap)
        start_acts.append({"k": "send", "type": "EvB", "items": [{"lat": [rnd.choice(lats)], "fails": 0, "tgt": 1}], "target": "work2"})
        total_b += 1
    start_acts.append({"k": "ret", "type": None})
    steps.append({"name": "start", "in": ["Go"], "nw": 1, "acts": start_acts, "declare": ["EvA", "EvB"]})
    # work1: sleep, maybe fail, fan out m EvB
    w1_acts = [{"k": "sleep", "d": {"from": "lat"}}, {"k": "fail", "n": {"from": "fails"}, "exc": rnd.choice(["VfError", "ValueError"])}]
    # dynamic fan-out: three send acts guarded by m via 'count_from'
    w1_acts.append({"k": "sendm", "type": "EvB", "count_from": "m", "lats": lats, "fails2": (att2 - 1 if pol2 else 0)})
    w1_acts.append({"k": "ret", "type": None})
    steps.append({"name": "work1", "in": ["EvA"], "nw": w1_nw, "retry": pol1, "acts": w1_acts, "declare": ["EvB"]})
    w2_acts = [{"k": "sleep", "d": {"from": "lat"}}, {"k": "fail", "n": {"from": "fails"}}]
    if stream and rnd.random() < 0.3:
        w2_acts.append({"k": "stream"})
    w2_acts.append({"k": "ret", "type": "EvC"})
    steps.append({"name": "work2", "in": ["EvB"], "nw": w2_nw, "retry": pol2, "acts": w2_acts})
    if tap and rnd.random() < 0.5:
        steps.append({"name": "tap", "in": ["EvB", "EvC"] if rnd.random() < 0.5 else ["EvB"], "nw": rnd.randint(1, 3),
                      "acts": [{"k": "sleep", "d": rnd.choice(lats)}, {"k": "ret", "type": None}]})
    join_nw = rnd.randint(1, 3)
    steps.append({"name": "join", "in": ["EvC"], "nw": join_nw,
                  "acts": [{"k": "sleep", "d": rnd.choice([0, 0, 0.5])}, {"k": "collect", "types": ["EvC"] * total_b},
                           {"k": "ret", "type": "StopEvent", "result": "collected"}]})
    spec = {"family": "fan", "steps": steps, "timeout": None, "meta": {"total_b": total_b, "exhaust": exhaust}}
    ext = []
    if externals and rnd.random() < 0.35:
        for _ in range(rnd.randint(1, 3)):
            ext.append({"at": rnd.choice([0, 0.5, 1, 1, 2, 2.5, 3, 5]), "type": rnd.choice(["EvU", "EvU", "EvF"]), "pay": {}})
    spec["externals"] = ext
    return spec


def gen_waitretry(rnd):
    """a delayed retry is pending while waits with SHORTER timeouts are pending too (and possibly a workflow timeout): the wakeup
    heap's head is not the retry; nothing is queued or running in between, so only the heap tells that the run is not idle"""
    from vf import idle_cases as ic

    d = rnd.choice([2.0, 3.0, 5.0])
    t = rnd.choice([0.5, 1.0, 1.5])
    spec, _keys = ic.gen_program(rnd, n=rnd.randint(1, 2), waiter_timeout=t, retry_delay=d)
    for it in spec["steps"][0]["acts"][0]["items"]:
        it["lat"] = [0]
    spec["family"] = "waitretry"
    spec["timeout"] = rnd.choice([None, 60.0])
    spec["responders"] = []
    spec["meta"].update({"style": "none", "timeout": t, "req": True, "may_wait_forever": False})
    return spec


def gen_selfwait(rnd):
    """the waiting step itself ACCEPTS the type it waits for (a chat / pairing step: `pair(ev: EvD | Answer)` doing
    `wait_for_event(Answer, requirements=...)`): an Answer that resolves one of its waits is that wait's result and no new input for
    the step; an Answer of the same type that resolves nothing (other key) is an ordinary input for it; answers are sent to the run
    or addressed to the step."""
    n = rnd.randint(1, 3)
    items = [{"lat": [rnd.choice([0, 0, 1])]} for _ in range(n)]
    wait = {"k": "wait", "type": "Answer", "req": {"key": "{v}"}, "wid": "w-{uid}", "ask": "Ask"}
    steps = [
        {"name": "start", "in": ["Go"], "nw": 1, "acts": [{"k": "send", "type": "EvD", "items": items, "gap": rnd.choice([None, 1])}, {"k": "ret", "type": None}], "declare": ["EvD"]},
        {"name": "ask", "in": ["EvD", "Answer"], "nw": rnd.randint(1, 3),
         "acts": [{"k": "only", "types": ["EvD"]}, {"k": "sleep", "d": {"from": "lat"}}, wait, {"k": "ret", "type": "EvC"}]},
        {"name": "join", "in": ["EvC"], "nw": 1, "acts": [{"k": "collect", "types": ["EvC"] * n}, {"k": "ret", "type": "StopEvent", "result": "collected"}]},
    ]
    target = rnd.choice([None, None, "ask"])
    replies = []
    if rnd.random() < 0.6:
        replies.append({"delay": rnd.choice([0, 0.5]), "type": "Answer", "pay": {"key": "someone-else"}, "target": rnd.choice([None, target])})
    replies.append({"delay": rnd.choice([0.5, 1]), "type": "Answer", "pay": {"key": "{v}"}, "target": target})
    if rnd.random() < 0.3:
        replies.append({"delay": rnd.choice([0, 1]), "type": "Answer", "pay": {"key": "{v}"}, "target": target})   # a duplicate: nothing waits for it any more
    return {"family": "selfwait", "steps": steps, "timeout": None, "responders": [{"on": "Ask", "replies": replies}], "externals": [],
            "meta": {"n": n, "style": "selfwait", "timeout": None, "req": True, "may_wait_forever": False, "targeted": target is not None}}


def gen_wait2(rnd):
    """wait family whose waiting step goes on after its first wait: it catches the TimeoutError and asks a fallback question (a
    second wait_for_event in the same invocation), or lets the TimeoutError escape into a retry policy.  wait_for_event is
    replay-based, so every later execution of the invocation goes through the first wait again and must meet the SAME outcome."""
    spec = gen_wait(rnd, timeouts=True, log_step=False, targeted_ext=False)
    ask = next(s_ for s_ in spec["steps"] if s_["name"] == "ask")
    w1 = next(a for a in ask["acts"] if a["k"] == "wait")
    if "timeout" not in w1:
        w1["timeout"] = rnd.choice([0.5, 1, 2])
    if w1.get("wid") is None:
        w1["wid"] = "w-{uid}"
    tmo = w1["timeout"]
    # the first answer is late (after the timeout), missing, or on time
    style = rnd.choice(["late", "late", "none", "once"])
    rep = {"late": [{"delay": tmo + rnd.choice([0.25, 0.5, 1.5]), "type": "Answer", "pay": {"key": "{v}"}}], "none": [],
           "once": [{"delay": rnd.choice([0, tmo / 2]), "type": "Answer", "pay": {"key": "{v}"}}]}[style]
    for rp_ in rep:
        for kk, vv in w1["req"].items():
            if kk != "key":
                rp_["pay"][kk] = vv
    spec["responders"] = [{"on": "Ask", "replies": rep}] if rep else []
    shape = rnd.choice(["fallback", "fallback", "retry"])
    if shape == "fallback":
        w2 = {"k": "wait", "type": "Answer2", "req": {"key": "{v}"}, "wid": "w2-{uid}", "ask": "Ask2"}
        if rnd.random() < 0.3:
            w2["timeout"] = rnd.choice([3, 5])
        i = ask["acts"].index(w1)
        ask["acts"].insert(i + 1, w2)
        spec["responders"].append({"on": "Ask2", "replies": [{"delay": rnd.choice([0.5, 1, 2]), "type": "Answer2", "pay": {"key": "{v}"}}]})
    else:
        w1["on_timeout"] = "raise"
        ask["retry"] = {"retry": None, "wait": {"k": "fixed", "w": rnd.choice([0, 0.5])}, "stop": {"k": "attempt", "n": rnd.randint(2, 3)}}
        spec["timeout"] = 60.0
    spec["family"] = "wait2"
    spec["meta"].update({"style": style, "timeout": tmo, "replayed_waits": True, "shape": shape, "may_wait_forever": False})
    return spec


def gen_wait(rnd, *, timeouts=True, log_step=None, targeted_ext=True):
    """start -> n x EvD -> ask (wait_for_event Answer, requirement key==v) -> EvC -> join -> StopEvent.
    Responders answer the published Ask events: on time, late, duplicated, with wrong key / wrong type."""
    n = rnd.randint(1, 4)
    ask_nw = rnd.randint(1, 3)
    use_req = rnd.random() < 0.75
    items = [{"lat": [rnd.choice([0, 0, 1, 2])]} for _ in range(n)]
    tmo = None
    if timeouts and rnd.random() < 0.5:
        tmo = rnd.choice([0.5, 1, 2, 3, 5, 0])   # 0: "do not wait at all" -- a timer that is due the moment it is armed
    wait = {"k": "wait", "type": "Answer", "req": ({"key": "{v}"} if use_req else {}), "wid": "w-{uid}", "ask": "Ask"}
    if use_req and rnd.random() < 0.3:
        wait["wid"] = None  # engine-derived waiter id: distinct per requirement value
    if tmo is not None:
        wait["timeout"] = tmo
    steps = [
        {"name": "start", "in": ["Go"], "nw": 1, "acts": [{"k": "send", "type": "EvD", "items": items, "gap": rnd.choice([None, 0, 1])}, {"k": "ret", "type": None}],
         "declare": ["EvD"]},
        {"name": "ask", "in": ["EvD"], "nw": ask_nw, "acts": [{"k": "sleep", "d": {"from": "lat"}}, wait, {"k": "ret", "type": "EvC"}]},
        {"name": "join", "in": ["EvC"], "nw": rnd.randint(1, 2), "acts": [{"k": "collect", "types": ["EvC"] * n}, {"k": "ret", "type": "StopEvent", "result": "collected"}]},
    ]
    log_step = rnd.random() < 0.5 if log_step is None else log_step
    if log_step:
        steps.append({"name": "log", "in": ["Answer"], "nw": rnd.randint(1, 2), "acts": [{"k": "sleep", "d": rnd.choice([0, 1])}, {"k": "ret", "type": None}]})
    replies = []
    style = rnd.choice(["once", "once", "dup", "wrong_then_right", "late", "none", "wrong_type"])
    d0 = rnd.choice([0, 0.5, 1, 2])
    if style == "once":
        replies = [{"delay": d0, "type": "Answer", "pay": {"key": "{v}"}}]
    elif style == "dup":
        replies = [{"delay": d0, "type": "Answer", "pay": {"key": "{v}"}}, {"delay": rnd.choice([0, 0, 1]), "type": "Answer", "pay": {"key": "{v}"}}]
        if rnd.random() < 0.4:
            replies.append({"delay": rnd.choice([0, 2]), "type": "Answer", "pay": {"key": "{v}"}})
    elif style == "wrong_then_right":
        replies = [{"delay": d0, "type": "Answer", "pay": {"key": "nope"}}, {"delay": rnd.choice([0, 1]), "type": "Answer", "pay": {"key": "{v}"}}]
    elif style == "late":
        replies = [{"delay": (tmo or 2) + rnd.choice([0, 0.5, 1]), "type": "Answer", "pay": {"key": "{v}"}}]
    elif style == "wrong_type":
        replies = [{"delay": d0, "type": "Answer2", "pay": {"key": "{v}"}}, {"delay": 1, "type": "Answer", "pay": {"key": "{v}"}}]
    opaque = use_req and wait.get("wid") is not None and rnd.random() < 0.2
    if opaque:
        # a second requirement whose value is not JSON (a UUID): requirements mix JSON-able and opaque entries; every reply carries
        # the right token, and a forged reply (right key, wrong token) arrives first
        wait["req"] = {"key": "{v}", "tok": {"$uuid": 7}}
        for rp_ in replies:
            rp_["pay"]["tok"] = {"$uuid": 7}
        if replies:
            replies.insert(0, {"delay": replies[0]["delay"], "type": "Answer", "pay": {"key": "{v}", "tok": {"$uuid": 8}}})
            replies[1] = dict(replies[1], delay=rnd.choice([0, 0.5]))
    spec = {"family": "wait", "steps": steps, "timeout": None, "responders": [{"on": "Ask", "replies": replies}] if replies else [],
            "meta": {"n": n, "style": style, "timeout": tmo, "req": use_req, "opaque_req": opaque}}
    ext = []
    if targeted_ext and log_step and rnd.random() < 0.4:
        ext.append({"at": rnd.choice([0.5, 1, 1.5, 2.5]), "type": "Answer", "target": "log", "pay": {"key": f"r>start.0.{rnd.randrange(n)}"}})
    if rnd.random() < 0.2:
        ext.append({"at": rnd.choice([0, 1, 3]), "type": "EvU", "pay": {}})
    spec["externals"] = ext
    # make sure a case with no (timely) reply still ends: without timeout the run would wait forever -> that is the
    # quiescent-not-done outcome, legal for these programs (waiting for a human), so flag it for oracles
    spec["meta"]["may_wait_forever"] = (style == "none" and tmo is None) or (style in ("wrong_type",) and False)
    return spec


HOSTILE = ["raise", "pred_raise", "str", "nan", "neg", "ok", "ok"]   # "ok": a well-behaved user policy (retries at once, n times)


def gen_outcomes(rnd):
    """Variants of the fan family that end in every way a run can end (C04/C31/C15)."""
    spec = gen_fan(rnd, externals=False)
    mode = rnd.choice(["plain", "cancel", "timeout", "racing_stop", "nonevent", "hostile", "bg_stream", "fail"])
    spec["meta"]["mode"] = mode
    steps = {s["name"]: s for s in spec["steps"]}
    if rnd.random() < 0.3:
        # the run ends with a user-defined StopEvent subclass (typed output)
        for a in steps["join"]["acts"]:
            if a["k"] == "ret" and a.get("type") == "StopEvent":
                a["type"] = "Done"
        spec["meta"]["custom_stop"] = True
    if mode in ("cancel", "timeout") and rnd.random() < 0.5:
        for nm in ("work1", "work2", "tap"):
            if nm in steps:
                steps[nm]["stream_on_cancel"] = rnd.choice([True, True, 0.05, 0.2, 0.3])
    if mode == "cancel":
        spec["externals"] = [{"at": rnd.choice([0, 0.5, 1, 1.5, 2, 3, 4.5, 6]), "cancel": True}]
    elif mode == "timeout":
        spec["timeout"] = rnd.choice([0.25, 0.5, 1, 1.5, 2, 3, 4, 6])
    elif mode == "racing_stop":
        steps["join"]["acts"] = [{"k": "sleep", "d": rnd.choice([0, 1])}, {"k": "ret", "type": "StopEvent", "result": "v"}]
        steps["join"]["nw"] = rnd.randint(2, 4)
        for nm in ("work1", "work2", "tap", "join"):
            if nm in steps and rnd.random() < 0.6:
                steps[nm]["stream_on_cancel"] = rnd.choice([True, True, 0.05, 0.2, 0.3])
    elif mode == "nonevent":
        steps["work2"]["acts"] = [{"k": "sleep", "d": {"from": "lat"}}, {"k": "ret", "type": rnd.choice(["nonevent", "nonevent_falsy"])}]
        steps["work2"]["declare"] = ["EvC"]
    elif mode == "hostile":
        kind = rnd.choice(HOSTILE)
        steps["work1"]["retry"] = {"hostile": kind, "n": rnd.randint(1, 3), "shape": rnd.choice(["class", "class", "dataclass", "namespace"])}
        for it in steps["start"]["acts"]:
            if it["k"] == "send" and it["type"] == "EvA":
                for x in it["items"]:
                    x["fails"] = rnd.choice([0, 1, 1, 2])
        spec["meta"]["hostile"] = kind
    elif mode == "bg_stream":
        steps["work2"]["acts"].insert(1, {"k": "stream"})
        steps["join"]["acts"].insert(0, {"k": "stream"})
        for nm in ("work1", "work2", "tap"):
            if nm in steps:
                steps[nm]["stream_on_cancel"] = rnd.choice([True, True, 0.05, 0.2, 0.3])
    elif mode == "fail":
        for it in steps["start"]["acts"]:
            if it["k"] == "send" and it["type"] == "EvA":
                it["items"][rnd.randrange(len(it["items"]))]["fails"] = 99
        for nm in ("work1", "work2", "tap"):
            if nm in steps and rnd.random() < 0.6:
                # siblings of the failing invocation report their own shutdown, some after a short async cleanup
                steps[nm]["stream_on_cancel"] = rnd.choice([True, 0.05, 0.2, 0.3])
    return spec


def gen_hitl_ret(rnd):
    """Steps *return* InputRequiredEvents (auto-published) and a responder sends HumanResponseEvents to an accepting step."""
    n = rnd.randint(1, 4)
    items = [{"lat": [rnd.choice([0, 1, 2])]} for _ in range(n)]
    steps = [
        {"name": "start", "in": ["Go"], "nw": 1, "acts": [{"k": "send", "type": "EvD", "items": items}, {"k": "ret", "type": None}], "declare": ["EvD"]},
        {"name": "ask", "in": ["EvD"], "nw": rnd.randint(1, 3), "acts": [{"k": "sleep", "d": {"from": "lat"}}, {"k": "ret", "type": "Ask"}]},
        {"name": "got", "in": ["Answer"], "nw": rnd.randint(1, 3), "acts": [{"k": "sleep", "d": rnd.choice([0, 1])}, {"k": "ret", "type": "EvC"}]},
        {"name": "join", "in": ["EvC"], "nw": 1, "acts": [{"k": "collect", "types": ["EvC"] * n}, {"k": "ret", "type": "StopEvent", "result": "collected"}]},
    ]
    replies = [{"delay": rnd.choice([0, 0.5, 1, 3]), "type": "Answer", "pay": {"key": "{v}"}}]
    audited = rnd.random() < 0.4
    if audited:
        # another step of the same workflow also accepts the human-input request (an audit / notification step)
        steps.insert(2, {"name": "audit", "in": ["Ask"], "nw": rnd.randint(1, 2), "acts": [{"k": "sleep", "d": rnd.choice([0, 0.5])}, {"k": "ret", "type": None}]})
    return {"family": "hitl_ret", "steps": steps, "timeout": None, "responders": [{"on": "Ask", "replies": replies}], "externals": [], "meta": {"n": n, "audited": audited}}


# ---------------------------------------------------------------- retry family (C05 / C06)
def _gen_stop(rnd, depth=2):
    if depth <= 0 or rnd.random() < 0.5:
        k = rnd.choice(["attempt", "attempt", "delay", "never"])
        if k == "attempt":
            return {"k": k, "n": rnd.choice([0, 1, 1, 2, 3, 4, 6])}
        if k == "delay":
            if rnd.random() < 0.15:
                # a limit of a day or more, spelled as a timedelta: never reached by these runs
                return {"k": k, "d": rnd.choice([86400, 172800, 90000.5]), "td": True}
            return {"k": k, "d": rnd.choice([0.37, 1.37, 2.63, 4.41, 7.77]), "td": rnd.random() < 0.2}
        return {"k": k}
    k = rnd.choice(["any", "all", "or", "and"])
    return {"k": k, "parts": [_gen_stop(rnd, depth - 1) for _ in range(2)]}


def _stop_bounded(ast):
    """does the stop AST guarantee termination of an always-failing step (given positive latencies)?"""
    k = ast["k"]
    if k == "attempt":
        return True
    if k == "delay":
        return ast["d"] < 1000
    if k == "never":
        return False
    vals = [_stop_bounded(p) for p in ast["parts"]]
    return any(vals) if k in ("any", "or") else all(vals)


def _gen_retry_cond(rnd, depth=2):
    if depth <= 0 or rnd.random() < 0.5:
        k = rnd.choice(["type", "not_type", "always", "never", "match", "always"])
        if k in ("type", "not_type"):
            return {"k": k, "types": rnd.sample(["E1", "E2", "E3", "ValueError"], rnd.randint(1, 2))}
        if k == "match":
            return {"k": k, "match": rnd.choice([r"\|0$", r"\|[01]$", r"work", r"\|2$"])}
        return {"k": k}
    k = rnd.choice(["any", "all", "or", "and"])
    return {"k": k, "parts": [_gen_retry_cond(rnd, depth - 1) for _ in range(2)]}


def gen_retry(rnd, *, waits="fixed"):
    """One failing step with a composed retry policy; optional catch_error handler to observe StepFailedEvent."""
    n_fail = rnd.choice([-1, -1, 1, 2, 3, 5])  # -1: always fails
    stop = _gen_stop(rnd)
    if n_fail < 0 and not _stop_bounded(stop):
        stop = {"k": "any", "parts": [stop, {"k": "attempt", "n": rnd.randint(2, 6)}]}
    retry = _gen_retry_cond(rnd) if rnd.random() < 0.6 else None
    if waits == "fixed":
        wait = {"k": "fixed", "w": rnd.choice([0, 0, 0.25, 1, 2])}
    else:
        wait = _gen_wait_det(rnd)
    excs = [rnd.choice(["E1", "E2", "E3", "ValueError"]) for _ in range(8)]
    lats = [rnd.choice([0.125, 0.5, 1, 1, 2]) for _ in range(8)]
    pol = {"retry": retry, "wait": wait, "stop": stop}
    if rnd.random() < 0.1 and waits == "fixed":
        pol = {"legacy": "constant", "n": rnd.randint(1, 4), "delay": rnd.choice([0, 0.5, 1])}
    steps = [
        {"name": "work", "in": ["Go"], "nw": 1, "retry": pol,
         "acts": [{"k": "sleep", "d": lats}, {"k": "fail", "n": n_fail, "exc": excs}, {"k": "ret", "type": "StopEvent", "result": "v"}]},
    ]
    if rnd.random() < 0.4:
        steps.append({"name": "on_fail", "handler": {"for": None, "max": 1}, "in": [],
                      "acts": [{"k": "ret", "type": "StopEvent", "result": "handled"}]})
    if rnd.random() < 0.4:
        # queue pressure: several items compete for 1-2 workers, so an item's first attempt starts later than its arrival
        k = rnd.randint(2, 3)
        steps[0]["in"] = ["EvA"]
        steps[0]["nw"] = rnd.choice([1, 1, 2])
        steps[0]["acts"][-1] = {"k": "ret", "type": "EvB"}
        steps.insert(0, {"name": "start", "in": ["Go"], "nw": 1, "acts": [{"k": "send", "type": "EvA", "items": [{} for _ in range(k)]}, {"k": "ret", "type": None}],
                         "declare": ["EvA"]})
        steps.append({"name": "sink", "in": ["EvB"], "nw": 1, "acts": [{"k": "collect", "types": ["EvB"] * k}, {"k": "ret", "type": "StopEvent", "result": "collected"}]})
        if rnd.random() < 0.5:
            # a sibling that accepts the same events and never fails: it runs exactly once per event, whatever `work` retries
            steps.append({"name": "observer", "in": ["EvA"], "nw": rnd.randint(1, 2), "acts": [{"k": "sleep", "d": rnd.choice([0, 0.5])}, {"k": "ret", "type": None}]})
    return {"family": "retry", "steps": steps, "timeout": None, "externals": [], "meta": {"n_fail": n_fail, "excs": excs, "lats": lats, "policy": pol}}


def _gen_wait_det(rnd, depth=1):
    """deterministic wait strategies (C06 exactness) incl. chain / combine"""
    if depth <= 0 or rnd.random() < 0.5:
        k = rnd.choice(["fixed", "exp", "inc", "exp"])
        td = rnd.random() < 0.25   # durations spelled as datetime.timedelta
        if k == "fixed":
            return {"k": k, "w": rnd.choice([0.25, 0.5, 1, 2, 3]), "td": td}
        if k == "exp":
            return {"k": k, "mult": rnd.choice([0.25, 0.5, 1, 2]), "base": rnd.choice([0.5, 1.5, 2, 3]), "max": rnd.choice([5, 8, 60, 7.5]), "min": rnd.choice([0, 0, 0.125]), "td": td}
        return {"k": k, "start": rnd.choice([0.25, 0.5, 1]), "inc": rnd.choice([0.25, 0.5, 1]), "max": rnd.choice([2, 4, 100]), "td": td}
    k = rnd.choice(["chain", "chain", "combine", "plus"])
    n = rnd.randint(2, 3)
    return {"k": k, "parts": [_gen_wait_det(rnd, depth - 1) for _ in range(n)]}


def gen_retry_waits(rnd):
    spec = gen_retry(rnd, waits="det")
    spec["family"] = "retry_waits"
    if rnd.random() < 0.05:
        # many retries of a slowly growing exponential strategy: "all retry counts" includes the far tail
        n = rnd.randint(70, 110)
        wait = {"k": "exp", "mult": rnd.choice([0.001, 0.01]), "base": rnd.choice([1.03, 1.06, 1.1]), "max": rnd.choice([5, 60]), "min": 0}
        if rnd.random() < 0.3:
            wait = {"k": "chain", "parts": [{"k": "fixed", "w": 0.25}, wait]}
        pol = {"retry": None, "wait": wait, "stop": {"k": "attempt", "n": n}}
        spec["steps"] = [{"name": "work", "in": ["Go"], "nw": 1, "retry": pol,
                          "acts": [{"k": "sleep", "d": 0.125}, {"k": "fail", "n": n - 1, "exc": "E1"}, {"k": "ret", "type": "StopEvent", "result": "v"}]}]
        spec["meta"] = {"n_fail": n - 1, "excs": ["E1"] * 8, "lats": [0.125] * 8, "policy": pol, "long_tail": True}
    queued = any(st["name"] == "start" for st in spec["steps"]) and rnd.random() < 0.5
    for st in spec["steps"]:
        if st["name"] == "work":
            if queued:
                # queueing kept: a retry that comes due while every worker is busy passes through the step's queue before it
                # starts; the gap is then only bounded from below by the documented delay (its retry count must survive the queue)
                st["nw"] = 1
                for s0 in spec["steps"]:
                    if s0["name"] == "start":
                        s0["acts"][0]["items"] = [{} for _ in range(rnd.randint(3, 4))]
                for s0 in spec["steps"]:
                    if s0["name"] == "sink":
                        s0["acts"][0]["types"] = ["EvB"] * len(next(x for x in spec["steps"] if x["name"] == "start")["acts"][0]["items"])
                spec["meta"]["queued"] = True
            else:
                st["nw"] = 4  # no queueing: the gap between a failure and its retry is then exactly the delay the engine applied
    return spec


# ---------------------------------------------------------------- catch_error family (C08)
def gen_catch(rnd):
    n = rnd.randint(1, 4)
    att1 = rnd.randint(1, 3)
    att2 = rnd.randint(1, 2)
    items = []
    for _ in range(n):
        items.append({"lat": [rnd.choice([0, 0.5, 1])], "fails": rnd.choice([0, 0, att1, att1, 1 if att1 > 1 else att1]), "fails2": rnd.choice([0, 0, att2])})
    layout = rnd.choice(["scoped", "scoped_both", "wildcard", "scoped+wildcard", "none", "none", "scoped+empty", "empty"])
    steps = [
        {"name": "start", "in": ["Go"], "nw": 1, "acts": [{"k": "send", "type": "EvA", "items": items}, {"k": "ret", "type": None}], "declare": ["EvA"]},
        {"name": "w1", "in": ["EvA"], "nw": rnd.randint(1, 3), "retry": {"wait": {"k": "fixed", "w": rnd.choice([0, 0.5])}, "stop": {"k": "attempt", "n": att1}},
         "acts": [{"k": "sleep", "d": {"from": "lat"}}, {"k": "fail", "n": {"from": "fails"}, "exc": "E1"}, {"k": "ret", "type": "EvB", "pay": {"fails": 0}}]},
        {"name": "w2", "in": ["EvB"], "nw": rnd.randint(1, 2), "retry": {"wait": {"k": "fixed", "w": 0}, "stop": {"k": "attempt", "n": att2}},
         "acts": [{"k": "sleep", "d": rnd.choice([0, 1])}, {"k": "fail", "n": {"from": "fails2"}, "exc": "E2"}, {"k": "ret", "type": "EvC"}]},
        {"name": "join", "in": ["EvC"], "nw": 1, "acts": [{"k": "collect", "types": ["EvC"] * n}, {"k": "ret", "type": "StopEvent", "result": "collected"}]},
    ]
    # w1's EvB must carry fails2 of its input: use pay from event via 'copy'
    steps[1]["acts"][2]["copy"] = ["fails2"]

    def handler(name, for_, mx):
        mode = rnd.choice(["again", "again", "stop", "raise", "skip", "again_send"])
        if mode == "again_send":
            # re-enter the lineage through ctx.send_event (and return None) instead of through the returned event
            acts = [{"k": "send", "type": "EvA", "items": [{"lat": [0], "fails": rnd.choice([0, att1]), "fails2": rnd.choice([0, att2])}]}, {"k": "ret", "type": None}]
        elif mode == "again":
            # re-enter the lineage: emit a fresh EvA that may fail again (fails decided by payload)
            acts = [{"k": "ret", "type": "EvA", "pay": {"lat": [0], "fails": rnd.choice([0, att1]), "fails2": rnd.choice([0, att2])}}]
        elif mode == "stop":
            acts = [{"k": "ret", "type": "StopEvent", "result": "handled"}]
        elif mode == "raise":
            acts = [{"k": "fail", "n": -1, "exc": "E3"}]
        else:
            acts = [{"k": "ret", "type": "EvC"}]
        return {"name": name, "handler": {"for": for_, "max": mx}, "in": [], "acts": acts, "meta_mode": mode}

    if layout == "scoped":
        steps.append(handler("h1", ["w1"], rnd.randint(1, 3)))
    elif layout == "scoped_both":
        steps.append(handler("h1", ["w1"], rnd.randint(1, 2)))
        steps.append(handler("h2", ["w2"], rnd.randint(1, 2)))
    elif layout == "wildcard":
        steps.append(handler("hw", None, rnd.randint(1, 3)))
    elif layout == "scoped+wildcard":
        steps.append(handler("h1", [rnd.choice(["w1", "w2"])], rnd.randint(1, 2)))
        steps.append(handler("hw", None, rnd.randint(1, 2)))
    elif layout == "scoped+empty":
        # a handler whose scope list is legal but EMPTY (e.g. computed from configuration): it lists no step and is no wildcard
        steps.append(handler("h1", [rnd.choice(["w1", "w2"])], rnd.randint(1, 2)))
        steps.append(handler("he", [], rnd.randint(1, 2)))
    elif layout == "empty":
        steps.append(handler("he", [], rnd.randint(1, 2)))
    if rnd.random() < 0.25:
        # assemble part of the workflow after the instance exists (Workflow.add_step): a handler, or the step a wildcard handler owns
        cands = [s_ for s_ in steps if s_.get("handler") is not None] + [s_ for s_ in steps if s_["name"] == "w2"]
        if cands:
            rnd.choice(cands)["late"] = True
    return {"family": "catch", "steps": steps, "timeout": None, "externals": [], "meta": {"layout": layout, "n": n, "late": any(s_.get("late") for s_ in steps)}}


# ---------------------------------------------------------------- collect family (C09)
def gen_collect(rnd):
    shape = rnd.choice([["EvA", "EvB"], ["EvA", "EvB"], ["EvA", "EvA", "EvB"], ["EvA", "EvB", "EvC"], ["EvA", "EvB", "EvB"]])
    rounds = rnd.randint(1, 3)
    groups = rnd.choice([1, 1, 2])
    evs = []
    for g in range(groups):
        for _ in range(rounds):
            for t in shape:
                evs.append((t, g))
    rnd.shuffle(evs)
    nw = rnd.randint(1, 4)
    lats = [0, 0, 0.5, 1, 1, 2] if rnd.random() < 0.5 else [0, 1]
    sends = []
    for t, g in evs:
        sends.append({"k": "send", "type": t, "items": [{"g": g, "lat": [rnd.choice(lats)], "lat2": [rnd.choice(lats)]}], "gap": rnd.choice([None, None, 0, 0.5, 1])})
    steps = [
        {"name": "start", "in": ["Go"], "nw": 1, "acts": sends + [{"k": "ret", "type": None}], "declare": sorted(set(shape))},
        {"name": "gather", "in": sorted(set(shape)), "nw": nw,
         "acts": [{"k": "sleep", "d": {"from": "lat"}}, {"k": "collect", "types": shape, "buf_from": "g"}, {"k": "sleep", "d": {"from": "lat2"}},
                  {"k": "ret", "type": "EvF"}]},
        {"name": "sink", "in": ["EvF"], "nw": 1, "acts": [{"k": "collect", "types": ["EvF"] * (rounds * groups)}, {"k": "ret", "type": "StopEvent", "result": "collected"}]},
    ]
    forward = rnd.random() < 0.3
    if forward:
        # the collecting step hands the result on with ctx.send_event and returns None (the other documented style), round after round
        steps[1]["acts"][-1:] = [{"k": "send", "type": "EvF", "items": [{}]}, {"k": "ret", "type": None}]
        steps[1]["declare"] = ["EvF"]
    flaky = rnd.random() < 0.25
    if flaky:
        # the collecting step fails once right after collect_events handed it a full set and is retried: the retry must get that set again
        steps[1]["retry"] = {"wait": {"k": "fixed", "w": rnd.choice([0, 0.5])}, "stop": {"k": "attempt", "n": 2}}
        steps[1]["acts"].insert(2, {"k": "fail", "n": 1, "exc": "E1"})
    return {"family": "collect", "steps": steps, "timeout": 60.0, "externals": [], "meta": {"shape": shape, "rounds": rounds, "groups": groups, "nw": nw, "n_events": len(evs), "flaky_after_collect": flaky, "forward_by_send": forward}}


# ---------------------------------------------------------------- deterministic, idempotent family (C12 / C13 / C31)
def gen_det(rnd, *, handler=None, waits=False):
    """Steps communicate only through returned events (atomic with completion) and idempotent state writes, so that
    re-executing any not-yet-completed invocation cannot change the final result / state."""
    m = rnd.randint(2, 3)
    steps = [{"name": "start", "in": ["Go"], "nw": 1,
              "acts": [{"k": "sleep", "d": rnd.choice([0, 0.5, 1])}, {"k": "state", "op": "set", "key": "started"}, {"k": "ret", "type": "EvA"}]}]
    handler = (rnd.random() < 0.35) if handler is None else handler
    for i in range(m):
        fails = rnd.choice([0, 0, 1, 2])
        always = handler and i == m - 1
        att = (fails + 1) if not always else rnd.randint(1, 3)
        pol = {"wait": {"k": "fixed", "w": rnd.choice([0, 0.5, 1])}, "stop": {"k": "attempt", "n": att}} if (fails or always) else None
        steps.append({"name": f"a{i}", "in": ["EvA"], "nw": rnd.randint(1, 2), "retry": pol,
                      "acts": [{"k": "sleep", "d": [rnd.choice([0, 0.5, 1, 2]) for _ in range(att)]},
                               {"k": "fail", "n": (-1 if always else fails), "exc": "E1"},
                               {"k": "state", "op": "set", "key": f"a{i}"}, {"k": "ret", "type": "EvB", "pay": {"src": f"a{i}"}}]})
    if handler:
        steps.append({"name": "h", "handler": {"for": [f"a{m - 1}"], "max": rnd.randint(1, 2)}, "in": [],
                      "acts": [{"k": "sleep", "d": rnd.choice([0, 1])}, {"k": "state", "op": "set", "key": "recovered"}, {"k": "ret", "type": "EvB", "pay": {"src": "h"}}]})
    steps.append({"name": "join", "in": ["EvB"], "nw": rnd.randint(1, 2),
                  "acts": [{"k": "sleep", "d": rnd.choice([0, 0.5])}, {"k": "collect", "types": ["EvB"] * m}, {"k": "state", "op": "set", "key": "joined", "val": "done"},
                           {"k": "ret", "type": "EvC", "v_const": "joined"}]})
    steps.append({"name": "fin", "in": ["EvC"], "nw": 1, "acts": [{"k": "sleep", "d": rnd.choice([0, 1, 2])}, {"k": "ret", "type": "StopEvent", "result": "const"}]})
    return {"family": "det", "steps": steps, "timeout": None, "externals": [], "meta": {"m": m, "handler": handler}}


def gen_detfan(rnd):
    """deterministic fan-out: k producer steps each RETURN one distinct item (emission is atomic with the producer's completion, so
    re-executing an unfinished producer cannot duplicate it) into one multi-worker step `work`: several invocations of the same
    step are in flight at a pause and finish out of slot order; each leaves an idempotent per-item mark in the state store.  The
    result is the SET of collected items, the same under any schedule -- unless an item is lost or handled twice across a pause."""
    k = rnd.randint(3, 5)
    nw = rnd.randint(2, 3)
    lats = rnd.sample([0.5, 1, 1.5, 2, 2.5, 3, 3.5, 4], k)
    steps = [{"name": "start", "in": ["Go"], "nw": 1, "acts": [{"k": "ret", "type": "EvA"}]}]
    for i in range(k):
        steps.append({"name": f"p{i}", "in": ["EvA"], "nw": 1,
                      "acts": [{"k": "sleep", "d": rnd.choice([0, 0, 0.25])}, {"k": "ret", "type": "EvB", "pay": {"i": i, "lat": [lats[i]]}}]})
    steps += [
        {"name": "work", "in": ["EvB"], "nw": nw,
         "acts": [{"k": "sleep", "d": {"from": "lat"}}, {"k": "state", "op": "set", "key": "item_{i}", "val": "done"}, {"k": "ret", "type": "EvC", "copy": ["i"]}]},
        {"name": "join", "in": ["EvC"], "nw": 1, "acts": [{"k": "collect", "types": ["EvC"] * k}, {"k": "ret", "type": "StopEvent", "result": "collected_set"}]},
    ]
    return {"family": "det", "steps": steps, "timeout": None, "externals": [], "meta": {"k": k, "nw": nw, "lats": lats, "fanout": True}}


def gen_detwait(rnd):
    """deterministic human-in-the-loop run: one step waits for an answer whose requirements carry the item's key and (often) a value
    that is not plain JSON (a UUID).  The answer is given once, 1 s after the question was published -- or, when the run was paused
    while waiting, 1 s after the resume (the check sends it): the result must be the same either way."""
    opaque = rnd.random() < 0.6
    req = {"key": "{v}"}
    if opaque:
        req["tok"] = {"$uuid": 7}
    wait = {"k": "wait", "type": "Answer", "req": req, "wid": "w-{uid}", "ask": "Ask"}
    steps = [
        {"name": "start", "in": ["Go"], "nw": 1, "acts": [{"k": "sleep", "d": rnd.choice([0, 0.5])}, {"k": "ret", "type": "EvA"}]},
        {"name": "ask", "in": ["EvA"], "nw": 1, "acts": [{"k": "sleep", "d": rnd.choice([0, 0.5])}, wait, {"k": "state", "op": "set", "key": "answered", "val": "yes"}, {"k": "ret", "type": "EvB", "v_const": "answered"}]},
        {"name": "fin", "in": ["EvB"], "nw": 1, "acts": [{"k": "sleep", "d": rnd.choice([0, 1])}, {"k": "ret", "type": "StopEvent", "result": "const"}]},
    ]
    pay = {"key": "{v}"}
    if opaque:
        pay["tok"] = {"$uuid": 7}
    return {"family": "det", "steps": steps, "timeout": None, "externals": [], "responders": [{"on": "Ask", "replies": [{"delay": 1.0, "type": "Answer", "pay": pay}]}],
            "meta": {"hitl": True, "opaque_req": opaque, "answer_on_resume": True}}


def gen_detsend(rnd):
    """like detfan, but the fan-out is done the usual way: ONE step calls ctx.send_event k times and returns.  Re-executing that step
    would send everything again (at-least-once), so only pauses taken AFTER it completed are decided (the check skips the others):
    from then on every sent event has been accepted by the run and must be in whatever ctx.to_dict() returns."""
    k = rnd.randint(3, 5)
    nw = rnd.randint(1, 3)
    lats = rnd.sample([0.5, 1, 1.5, 2, 2.5, 3, 3.5, 4], k)
    steps = [
        {"name": "start", "in": ["Go"], "nw": 1, "acts": [{"k": "send", "type": "EvB", "items": [{"i": i, "lat": [lats[i]]} for i in range(k)]}, {"k": "ret", "type": None}],
         "declare": ["EvB"]},
        {"name": "work", "in": ["EvB"], "nw": nw,
         "acts": [{"k": "sleep", "d": {"from": "lat"}}, {"k": "state", "op": "set", "key": "item_{i}", "val": "done"}, {"k": "ret", "type": "EvC", "copy": ["i"]}]},
        {"name": "join", "in": ["EvC"], "nw": 1, "acts": [{"k": "collect", "types": ["EvC"] * k}, {"k": "ret", "type": "StopEvent", "result": "collected_set"}]},
    ]
    return {"family": "det", "steps": steps, "timeout": None, "externals": [], "meta": {"k": k, "nw": nw, "lats": lats, "fanout": True, "sender": "start"}}


def gen_detq(rnd):
    """det family with queue pressure: m producers feed one single-worker step `w` (slow, failing, retried, recovered by a
    handler that sends the lineage through `w` again), so pauses find queued entries carrying retry counts and recovery budgets.
    Every lineage eventually succeeds, so the outcome does not depend on the order in which `w` serves its queue."""
    m = rnd.randint(3, 4)
    att = rnd.randint(1, 2)
    steps = [{"name": "start", "in": ["Go"], "nw": 1, "acts": [{"k": "sleep", "d": rnd.choice([0, 0.5])}, {"k": "ret", "type": "EvA"}]}]
    for i in range(m):
        steps.append({"name": f"a{i}", "in": ["EvA"], "nw": 1,
                      "acts": [{"k": "sleep", "d": rnd.choice([0, 0, 0.5])}, {"k": "ret", "type": "EvB", "pay": {"src": f"a{i}", "fails": rnd.choice([0, 1, att, att])}}]})
    steps.append({"name": "w", "in": ["EvB"], "nw": 1, "retry": {"wait": {"k": "fixed", "w": rnd.choice([0, 0, 0.5])}, "stop": {"k": "attempt", "n": att}},
                  "acts": [{"k": "sleep", "d": rnd.choice([0.5, 1])}, {"k": "fail", "n": {"from": "fails"}, "exc": "E1"}, {"k": "state", "op": "set", "key": "w", "val": "served"},
                           {"k": "ret", "type": "EvC"}]})
    steps.append({"name": "h", "handler": {"for": ["w"], "max": 2}, "in": [],
                  "acts": [{"k": "sleep", "d": rnd.choice([0, 0.5])}, {"k": "state", "op": "set", "key": "recovered", "val": "yes"}, {"k": "ret", "type": "EvB", "pay": {"src": "h", "fails": 0}}]})
    steps.append({"name": "join", "in": ["EvC"], "nw": 1,
                  "acts": [{"k": "collect", "types": ["EvC"] * m}, {"k": "state", "op": "set", "key": "joined", "val": "done"}, {"k": "ret", "type": "EvD", "v_const": "joined"}]})
    steps.append({"name": "fin", "in": ["EvD"], "nw": 1, "acts": [{"k": "ret", "type": "StopEvent", "result": "const"}]})
    plain = rnd.random() < 0.3
    if plain:
        # the producers hand `w` byte-identical events and `w` works on several of them at once: invocations in flight on EQUAL events
        for st in steps:
            if st["name"].startswith("a"):
                st["acts"][-1]["pay"] = {"_plain": True, "fails": 0}
            if st["name"] == "w":
                st["nw"] = rnd.randint(2, 3)
    return {"family": "det", "steps": steps, "timeout": None, "externals": [], "meta": {"m": m, "handler": True, "queue_pressure": True, "equal_events": plain}}


def gen_busy(rnd):
    """A finisher step returns the StopEvent at d1 while sibling steps do blocking work (virtual time passes, the loop gets no
    control) across a deadline placed inside the blocked stretch: decides 'a run that finishes first is never timed out' when
    the control loop only regains control after the deadline."""
    d1 = rnd.choice([0.3, 0.5, 1.0])
    b = rnd.choice([0.5, 1.0, 2.0])
    ncr = rnd.randint(1, 3)
    items_c = [{"lat": [d1 + rnd.choice([0, 0, 0, 0, 0.01])]} for _ in range(ncr)]  # same instant as the finisher: both callbacks run in one loop iteration
    steps = [
        {"name": "start", "in": ["Go"], "nw": 1, "acts": [{"k": "send", "type": "EvA", "items": [{}]}, {"k": "send", "type": "EvB", "items": items_c}, {"k": "ret", "type": None}],
         "declare": ["EvA", "EvB"]},
        {"name": "finisher", "in": ["EvA"], "nw": 1, "acts": [{"k": "sleep", "d": d1}, {"k": "ret", "type": "StopEvent", "result": "const"}]},
        {"name": "cruncher", "in": ["EvB"], "nw": rnd.randint(1, 3), "acts": [{"k": "sleep", "d": {"from": "lat"}}, {"k": "burn", "d": b}, {"k": "ret", "type": None}]},
    ]
    if rnd.random() < 0.5:
        steps[0]["acts"][0], steps[0]["acts"][1] = steps[0]["acts"][1], steps[0]["acts"][0]
    return {"family": "busy", "steps": steps, "timeout": None, "externals": [], "meta": {"d1": d1, "burn": b, "deadlines": [round(d1 + b * f, 4) for f in (0.25, 0.5, 0.9)]}}



def gen_spin(rnd):
    """Steps that never really await: each invocation does blocking work (virtual time passes inside the body) and returns; the
    next invocation is ready the moment the previous one ends (a chain of steps, or a queue of items behind one worker).  The
    control loop always finds a completed worker when it looks, so its wait never times out on its own: scheduled ticks
    (workflow timeout) have to be noticed some other way."""
    b = rnd.choice([0.2, 0.3, 0.5])
    shape = rnd.choice(["chain", "queue", "queue"])
    if shape == "chain":
        n = rnd.randint(4, 6)
        types = ["EvA", "EvB", "EvC", "EvD", "EvE", "EvF"][:n]
        steps = [{"name": "start", "in": ["Go"], "nw": 1, "acts": [{"k": "ret", "type": types[0]}]}]
        for i, t in enumerate(types):
            nxt = {"k": "ret", "type": types[i + 1]} if i + 1 < n else {"k": "ret", "type": "StopEvent", "result": "const"}
            steps.append({"name": f"s{i}", "in": [t], "nw": 1, "acts": [{"k": "burn", "d": b}, nxt]})
        total = n * b
    else:
        nw = rnd.choice([1, 2, 2, 3])
        k = rnd.randint(4, 8) * nw
        steps = [
            {"name": "start", "in": ["Go"], "nw": 1, "acts": [{"k": "send", "type": "EvA", "items": [{} for _ in range(k)]}, {"k": "ret", "type": None}], "declare": ["EvA"]},
            {"name": "work", "in": ["EvA"], "nw": nw, "acts": [{"k": "burn", "d": b}, {"k": "ret", "type": "EvC"}]},
            {"name": "join", "in": ["EvC"], "nw": 1, "acts": [{"k": "collect", "types": ["EvC"] * k}, {"k": "ret", "type": "StopEvent", "result": "const"}]},
        ]
        total = k * b   # (parallel workers burn one after the other on the single loop thread: virtual time adds up)
    deadlines = sorted({round(total * f + 0.013, 4) for f in (0.15, 0.4, 0.7)})
    return {"family": "spin", "steps": steps, "timeout": None, "externals": [], "meta": {"burn": b, "shape": shape, "total": total, "deadlines": deadlines}}


def gen_syncfan(rnd):
    """Plain `def` steps (the engine runs them in the default thread pool): a fan-out of k items into a SYNCHRONOUS multi-worker
    step whose invocations really run in parallel threads (real-time jitter), optionally failing and retried, joined by a
    (sync or async) collector.  Sync bodies take no virtual time."""
    k = rnd.randint(2, 7)
    nw = rnd.randint(1, 4)
    n_att = rnd.randint(2, 4)
    retry = None
    fails = [0] * k
    if rnd.random() < 0.5:
        retry = {"retry": None, "wait": {"k": "fixed", "w": rnd.choice([0, 0, 0.25])}, "stop": {"k": "attempt", "n": n_att}}
        fails = [rnd.choice([0, 0, 1, n_att - 1]) for _ in range(k)]
    steps = [
        {"name": "start", "in": ["Go"], "nw": 1, "acts": [{"k": "send", "type": "EvA", "items": [{"fails": f} for f in fails]}, {"k": "ret", "type": None}], "declare": ["EvA"]},
        {"name": "work", "in": ["EvA"], "nw": nw, "sync": True, "retry": retry,
         "acts": [{"k": "rsleep"}, {"k": "fail", "n": {"from": "fails"}, "exc": "E1"}, {"k": "rsleep"}, {"k": "ret", "type": "EvC"}]},
        {"name": "join", "in": ["EvC"], "nw": 1, "sync": rnd.random() < 0.5,
         "acts": [{"k": "collect", "types": ["EvC"] * k}, {"k": "ret", "type": "StopEvent", "result": "collected"}]},
    ]
    if rnd.random() < 0.4:
        steps.append({"name": "observer", "in": ["EvA"], "nw": rnd.randint(1, 3), "sync": True, "acts": [{"k": "rsleep"}, {"k": "ret", "type": None}]})
    if rnd.random() < 0.5:
        steps[0]["sync"] = True   # the fan-out itself is done by a synchronous step: ctx.send_event called from the executor thread
    return {"family": "syncfan", "steps": steps, "timeout": None, "externals": [],
            "meta": {"k": k, "nw": nw, "sync_steps": True, "n_fail": max(fails), "policy": retry}}


def gen_dupfan(rnd):
    """fan-out of byte-identical events into a single-worker step (adjacent identical ticks in the persisted log), fan-in by count.
    The result is a constant, so re-sent duplicates after a resume cannot change it."""
    n = rnd.randint(2, 4)
    items = [{"_plain": True, "lat": [rnd.choice([0.5, 1])]} for _ in range(n)]
    lat = items[0]["lat"]
    for it in items:
        it["lat"] = lat
    steps = [
        {"name": "start", "in": ["Go"], "nw": 1, "acts": [{"k": "send", "type": "EvA", "items": items}, {"k": "ret", "type": None}], "declare": ["EvA"]},
        {"name": "w", "in": ["EvA"], "nw": rnd.choice([1, 1, 2]), "acts": [{"k": "sleep", "d": {"from": "lat"}}, {"k": "ret", "type": "EvC"}]},
        {"name": "join", "in": ["EvC"], "nw": 1, "acts": [{"k": "collect", "types": ["EvC"] * n}, {"k": "ret", "type": "EvD", "v_const": "joined"}]},
        {"name": "fin", "in": ["EvD"], "nw": 1, "acts": [{"k": "ret", "type": "StopEvent", "result": "const"}]},
    ]
    return {"family": "det", "steps": steps, "timeout": None, "externals": [], "meta": {"n": n, "identical_events": True}}


def gen_busyretry(rnd):
    """A delayed retry comes due while a sibling step blocks the event loop (vclock.burn): when the control loop regains control
    the wakeup is already overdue and a worker completion is waiting at the same time."""
    w = rnd.choice([0.3, 0.5, 1.0])
    b = rnd.choice([0.2, 0.5])
    lead = rnd.choice([0.05, 0.1])
    n_cr = rnd.randint(1, 2)
    if rnd.random() < 0.2:
        # the failure happens AROUND the step body: the step's injected resource cannot be built the first time(s), with the kind of
        # message a closed executor / loop produces.  It is a step failure like any other: retried under the policy, the slot handed on
        k = rnd.randint(2, 4)
        msg = rnd.choice(["cannot schedule new futures after shutdown", "Event loop is closed", "resource backend unavailable"])
        steps = [
            {"name": "start", "in": ["Go"], "nw": 1, "acts": [{"k": "send", "type": "EvB", "items": [{} for _ in range(k)]}, {"k": "ret", "type": None}], "declare": ["EvB"]},
            {"name": "cruncher", "in": ["EvB"], "nw": 1, "retry": {"wait": {"k": "fixed", "w": rnd.choice([0, 0.1])}, "stop": {"k": "attempt", "n": 3}},
             "res": {"kind": rnd.choice(["sync", "async"]), "delay": 0.1, "raise_first": rnd.randint(1, 2), "msg": msg, "cache": True},
             "acts": [{"k": "sleep", "d": 0.2}, {"k": "ret", "type": "EvC"}]},
            {"name": "join", "in": ["EvC"], "nw": 1, "acts": [{"k": "collect", "types": ["EvC"] * k}, {"k": "ret", "type": "StopEvent", "result": "const"}]},
        ]
        return {"family": "busyretry", "steps": steps, "timeout": None, "externals": [], "meta": {"resource_failure": True, "k": k, "msg": msg}}
    if rnd.random() < 0.25:
        # several PARALLEL self-feeding chains of non-yielding steps (each hop returns the next event of its chain): every time the
        # control loop looks, more than one finished worker is waiting, and it takes them one per pass
        nch = rnd.randint(2, 3)
        hops = rnd.randint(8, 12)
        steps = [
            {"name": "start", "in": ["Go"], "nw": 1, "acts": [{"k": "send", "type": "EvA", "items": [{"fails": 1}]},
                                                             {"k": "send", "type": "EvB", "items": [{"left": hops, "chain": c_} for c_ in range(nch)]}, {"k": "ret", "type": None}],
             "declare": ["EvA", "EvB"]},
            {"name": "flaky", "in": ["EvA"], "nw": 1, "retry": {"wait": {"k": "fixed", "w": w}, "stop": {"k": "attempt", "n": 3}},
             "acts": [{"k": "fail", "n": {"from": "fails"}, "exc": "E1"}, {"k": "ret", "type": "EvC"}]},
            {"name": "cruncher", "in": ["EvB"], "nw": nch, "acts": [{"k": "burn", "d": b}, {"k": "hop", "type": "EvB", "done": "EvD"}]},
            {"name": "sink", "in": ["EvD"], "nw": 1, "acts": [{"k": "collect", "types": ["EvD"] * nch}, {"k": "ret", "type": "EvE"}]},
            {"name": "join", "in": ["EvC", "EvE"], "nw": 1, "acts": [{"k": "collect", "types": ["EvC", "EvE"]}, {"k": "ret", "type": "StopEvent", "result": "const"}]},
        ]
        return {"family": "busyretry", "steps": steps, "timeout": None, "externals": [], "meta": {"retry_wait": w, "burn": b, "spin": True, "k": nch * hops, "nw": nch, "chains": nch}}
    if rnd.random() < 0.35:
        # the siblings never await at all: a queue of blocking invocations behind one worker, each ready the moment the previous one
        # ends, so the control loop finds a finished worker every time it looks; the retry comes due in the middle of that stretch
        nwc = rnd.choice([1, 2, 2, 3])      # several streams of non-yielding work: more than one finished worker is waiting every time
        k = rnd.randint(7, 10) * nwc
        steps = [
            {"name": "start", "in": ["Go"], "nw": 1, "acts": [{"k": "send", "type": "EvA", "items": [{"fails": 1}]},
                                                             {"k": "send", "type": "EvB", "items": [{} for _ in range(k)]}, {"k": "ret", "type": None}],
             "declare": ["EvA", "EvB"]},
            {"name": "flaky", "in": ["EvA"], "nw": 1, "retry": {"wait": {"k": "fixed", "w": w}, "stop": {"k": "attempt", "n": 3}},
             "acts": [{"k": "fail", "n": {"from": "fails"}, "exc": "E1"}, {"k": "ret", "type": "EvC"}]},
            {"name": "cruncher", "in": ["EvB"], "nw": nwc, "acts": [{"k": "burn", "d": b}, {"k": "ret", "type": None}]},
            {"name": "join", "in": ["EvC"], "nw": 1, "acts": [{"k": "ret", "type": "StopEvent", "result": "const"}]},
        ]
        return {"family": "busyretry", "steps": steps, "timeout": None, "externals": [], "meta": {"retry_wait": w, "burn": b, "spin": True, "k": k, "nw": nwc}}
    steps = [
        {"name": "start", "in": ["Go"], "nw": 1, "acts": [{"k": "send", "type": "EvA", "items": [{"fails": 1}]},
                                                         {"k": "send", "type": "EvB", "items": [{"lat": [0.1 + w - lead]} for _ in range(n_cr)]}, {"k": "ret", "type": None}],
         "declare": ["EvA", "EvB"]},
        {"name": "flaky", "in": ["EvA"], "nw": 1, "retry": {"wait": {"k": "fixed", "w": w}, "stop": {"k": "attempt", "n": 3}},
         "acts": [{"k": "sleep", "d": [0.1, 0]}, {"k": "fail", "n": {"from": "fails"}, "exc": "E1"}, {"k": "ret", "type": "EvC"}]},
        {"name": "cruncher", "in": ["EvB"], "nw": 2, "acts": [{"k": "sleep", "d": {"from": "lat"}}, {"k": "burn", "d": lead + b}, {"k": "ret", "type": None}]},
        {"name": "join", "in": ["EvC"], "nw": 1, "acts": [{"k": "ret", "type": "StopEvent", "result": "const"}]},
    ]
    return {"family": "busyretry", "steps": steps, "timeout": None, "externals": [], "meta": {"retry_wait": w, "burn": lead + b, "retry_due": 0.1 + w}}


def gen_equalfan(rnd):
    """fan-out of EQUAL events (same type and field values) into a multi-worker step whose invocations finish out of slot order
    (latency chosen by entry order, not by payload), followed by more work for that step: slot bookkeeping cannot lean on
    event identity."""
    k = rnd.randint(3, 6)
    nw = rnd.randint(2, 4)
    lats = [rnd.choice([0.5, 1, 1.5, 2, 3]) for _ in range(k)]
    if lats[0] <= min(lats[1:nw] or [lats[0]]):
        lats[0] = max(lats) + 1  # slot 0 outlives a higher slot
    items = [{"_plain": True} for _ in range(k)]
    steps = [
        {"name": "start", "in": ["Go"], "nw": 1, "acts": [{"k": "send", "type": "EvA", "items": items, "gap": rnd.choice([None, None, 0.25])}, {"k": "ret", "type": None}],
         "declare": ["EvA"]},
        {"name": "work", "in": ["EvA"], "nw": nw, "acts": [{"k": "sleep", "d": {"nth": lats, "step": "work"}}, {"k": "stream"}, {"k": "ret", "type": "EvC"}]},
        {"name": "join", "in": ["EvC"], "nw": 1, "acts": [{"k": "collect", "types": ["EvC"] * k}, {"k": "ret", "type": "StopEvent", "result": "const"}]},
    ]
    return {"family": "equalfan", "steps": steps, "timeout": None, "externals": [], "meta": {"k": k, "nw": nw, "lats": lats}}


def gen_waitsink(rnd):
    """A sink step handles one item at a time: waits for the human's answer under ONE waiter id reused by every invocation (or the
    engine-derived default without requirements in the id), records it and returns None.  Invocations do not overlap (items are
    spaced wider than the answers take), so each invocation must wait for, and get, its own answer."""
    n = rnd.randint(2, 4)
    gap = 4
    use_default = rnd.random() < 0.4
    wait = {"k": "wait", "type": "Answer", "req": {"key": "{v}"}, "wid": "w-{uid}", "ask": "Ask"}
    if use_default:
        wait["req"] = {}
        wait["wid"] = None          # engine-derived id: identical for every invocation when there are no requirements
    else:
        wait["engine_wid"] = "w-shared"
    steps = [
        {"name": "start", "in": ["Go"], "nw": 1, "acts": [{"k": "send", "type": "EvD", "items": [{"lat": [0]} for _ in range(n)], "gap": gap}, {"k": "ret", "type": None}],
         "declare": ["EvD", "EvU"]},
        {"name": "ask", "in": ["EvD"], "nw": rnd.choice([1, 2]), "acts": [{"k": "sleep", "d": {"from": "lat"}}, wait, {"k": "state", "op": "append", "key": "seen"}, {"k": "ret", "type": None}]},
        {"name": "closer", "in": ["EvU"], "nw": 1, "acts": [{"k": "ret", "type": "StopEvent", "result": "const"}]},
    ]
    replies = [{"delay": rnd.choice([0.5, 1, 2]), "type": "Answer", "pay": {"key": "{v}"}}]
    spec = {"family": "waitsink", "steps": steps, "timeout": None, "responders": [{"on": "Ask", "replies": replies}],
            "externals": [{"at": gap * n + 5, "type": "EvU", "pay": {}}], "meta": {"n": n, "style": "once", "timeout": None, "req": not use_default, "may_wait_forever": False}}
    return spec


def gen_collect2(rnd):
    """collect family where every invocation of the collecting step feeds TWO buffers (the same events gathered twice,
    independently).  Used for the slot / concurrency monitors only (C01); the per-buffer collect oracle does not apply."""
    spec = gen_collect(rnd)
    acts = spec["steps"][1]["acts"]
    i = next(k for k, a in enumerate(acts) if a["k"] == "collect")
    c = acts[i]
    acts[i:i + 1] = [dict(c, buf_from=None, buf="x", cont=True), dict(c, buf_from=None, buf="y")]
    spec["family"] = "collect2"
    spec["timeout"] = 60.0
    return spec

