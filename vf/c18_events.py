"""C18 helper: the fixed universe of module-level event / model / exception classes.

Module-level so that `module.ClassName` qualified-name lookup (JsonSerializer,
EventEnvelope, _deserialize_exception, SerializableEventType) can import them.
Imported only inside worker processes (needs the repo on sys.path).
"""
from __future__ import annotations

from datetime import datetime
from enum import Enum
from typing import Any, Literal, Optional

from pydantic import BaseModel, Field
from workflows.events import (
    Event,
    HumanResponseEvent,
    InputRequiredEvent,
    StartEvent,
    StopEvent,
)


# ----------------------------------------------------------------- nested models
class Color(Enum):
    RED = "red"
    GREEN = "green"
    BLUE = 3


class Inner(BaseModel):
    x: int
    label: str = ""
    tags: list[str] = Field(default_factory=list)


class Deep(BaseModel):
    inner: Inner
    maybe: Optional[Inner] = None
    many: list[Inner] = Field(default_factory=list)
    by_key: dict[str, Inner] = Field(default_factory=dict)


# ----------------------------------------------------------------- events
class Plain(Event):
    """No typed fields: only dynamic fields."""


class Typed(Event):
    i: int
    f: float
    s: str
    b: bool = False
    opt: Optional[str] = None
    optd: Optional[str] = "dflt"  # nullable with a non-None default: an explicit None must survive
    nums: list[int] = Field(default_factory=list)
    mapping: dict[str, float] = Field(default_factory=dict)


class SubTyped(Typed):
    extra: list[str] = Field(default_factory=list)


class Nested(Event):
    inner: Inner
    deep: Optional[Deep] = None
    inners: list[Inner] = Field(default_factory=list)


class Rich(Event):
    color: Color = Color.RED
    when: Optional[datetime] = None
    mode: Literal["fast", "slow"] = "fast"
    pair: tuple[int, str] = (0, "")
    anyv: Any = None
    int_keys: dict[int, str] = Field(default_factory=dict)


class MyStart(StartEvent):
    topic: str
    limit: int = 3


class MyStop(StopEvent):
    answer: str
    score: float = 0.0


class ModelStop(StopEvent):
    payload: Inner
    notes: list[str] = Field(default_factory=list)


class OverrideStop(StopEvent):
    """Custom stop event whose result is computed from a typed field."""

    value: int = 0

    def _get_result(self) -> Any:
        return {"value": self.value}


class MyInput(InputRequiredEvent):
    prompt: str = ""


class MyHuman(HumanResponseEvent):
    response: str = ""


class Carrier(Event):
    """Typed fields whose names coincide with the envelope / tag keys."""

    value: str = ""
    type: str = ""
    qualified_name: str = ""


EVENT_CLASSES = {c.__name__: c for c in [
    Plain, Typed, SubTyped, Nested, Rich, MyStart, MyStop, ModelStop, OverrideStop, MyInput, MyHuman, Carrier,
]}


# ----------------------------------------------------------------- exceptions
class OneStr(Exception):
    """constructible from one str"""


class SubOneStr(OneStr):
    pass


class TwoArg(Exception):
    def __init__(self, code: int, message: str) -> None:
        super().__init__(code, message)
        self.code = code
        self.message = message

    def __str__(self) -> str:
        return f"[{self.code}] {self.message}"


class KwOnly(Exception):
    def __init__(self, message: str, *, status: int) -> None:
        super().__init__(message)
        self.status = status


class NoArg(Exception):
    def __init__(self) -> None:
        super().__init__("fixed message")


class CustomStr(Exception):
    """one-str constructor, but str() decorates the message"""

    def __str__(self) -> str:
        return "custom: " + super().__str__()


class Outer:
    class NestedErr(Exception):
        pass


def _raise_and_catch(fn):
    try:
        fn()
    except Exception as e:  # noqa: BLE001
        return e.with_traceback(None)
    raise AssertionError("maker did not raise")


def _http_like(msg):
    raise KwOnly(msg, status=503)


# name -> (maker(message) -> exception instance, uses_message)
# "real" makers obtain the exception the way step code would: by running the failing operation.
EXC_MAKERS = {
    "ValueError": lambda m: ValueError(m),
    "RuntimeError": lambda m: RuntimeError(m),
    "Exception": lambda m: Exception(m),
    "TypeError": lambda m: TypeError(m),
    "TimeoutError": lambda m: TimeoutError(m),
    "OneStr": lambda m: OneStr(m),
    "SubOneStr": lambda m: SubOneStr(m),
    "ValueError_noargs": lambda m: ValueError(),
    "ValueError_int_arg": lambda m: ValueError(42),
    "ValueError_two_args": lambda m: ValueError(m, 7),
    "int_parse": lambda m: _raise_and_catch(lambda: int("x" + m)),
    "zero_div": lambda m: _raise_and_catch(lambda: 1 / 0),
    "index": lambda m: _raise_and_catch(lambda: [][1]),
    "attr": lambda m: _raise_and_catch(lambda: None.nope),  # type: ignore[attr-defined]
    "file_not_found": lambda m: _raise_and_catch(lambda: open("/nonexistent-dir/" + (m or "f").replace("\x00", "").replace("/", "_")[:40])),
    "os_error_2": lambda m: OSError(5, m),
    "key_missing": lambda m: _raise_and_catch(lambda: {}[m]),
    "KeyError_ctor": lambda m: KeyError(m),
    "unicode_decode": lambda m: _raise_and_catch(lambda: b"\xff\xfe".decode("utf-8")),
    "unicode_encode": lambda m: _raise_and_catch(lambda: "\u20ac".encode("ascii")),
    "json_decode": lambda m: _raise_and_catch(lambda: __import__("json").loads("{" + m)),
    "TwoArg": lambda m: TwoArg(404, m),
    "KwOnly": lambda m: _raise_and_catch(lambda: _http_like(m)),
    "NoArg": lambda m: NoArg(),
    "CustomStr": lambda m: CustomStr(m),
    "NestedErr": lambda m: Outer.NestedErr(m),
}
# classes that are module-level importable by `module.Name` (the domain of the verdict); the rest is informational
EXC_NOT_MODULE_LEVEL = {"NestedErr"}
