"""Path / shim bootstrap shared by the orchestrator and the worker processes."""
from __future__ import annotations

import glob
import os
import sys

VERIF = os.path.dirname(os.path.dirname(os.path.abspath(__file__)))
REPO = os.environ.get("VERIF_REPO", "/repo")
SHIMS = os.path.join(VERIF, "shims")
DEPS = os.path.join(VERIF, ".deps")
WHEELS = "/opt/veriftools/wheels"


def repo_src_paths() -> list[str]:
    paths = sorted(glob.glob(os.path.join(REPO, "packages", "*", "src")))
    paths.append(os.path.join(REPO, "src"))
    return paths


def child_pythonpath(shims: bool = True) -> str:
    parts = [VERIF]
    if os.path.isdir(DEPS):
        parts.append(DEPS)
    parts += repo_src_paths()
    if shims:
        parts.append(SHIMS)  # after the repo and site-packages? no: shims only hold absent packages
    return os.pathsep.join(parts)


def setup_worker(vclock: bool, autostub: bool = True) -> None:
    """Called first thing in a worker process (before importing repo code)."""
    import logging

    logging.disable(logging.CRITICAL)
    import warnings

    warnings.simplefilter("ignore")
    if vclock:
        from vf import vclock as _vc

        _vc.install()
    if autostub:
        from vf import autostub as _as

        _as.install()


def scratch_dir() -> str:
    import tempfile

    base = "/dev/shm" if os.path.isdir("/dev/shm") and os.access("/dev/shm", os.W_OK) else None
    return tempfile.mkdtemp(prefix="vf-", dir=base)
