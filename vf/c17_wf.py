"""Workflow used by C17 (module level, real annotations)."""
import asyncio

from workflows import Context, Workflow, step
from workflows.events import Event, StartEvent, StopEvent


class Prog(Event):
    pass


class Streamer(Workflow):
    @step
    async def emit(self, ctx: Context, ev: StartEvent) -> StopEvent:
        texts = ev.get("texts")
        gaps = ev.get("gaps")
        for i, (txt, gap) in enumerate(zip(texts, gaps)):
            ctx.write_event_to_stream(Prog(i=i, txt=txt))
            if gap:
                await asyncio.sleep(gap)
            else:
                await asyncio.sleep(0)
        return StopEvent(result={"n": len(texts)})
