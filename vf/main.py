"""Orchestrator: ./check <ID> <quick|thorough> [--seed N] [--replay PATH] [--jobs N]

Runs under /venv/bin/python with only the standard library.  Shards the work of
vf.checks.<ID> over worker subprocesses, aggregates what the monitors observed,
classifies violations against known_findings.json, writes evidence/<ID>.json.

Exit codes: 0 held on what was observed (KNOWN-FINDING lines allowed),
1 violation (VIOLATION line), 2 inconclusive.
"""
from __future__ import annotations

import argparse
import concurrent.futures
import importlib
import json
import os
import subprocess
import sys
import time

HERE = os.path.dirname(os.path.abspath(__file__))
VERIF = os.path.dirname(HERE)
sys.path.insert(0, VERIF)

from vf import boot  # noqa: E402


def load_known(pid: str) -> list[dict]:
    path = os.path.join(VERIF, "known_findings.json")
    if not os.path.exists(path):
        return []
    with open(path) as f:
        data = json.load(f)
    return [e for e in data.get("findings", []) if e.get("property") == pid]


def sig_matches(entry: dict, sig: dict) -> bool:
    m = entry.get("match", {})
    if not m:
        return False
    return all(sig.get(k) == v for k, v in m.items())


def ensure_deps(mod) -> None:
    """Install optional pure-python deps from the offline wheelhouse into .deps."""
    wanted = getattr(mod, "PIP_DEPS", [])
    if not wanted:
        return
    missing = []
    for name in wanted:
        if not os.path.isdir(os.path.join(boot.DEPS, name)):
            missing.append(name)
    if not missing:
        return
    os.makedirs(boot.DEPS, exist_ok=True)
    subprocess.run(
        ["/venv/bin/pip", "install", "-q", "--no-index", "--find-links", boot.WHEELS,
         "--target", boot.DEPS, *missing],
        stdout=subprocess.DEVNULL, stderr=subprocess.DEVNULL, timeout=300,
    )


def run_worker(mod, cid: str, mode: str, payload: dict, timeout: float) -> dict:
    interp = getattr(mod, "INTERP", "/venv/bin/python")
    env = dict(os.environ)
    env["PYTHONPATH"] = boot.child_pythonpath(shims=getattr(mod, "SHIMS", True))
    env["PYTHONHASHSEED"] = "0"
    env["PYTHONDONTWRITEBYTECODE"] = "1"
    env["VERIF_REPO"] = boot.REPO
    for k, v in getattr(mod, "ENV", {}).items():
        env[k] = v
    try:
        p = subprocess.run(
            [interp, "-B", "-m", "vf.worker", cid, mode],
            input=json.dumps(payload).encode(), stdout=subprocess.PIPE, stderr=subprocess.PIPE,
            env=env, cwd=VERIF, timeout=timeout,
        )
    except subprocess.TimeoutExpired:
        return {"ok": False, "error": f"worker watchdog fired after {timeout}s", "timeout": True}
    out = p.stdout.decode("utf-8", "replace")
    i = out.rfind("@@RESULT@@")
    if i < 0:
        return {"ok": False, "error": f"worker died rc={p.returncode}",
                "trace": p.stderr.decode("utf-8", "replace")[-3000:]}
    try:
        return json.loads(out[i + len("@@RESULT@@"):].strip())
    except Exception as e:  # noqa: BLE001
        return {"ok": False, "error": f"bad worker output: {e}"}


def main() -> int:
    ap = argparse.ArgumentParser()
    ap.add_argument("cid")
    ap.add_argument("tier", nargs="?", default=None)
    ap.add_argument("--seed", type=int, default=None)
    ap.add_argument("--replay", default=None)
    ap.add_argument("--jobs", type=int, default=int(os.environ.get("VERIF_JOBS", "16")))
    ap.add_argument("--no-evidence", action="store_true")
    a = ap.parse_args()
    cid = a.cid
    tier = os.environ.get("VERIF_TIER") or a.tier or "quick"
    if a.tier and not os.environ.get("VERIF_TIER"):
        tier = a.tier
    if tier not in ("quick", "thorough"):
        print(f"unknown tier {tier}")
        return 2
    seed = a.seed if a.seed is not None else int(os.environ.get("VERIF_SEED", "0") or 0)
    mod = importlib.import_module(f"vf.checks.{cid}")
    ensure_deps(mod)
    t0 = time.time()

    if a.replay:
        with open(a.replay) as f:
            rp = json.load(f)
        res = run_worker(mod, cid, "replay", rp, timeout=600)
        if not res.get("ok"):
            print(f"INCONCLUSIVE property={cid} replay failed: {res.get('error')}")
            print(res.get("trace", ""))
            return 2
        viols = res.get("violations", [])
        if viols:
            for v in viols:
                print(f"replayed violation: {v['what']} sig={json.dumps(v['sig'], sort_keys=True)}")
            print(f"VIOLATION property={cid} replay={a.replay}")
            return 1
        print(f"replay of {a.replay}: no violation reproduced")
        return 0

    shards = mod.plan(tier, seed)
    shard_timeout = getattr(mod, "SHARD_TIMEOUT", {"quick": 600, "thorough": 3600})[tier]
    results: list[dict] = []
    with concurrent.futures.ThreadPoolExecutor(max_workers=max(1, a.jobs)) as ex:
        futs = [ex.submit(run_worker, mod, cid, "shard", s, shard_timeout) for s in shards]
        for f in futs:
            results.append(f.result())

    evaluations = 0
    reach: dict[str, int] = {}
    info: dict[str, int] = {}
    sigs: set[str] = set()
    samples: list = []
    viol: dict[str, dict] = {}
    errors: list[str] = []
    inconcl: list[str] = []
    for r in results:
        if not r.get("ok"):
            errors.append(r.get("error", "?") + "\n" + r.get("trace", ""))
            continue
        evaluations += r.get("evaluations", 0)
        for k, v in r.get("reach", {}).items():
            reach[k] = reach.get(k, 0) + v
        for k, v in r.get("info", {}).items():
            info[k] = info.get(k, 0) + v
        sigs.update(r.get("sigs", []))
        for s in r.get("samples", []):
            if len(samples) < 4:
                samples.append(s)
        inconcl += r.get("inconclusive", [])
        for v in r.get("violations", []):
            key = json.dumps(v["sig"], sort_keys=True)
            ent = viol.get(key)
            if ent is None:
                viol[key] = {"sig": v["sig"], "what": v["what"], "count": v["count"], "cases": list(v["cases"])}
            else:
                ent["count"] += v["count"]
                if len(ent["cases"]) < 3:
                    ent["cases"] += v["cases"][: 3 - len(ent["cases"])]

    known = load_known(cid)
    open_known = [e for e in known if e.get("status") == "open"]
    new_viol = []
    known_hits: dict[str, dict] = {}
    for key, v in viol.items():
        ent = next((e for e in open_known if sig_matches(e, v["sig"])), None)
        if ent is not None:
            kh = known_hits.setdefault(ent["id"], {"entry": ent, "count": 0, "example": v})
            kh["count"] += v["count"]
        else:
            new_viol.append(v)

    required = list(getattr(mod, "REQUIRED_REACH", []))
    missing_reach = [r for r in required if reach.get(r, 0) <= 0]

    exit_code = 0
    lines = []
    os.makedirs(os.path.join(VERIF, "replays"), exist_ok=True)
    for kh in known_hits.values():
        e = kh["entry"]
        lines.append(f"KNOWN-FINDING: property={cid} {e['what']} [id={e['id']} seen={kh['count']}]")
    replay_paths = []
    for n, v in enumerate(new_viol):
        path = os.path.join("replays", f"{cid}-{seed}-{n}.json")
        with open(os.path.join(VERIF, path), "w") as f:
            json.dump({"property": cid, "seed": seed, "tier": tier, "sig": v["sig"], "what": v["what"],
                       "count": v["count"], "case": v["cases"][0] if v["cases"] else None,
                       "more_cases": v["cases"][1:]}, f, indent=1, default=repr)
        replay_paths.append(path)
        lines.append(f"violation: {v['what']} sig={json.dumps(v['sig'], sort_keys=True)} count={v['count']}")
        lines.append(f"VIOLATION property={cid} replay={path}")
        exit_code = 1
    if exit_code == 0 and (errors or missing_reach or inconcl):
        exit_code = 2
        if errors:
            lines.append(f"INCONCLUSIVE property={cid} {len(errors)} worker(s) failed: {errors[0][:1500]}")
        if missing_reach:
            lines.append(f"INCONCLUSIVE property={cid} monitors never reached: {missing_reach}")
        if inconcl:
            lines.append(f"INCONCLUSIVE property={cid} {len(inconcl)} inconclusive case(s): {inconcl[0][:500]}")

    wall = time.time() - t0
    level = getattr(mod, "LEVEL", "exploration")
    evidence = {
        "property_id": cid,
        "tier": tier,
        "seed": seed,
        "level": level,
        "coverage": {
            "evaluations": evaluations,
            "distinct_nontrivial": len(sigs),
            "rule": getattr(mod, "RULE", ""),
            "samples": samples,
            "reach": reach,
            "informational": info,
            "shards": len(shards),
            "worker_errors": len(errors),
            "inconclusive_cases": len(inconcl),
            "monitors": {
                "violation_signatures_new": [v["sig"] for v in new_viol],
                "known_findings_seen": {k: v["count"] for k, v in known_hits.items()},
            },
        },
        "assumptions": list(getattr(mod, "ASSUMPTIONS", [])),
        "wall_s": round(wall, 3),
        "violations": sum(v["count"] for v in new_viol),
        "verdict": {0: "held_on_observed", 1: "violated", 2: "inconclusive"}[exit_code],
    }
    if getattr(mod, "EXHAUSTIVE", False):
        evidence["coverage"]["exhaustive"] = True
    if not a.no_evidence:
        os.makedirs(os.path.join(VERIF, "evidence"), exist_ok=True)
        with open(os.path.join(VERIF, "evidence", f"{cid}.json"), "w") as f:
            json.dump(evidence, f, indent=1, default=repr)

    print(f"{cid} {tier} seed={seed}: evaluations={evaluations} distinct_nontrivial={len(sigs)} "
          f"wall={wall:.1f}s reach={json.dumps(reach, sort_keys=True)}")
    if info:
        print(f"  informational={json.dumps(info, sort_keys=True)}")
    for ln in lines:
        print(ln)
    if exit_code == 0:
        print(f"HELD property={cid} on what was observed")
    return exit_code


if __name__ == "__main__":
    sys.exit(main())
