"""Program builder for the C22 check: JSON spec -> real Workflow subclass with Resource(...) parameters.

No `from __future__ import annotations` here: the step decorator resolves annotations against real objects.
Imported lazily by vf/checks/C22.py inside the worker (after the virtual clock is installed).

A program is a resource dependency graph (sync / async factories with virtual latencies, cached or not,
DAG / diamond / genuine cycle) plus 1-2 worker steps (num_workers 2-4) whose parameters are
`Annotated[Obj, Resource(factory, cache=...)]`; a fan step sends items to the worker steps at generated
virtual instants so that several invocations resolve their resources at the same time.
Every factory call and every step body reports to a recorder; nothing is decided here.
"""
import asyncio
import contextvars
import inspect
from typing import Annotated

from workflows import Context, Workflow, step
from workflows.events import Event, StartEvent, StopEvent
from workflows.resource import Resource

from vf import vclock


# the resolution window (set by the probe around the step's resource resolution) the current code runs for; tasks spawned
# inside the resolution (e.g. asyncio.gather over a step's parameters) inherit it, so attribution does not lean on task identity
INV = contextvars.ContextVar("vf_c22_invocation", default=None)


def owner_task():
    w = INV.get()
    return w["task"] if w is not None else asyncio.current_task()


class Item0(Event):
    pass


class Item1(Event):
    pass


class Done(Event):
    pass


ITEMS = [Item0, Item1]


class Obj:
    """What a factory produces.  Identity is what the oracle looks at."""

    __slots__ = ("res", "serial")

    def __init__(self, res, serial):
        self.res = res
        self.serial = serial

    def __repr__(self):
        return f"<{self.res}#{self.serial}>"


class Recorder:
    def __init__(self):
        self.calls = []        # factory calls: dict(res, task, seq, vt0, vt1, deps{param: obj}, obj)
        self.bodies = []       # step bodies : dict(step, task, seq, vt, params{param: obj})
        self.seq = 0
        self.keep = []         # keeps tasks / objects alive so ids are never reused inside a case

    def tick(self):
        self.seq += 1
        return self.seq


async def _lat(lat):
    if lat == "y":
        await asyncio.sleep(0)
    elif lat:
        await asyncio.sleep(lat)


def _make_factory(node, rec):
    name = node["name"]

    fails = {"left": int(node.get("fail_first", 0))}

    def begin(deps):
        t = owner_task()
        rec.keep.append(t)
        if fails["left"] > 0:
            fails["left"] -= 1
            raise RuntimeError(f"factory boom ({name})")
        c = {"res": name, "task": t, "seq": rec.tick(), "vt0": vclock.vnow(), "vt1": None, "deps": dict(deps), "obj": None}
        rec.calls.append(c)
        return c

    def finish(c):
        c["done"] = True
        c["vt1"] = vclock.vnow()
        if node.get("none"):
            # an optional integration that is not configured: the factory's (valid) product is None
            return None
        c["obj"] = Obj(name, len(rec.calls))
        rec.keep.append(c["obj"])
        return c["obj"]

    if node["async"]:
        async def factory(**deps):
            c = begin(deps)
            await _lat(node["lat"])
            return finish(c)
    else:
        def factory(**deps):
            return finish(begin(deps))
    # ResourceManager keys caching and cycle detection on the factory's __qualname__
    factory.__name__ = factory.__qualname__ = "make_" + name
    return factory


def _set_signature(fn, first, deps, ret=None):
    """deps: {param_name: descriptor}.  Gives `fn(**kw)` a real signature + annotations."""
    params = list(first)
    ann = {p.name: p.annotation for p in first}
    for pname, desc in deps.items():
        a = Annotated[Obj, desc]
        params.append(inspect.Parameter(pname, inspect.Parameter.KEYWORD_ONLY, annotation=a))
        ann[pname] = a
    if ret is not None:
        ann["return"] = ret
        fn.__signature__ = inspect.Signature(params, return_annotation=ret)
    else:
        fn.__signature__ = inspect.Signature(params)
    fn.__annotations__ = ann


def build(spec, rec):
    """Return a fresh Workflow subclass for `spec` (all resource descriptors are new objects)."""
    nodes = {n["name"]: n for n in spec["nodes"]}
    factories = {name: _make_factory(n, rec) for name, n in nodes.items()}
    shared = {name: Resource(factories[name], cache=nodes[name]["cache"]) for name in nodes}

    def descriptor(name):
        # either one descriptor object per resource, or a new descriptor at every use site
        # (what writing `Annotated[T, Resource(f)]` at each site does); same factory => same resource name
        if spec.get("fresh_descriptors"):
            return Resource(factories[name], cache=nodes[name]["cache"])
        return shared[name]

    for name, n in nodes.items():
        _set_signature(factories[name], [], {"d_" + d: descriptor(d) for d in n["deps"]})

    total = sum(1 for _ in spec["sends"])
    sends = spec["sends"]

    class W(Workflow):
        @step
        async def coll(self, ctx: Context, ev: Done) -> StopEvent | None:
            got = ctx.collect_events(ev, [Done] * total)
            if got is None:
                return None
            return StopEvent(result=ev.run)

    async def fan(ctx, ev):
        for k, (gap, which) in enumerate(sends):
            await _lat(gap)
            ctx.send_event(ITEMS[which](k=k, run=ev.run))
        return None

    fan_ret = (Item0 | Item1 | None) if len(spec["steps"]) == 2 else (Item0 | None)
    fan.__annotations__ = {"ctx": Context, "ev": StartEvent, "return": fan_ret}
    fan.__signature__ = inspect.Signature(
        [inspect.Parameter("ctx", inspect.Parameter.POSITIONAL_OR_KEYWORD, annotation=Context),
         inspect.Parameter("ev", inspect.Parameter.POSITIONAL_OR_KEYWORD, annotation=StartEvent)],
        return_annotation=fan_ret)
    step(workflow=W)(fan)

    for si, st in enumerate(spec["steps"]):
        def make(si=si, st=st):
            async def work(ev, **kw):
                t = asyncio.current_task()
                rec.keep.append(t)
                rec.bodies.append({"step": st["name"], "task": t, "seq": rec.tick(), "vt": vclock.vnow(),
                                   "run": ev.run, "k": ev.k, "params": dict(kw)})
                await _lat(st["body_lat"])
                return Done(run=ev.run)

            work.__name__ = work.__qualname__ = st["name"]
            first = [inspect.Parameter("ev", inspect.Parameter.POSITIONAL_OR_KEYWORD, annotation=ITEMS[si])]
            _set_signature(work, first, {"p_" + r: descriptor(r) for r in st["params"]}, ret=Done)
            return work

        step(workflow=W, num_workers=st["workers"])(make())
    return W
