"""C20 helper: the documented "Locking the State" pattern run by concurrently executing
steps of a real workflow — on the plain runtime (in-memory store), and on the real
WorkflowServer stack with MemoryWorkflowStore / SqliteWorkflowStore (where every step
invocation gets its state store from `create_state_store`).

Module level so that the workflow/event classes are importable by qualified name.
"""
from __future__ import annotations

import asyncio

from workflows import Context, Workflow, step
from workflows.events import StartEvent, StopEvent

from vf.events import EvA, EvB


TRACE: list = []  # ("call"|"enter"|"leave", i) appended by the step bodies of the current case
OPEN: set = set()
FLAGS = {"contended": False, "overlap": False}


def reset_trace():
    TRACE.clear()
    OPEN.clear()
    FLAGS["contended"] = False
    FLAGS["overlap"] = False


class FanEdit(Workflow):
    """start fans out k EvA; `work` (4 workers) increments state['n'] inside edit_state with a
    virtual sleep in the block; `join` collects k EvB and stops."""

    k = 3
    holds = (0.3, 0.1, 0.2)
    pres = (0, 0, 0)

    @step
    async def start(self, ctx: Context, ev: StartEvent) -> EvA | None:
        for i in range(self.k):
            ctx.send_event(EvA(i=i, hold=self.holds[i], pre=self.pres[i]))
        return None

    @step(num_workers=4)
    async def work(self, ctx: Context, ev: EvA) -> EvB:
        if ev.pre:
            await asyncio.sleep(ev.pre)
        TRACE.append(("call", ev.i))
        if OPEN:
            FLAGS["contended"] = True
        async with ctx.store.edit_state() as s:
            if OPEN:
                FLAGS["overlap"] = True
            OPEN.add(ev.i)
            TRACE.append(("enter", ev.i))
            try:
                n = s.get("n", 0)
                if ev.hold:
                    await asyncio.sleep(ev.hold)
                s["n"] = n + 1
                s["log"] = list(s.get("log", [])) + [ev.i]
            finally:
                OPEN.discard(ev.i)
                TRACE.append(("leave", ev.i))
        return EvB(i=ev.i)

    @step
    async def join(self, ctx: Context, ev: EvB) -> StopEvent | None:
        got = ctx.collect_events(ev, [EvB] * self.k)
        if got is None:
            return None
        st = await ctx.store.get_state()
        return StopEvent(result={"n": st.get("n"), "log": st.get("log")})


def make_wf(k, holds, pres):
    wf = FanEdit(timeout=None)
    wf.k = k
    wf.holds = tuple(holds)
    wf.pres = tuple(pres)
    return wf


async def run_plain(k, holds, pres):
    return await make_wf(k, holds, pres).run()


async def run_served(store, k, holds, pres, handler_id):
    from llama_agents.server import WorkflowServer
    from llama_agents.server._store.abstract_workflow_store import HandlerQuery

    server = WorkflowServer(workflow_store=store)
    wf = make_wf(k, holds, pres)
    server.add_workflow("fan", wf)
    await server.start()
    try:
        await server._service.start_workflow(wf, handler_id, start_event=StartEvent())
        h = None
        for _ in range(400):
            await asyncio.sleep(0.25)
            found = await store.query(HandlerQuery(handler_id_in=[handler_id]))
            if found and found[0].status != "running":
                h = found[0]
                break
        if h is None:
            return {"status": "never_finished"}
        return {"status": h.status, "error": h.error, "result": h.result.result if h.result else None}
    finally:
        await server.stop()
