"""Streaming httpx transport onto an in-process ASGI app (shared by C16 api layer and C17).

Unlike httpx.ASGITransport (which buffers the whole body) the response body is relayed
chunk by chunk through a queue while the ASGI app keeps running in its own task, so
SSE / NDJSON streams can be read incrementally.  Closing the response cancels the app
task (== client disconnect).  A DropPlan can cut the body of "stream" requests after
given byte offsets, raising httpx.ReadError like a broken connection (used by C17).

Trusted base: this file + the starlette shim; no sockets, no threads.
"""
from __future__ import annotations

import asyncio

import httpx


class DropPlan:
    """cuts: list of byte offsets, one per streaming connection (consumed in order),
    at which the body of that connection is cut.  None / exhausted list = no cut."""

    def __init__(self, cuts=()):
        self.cuts = list(cuts)
        self.dropped = 0
        self.conn = -1
        self.cur = None

    def new_connection(self) -> None:
        self.conn += 1
        self.cur = self.cuts.pop(0) if self.cuts else None

    def next_cut(self, sent: int, n: int):
        if self.cur is None:
            return None
        if sent + n > self.cur:
            c = self.cur - sent
            self.cur = None
            return max(c, 0)
        return None


class _Stream(httpx.AsyncByteStream):
    def __init__(self, q: asyncio.Queue, task: asyncio.Task, plan: DropPlan):
        self.q = q
        self.task = task
        self.plan = plan
        self.sent = 0

    async def __aiter__(self):
        try:
            while True:
                item = await self.q.get()
                if item is None:
                    return
                if isinstance(item, BaseException):
                    raise item
                cut = self.plan.next_cut(self.sent, len(item))
                if cut is not None:
                    if cut > 0:
                        yield item[:cut]
                    self.plan.dropped += 1
                    # the two ways a dropped connection surfaces in httpx: TCP reset -> ReadError; peer closes before the
                    # final chunk of a chunked body -> RemoteProtocolError
                    kinds = getattr(self.plan, "kinds", None) or ["reset"]
                    kind = kinds[(self.plan.dropped - 1) % len(kinds)]
                    if kind == "fin":
                        raise httpx.RemoteProtocolError("peer closed connection without sending complete message body (incomplete chunked read)")
                    raise httpx.ReadError("injected drop")
                self.sent += len(item)
                yield item
        finally:
            await self.aclose()

    async def aclose(self) -> None:
        if not self.task.done():
            self.task.cancel()
            try:
                await self.task
            except BaseException:  # noqa: BLE001
                pass


def _default_is_stream(request: httpx.Request) -> bool:
    return request.method == "GET" and request.url.path.startswith("/events/")


class ASGIStreamTransport(httpx.AsyncBaseTransport):
    def __init__(self, app, plan: DropPlan | None = None, is_stream=_default_is_stream):
        self.app = app
        self.plan = plan or DropPlan([])
        self.is_stream = is_stream
        self.requests: list[tuple[str, str, dict]] = []  # (method, url, headers) log for monitors

    async def handle_async_request(self, request: httpx.Request) -> httpx.Response:
        body = await request.aread()
        self.requests.append((request.method, str(request.url), dict(request.headers)))
        if self.is_stream(request) and self.plan.cuts and self.plan.cuts[0] == -1:
            # a cut of -1 means: this connection attempt is refused before any response
            self.plan.cuts.pop(0)
            self.plan.conn += 1
            self.plan.dropped += 1
            self.plan.refused = getattr(self.plan, "refused", 0) + 1
            raise httpx.ConnectError("injected connection refusal")
        scope = {
            "type": "http", "asgi": {"version": "3.0"}, "http_version": "1.1", "method": request.method,
            "headers": [(k.lower(), v) for k, v in request.headers.raw], "scheme": "http",
            "path": request.url.path, "raw_path": request.url.raw_path, "query_string": request.url.query,
            "server": ("testserver", 80), "client": ("127.0.0.1", 1234), "root_path": "",
        }
        q: asyncio.Queue = asyncio.Queue()
        started = asyncio.get_running_loop().create_future()
        sent_body = False

        async def receive():
            nonlocal sent_body
            if not sent_body:
                sent_body = True
                return {"type": "http.request", "body": body, "more_body": False}
            await asyncio.Event().wait()  # never: disconnect is signalled by cancellation

        async def send(msg):
            if msg["type"] == "http.response.start":
                if not started.done():
                    started.set_result((msg["status"], msg.get("headers", [])))
            elif msg["type"] == "http.response.body":
                if msg.get("body"):
                    await q.put(msg["body"])
                if not msg.get("more_body"):
                    await q.put(None)

        async def run():
            try:
                await self.app(scope, receive, send)
            except asyncio.CancelledError:
                raise
            except BaseException as e:  # noqa: BLE001
                if not started.done():
                    started.set_exception(e)
                else:
                    await q.put(httpx.RemoteProtocolError(f"server error: {e!r}"))
            finally:
                await q.put(None)

        task = asyncio.ensure_future(run())
        try:
            status, headers = await started
        except BaseException:
            task.cancel()
            raise
        stream = self.is_stream(request)
        if stream:
            self.plan.new_connection()
        plan = self.plan if stream else DropPlan([])
        return httpx.Response(status, headers=headers, stream=_Stream(q, task, plan))
