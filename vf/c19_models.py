"""Typed state models for C19/C20/C21 (module level so that JsonSerializer can
re-import them by qualified name: ``vf.c19_models.Child``).

All fields have defaults (the documented requirement for typed state) and every
value the checks put into them is type-correct, so pydantic validation on the
SQLite round trip never coerces anything.
"""
from __future__ import annotations

from typing import Any

from pydantic import BaseModel, Field


class Parent(BaseModel):
    count: int = 0
    name: str = "p"
    tags: list[Any] = Field(default_factory=list)
    meta: dict[str, Any] = Field(default_factory=dict)


class Child(Parent):
    extra: int = 7
    notes: dict[str, Any] = Field(default_factory=dict)


PARENT_FIELDS = {"count": "int", "name": "str", "tags": "list", "meta": "dict"}
CHILD_FIELDS = {**PARENT_FIELDS, "extra": "int", "notes": "dict"}


def child_defaults() -> dict:
    return {"count": 0, "name": "p", "tags": [], "meta": {}, "extra": 7, "notes": {}}


def parent_defaults() -> dict:
    return {"count": 0, "name": "p", "tags": [], "meta": {}}


class Unrelated(BaseModel):
    """neither the store's state type nor a parent of it: set_state must reject it"""

    x: int = 0

