"""Worker process entry: python -m vf.worker <ID> <shard|replay>  (JSON on stdin / stdout)."""
from __future__ import annotations

import importlib
import json
import os
import sys
import traceback


def main() -> None:
    cid, mode = sys.argv[1], sys.argv[2]
    payload = json.loads(sys.stdin.read())
    # protect the protocol channel: anything the code under test prints goes to stderr
    out = os.fdopen(os.dup(1), "w")
    os.dup2(2, 1)
    sys.stdout = sys.stderr
    try:
        from vf import boot

        # The check module must not import repo code at module top-level before
        # boot.setup_worker ran; it declares VCLOCK and imports lazily in run_shard.
        mod = importlib.import_module(f"vf.checks.{cid}")
        boot.setup_worker(vclock=getattr(mod, "VCLOCK", False), autostub=getattr(mod, "AUTOSTUB", True))
        if mode == "shard":
            res = mod.run_shard(payload)
        else:
            res = mod.replay(payload)
        res.setdefault("ok", True)
    except BaseException as e:  # noqa: BLE001
        res = {"ok": False, "error": f"{type(e).__name__}: {e}", "trace": traceback.format_exc()[-4000:]}
    out.write("\n@@RESULT@@" + json.dumps(res, default=repr) + "\n")
    out.flush()
    os._exit(0)


if __name__ == "__main__":
    main()
