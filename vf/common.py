"""Accumulator used by every check's run_shard (worker side)."""
from __future__ import annotations

import hashlib
import json
from collections import Counter


def h(obj) -> str:
    """Short stable hash of a JSON-able object (signature of a case/history)."""
    return hashlib.md5(json.dumps(obj, sort_keys=True, default=repr).encode()).hexdigest()[:12]


class Acc:
    """Collects what a shard observed.  to_dict() is the worker's result."""

    def __init__(self, max_witness_per_sig: int = 3, max_samples: int = 3):
        self.evaluations = 0
        self.reach: Counter = Counter()
        self.sigs: set[str] = set()
        self.viol: dict[str, dict] = {}
        self.samples: list = []
        self.info: Counter = Counter()
        self._mw = max_witness_per_sig
        self._ms = max_samples
        self.inconclusive: list[str] = []

    def case(self, n: int = 1) -> None:
        self.evaluations += n

    def hit(self, name: str, n: int = 1) -> None:
        self.reach[name] += n

    def sig(self, obj) -> None:
        """Register a distinct non-trivial case signature."""
        self.sigs.add(obj if isinstance(obj, str) and len(obj) == 12 else h(obj))

    def sample(self, obj) -> None:
        if len(self.samples) < self._ms:
            self.samples.append(obj)

    def violation(self, sig: dict, what: str, case) -> None:
        """sig: small structured signature incl. key 'mech'; case: replayable spec."""
        key = h(sig)
        ent = self.viol.get(key)
        if ent is None:
            ent = self.viol[key] = {"sig": sig, "what": what, "count": 0, "cases": []}
        ent["count"] += 1
        if len(ent["cases"]) < self._mw:
            ent["cases"].append(case)

    def note(self, name: str, n: int = 1) -> None:
        """informational counter (never a verdict)"""
        self.info[name] += n

    def to_dict(self) -> dict:
        return {
            "evaluations": self.evaluations,
            "reach": dict(self.reach),
            "sigs": sorted(self.sigs),
            "violations": list(self.viol.values()),
            "samples": self.samples,
            "info": dict(self.info),
            "inconclusive": self.inconclusive,
        }
