"""Small WGL-style linearizability checker (memoised DFS).  Histories are tiny (<= ~14 ops), partitioned by key
(P-compositionality) by the caller.

op = {"id":…, "call": int, "ret": int, "arg":…, "out":…};  model = (init_state, apply(state, arg) -> (new_state, out))
States must be hashable.  Returns (ok, witness_order | None, explored) ; raises TimeoutError on budget exhaustion.
"""
from __future__ import annotations


def check(ops, init_state, apply, budget=200_000):
    n = len(ops)
    ops = sorted(ops, key=lambda o: o["call"])
    seen = set()
    explored = 0

    def rec(remaining, state, order):
        nonlocal explored
        if not remaining:
            return order
        key = (remaining, state)
        if key in seen:
            return None
        seen.add(key)
        explored += 1
        if explored > budget:
            raise TimeoutError("linearizability search budget exhausted")
        rem = [ops[i] for i in remaining]
        min_ret = min(o["ret"] for o in rem)
        for i in remaining:
            o = ops[i]
            if o["call"] > min_ret:
                continue  # some other pending op returned before this one was called: it must go first
            new_state, out = apply(state, o["arg"])
            if out != o["out"]:
                continue
            r = rec(tuple(j for j in remaining if j != i), new_state, order + [o["id"]])
            if r is not None:
                return r
        return None

    res = rec(tuple(range(n)), init_state, [])
    return (res is not None), res, explored
