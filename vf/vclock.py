"""Virtual-time asyncio event loop (DESIGN §3.2).

`install()` must run before any repo module is imported so that module-level
`time.time` / `time.monotonic` references and default arguments bind to the
patched functions.  `run(coro_fn)` executes one case on a fresh loop and
reports whether the loop became quiescent (no ready callbacks, no timers, no
I/O, no executor work outstanding) before the main task finished.
"""
from __future__ import annotations

import asyncio
import datetime as _dt
import time

_real_time = time.time
_real_mono = time.monotonic
_real_sleep = time.sleep

EPOCH0 = 1_700_000_000.0  # virtual wall clock origin
MONO0 = 5_000.0  # virtual monotonic origin (deliberately != EPOCH0)


class _State:
    vt = 0.0
    installed = False


def vnow() -> float:
    return _State.vt


def vtime() -> float:
    return EPOCH0 + _State.vt


def vmono() -> float:
    return MONO0 + _State.vt


def burn(seconds: float) -> None:
    """Synchronous passage of virtual time: what blocking / CPU-bound code inside a task does to every other task of the loop."""
    if seconds > 0:
        _State.vt += seconds


def install() -> None:
    if _State.installed:
        return
    time.time = vtime
    time.monotonic = vmono
    _State.installed = True


class _VDatetime(_dt.datetime):
    """datetime subclass whose now()/utcnow() read the virtual clock."""

    @classmethod
    def now(cls, tz=None):  # type: ignore[override]
        return cls.fromtimestamp(vtime(), tz)

    @classmethod
    def utcnow(cls):  # type: ignore[override]
        return cls.fromtimestamp(vtime(), _dt.timezone.utc).replace(tzinfo=None)


def patch_datetime(*modules) -> None:
    """Replace the module-level `datetime` class of the given modules."""
    for m in modules:
        if hasattr(m, "datetime") and isinstance(m.datetime, type):
            m.datetime = _VDatetime


class VLoop(asyncio.SelectorEventLoop):
    def __init__(self, vt_limit: float = 1e7, iter_limit: int = 2_000_000):
        super().__init__()
        sel = self._selector
        real_select = sel.select
        loop = self
        self.quiescent = False
        self.livelock = False
        self._exec_pending = 0
        self._iters = 0

        def select(timeout=None):
            loop._iters += 1
            if loop._iters > iter_limit:
                loop.livelock = True
                loop.stop()
                return real_select(0)
            ev = real_select(0)
            if ev or timeout == 0:
                return ev
            if loop._exec_pending > 0:
                # real threads are working: wait for them in real time
                return real_select(0.002)
            if timeout is None:
                loop.quiescent = True
                loop.stop()
                return real_select(0)
            if _State.vt + timeout > vt_limit:
                loop.livelock = True
                loop.stop()
                return real_select(0)
            _State.vt += timeout
            return []

        sel.select = select

    def time(self):
        return vmono()

    def run_in_executor(self, executor, func, *args):
        self._exec_pending += 1
        fut = super().run_in_executor(executor, func, *args)

        def _done(_):
            self._exec_pending -= 1

        fut.add_done_callback(_done)
        return fut


class CaseResult:
    __slots__ = ("task", "quiescent", "livelock", "vt", "leftover")

    def __init__(self, task, quiescent, livelock, vt, leftover):
        self.task = task
        self.quiescent = quiescent
        self.livelock = livelock
        self.vt = vt
        self.leftover = leftover

    @property
    def done(self):
        return self.task.done()

    def result(self):
        return self.task.result()

    def exception(self):
        if not self.task.done() or self.task.cancelled():
            return None
        return self.task.exception()


def run(coro_fn, vt_limit: float = 1e7, reset: bool = True) -> CaseResult:
    """Run `coro_fn()` to completion or quiescence on a fresh virtual loop."""
    if reset:
        _State.vt = 0.0
    loop = VLoop(vt_limit=vt_limit)
    asyncio.set_event_loop(loop)
    try:
        t = loop.create_task(coro_fn())
        t.add_done_callback(lambda _: loop.stop())
        loop.run_forever()
        quiescent = loop.quiescent and not t.done()
        livelock = loop.livelock and not t.done()
        vt = _State.vt
        leftover = 0
        for _ in range(5):
            pending = [x for x in asyncio.all_tasks(loop) if not x.done()]
            if not pending:
                break
            leftover = max(leftover, len(pending))
            for x in pending:
                x.cancel()
            loop.quiescent = False
            loop.livelock = False
            loop._iters = 0
            try:
                loop.run_until_complete(asyncio.gather(*pending, return_exceptions=True))
            except BaseException:
                pass
        # retrieve exceptions to silence "never retrieved" noise
        for x in asyncio.all_tasks(loop):
            if x.done() and not x.cancelled():
                x.exception()
        return CaseResult(t, quiescent, livelock, vt, leftover)
    finally:
        try:
            loop.run_until_complete(loop.shutdown_asyncgens())
        except BaseException:
            pass
        try:
            loop.close()
        except BaseException:
            pass
        asyncio.set_event_loop(None)
