import json
class Response:
    media_type = None
    def __init__(self, content=b"", status_code=200, headers=None, media_type=None):
        self.status_code = status_code; self.media_type = media_type or self.media_type
        self.body = self.render(content); self.headers = dict(headers or {})
    def render(self, content):
        if content is None: return b""
        return content if isinstance(content, bytes) else str(content).encode()
    def _raw_headers(self, extra=()):
        h = [(k.lower().encode(), str(v).encode()) for k, v in self.headers.items()]
        if self.media_type: h.append((b"content-type", self.media_type.encode()))
        return h + list(extra)
    async def __call__(self, scope, receive, send):
        await send({"type": "http.response.start", "status": self.status_code,
                    "headers": self._raw_headers([(b"content-length", str(len(self.body)).encode())])})
        await send({"type": "http.response.body", "body": self.body})
class JSONResponse(Response):
    media_type = "application/json"
    def render(self, content): return json.dumps(content, ensure_ascii=False, allow_nan=False, separators=(",", ":")).encode("utf-8")
class StreamingResponse(Response):
    def __init__(self, content, status_code=200, headers=None, media_type=None):
        self.body_iterator = content; self.status_code = status_code
        self.media_type = media_type; self.headers = dict(headers or {})
    async def __call__(self, scope, receive, send):
        await send({"type": "http.response.start", "status": self.status_code, "headers": self._raw_headers()})
        try:
            async for chunk in self.body_iterator:
                if not isinstance(chunk, bytes): chunk = chunk.encode("utf-8")
                await send({"type": "http.response.body", "body": chunk, "more_body": True})
            await send({"type": "http.response.body", "body": b"", "more_body": False})
        finally:
            aclose = getattr(self.body_iterator, "aclose", None)
            if aclose: await aclose()
