class CORSMiddleware:
    def __init__(self, app, **kwargs): self.app = app
    async def __call__(self, scope, receive, send): await self.app(scope, receive, send)
