class Middleware:
    def __init__(self, cls, *args, **kwargs):
        self.cls = cls; self.args = args; self.kwargs = kwargs
