class SchemaGenerator:
    def __init__(self, base_schema): self.base_schema = base_schema
    def get_schema(self, routes): return dict(self.base_schema)
