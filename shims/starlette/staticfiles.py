class StaticFiles:
    def __init__(self, *a, **k): pass
