from .exceptions import HTTPException
from .requests import Request
from .responses import JSONResponse
class Starlette:
    def __init__(self, debug=False, routes=None, middleware=None, exception_handlers=None, lifespan=None, **kw):
        self.routes = list(routes or []); self.user_middleware = list(middleware or [])
        self.exception_handlers = dict(exception_handlers or {}); self.lifespan = lifespan
        self.mounts = []
    def mount(self, path, app=None, name=None): self.mounts.append((path, app, name))
    async def _handle(self, scope, receive, send):
        path = scope["path"]; method = scope["method"]
        request = None
        try:
            for r in self.routes:
                params = r.match(path)
                if params is not None and method in r.methods:
                    scope = dict(scope); scope["path_params"] = params
                    request = Request(scope, receive)
                    response = await r.endpoint(request)
                    break
            else:
                raise HTTPException(status_code=404, detail="Not Found")
        except Exception as exc:
            request = request or Request(scope, receive)
            handler = None
            for cls in type(exc).__mro__:
                if cls in self.exception_handlers: handler = self.exception_handlers[cls]; break
            if handler is None: raise
            response = await handler(request, exc)
        await response(scope, receive, send)
    async def __call__(self, scope, receive, send):
        if scope["type"] != "http": return
        app = self._handle
        for mw in reversed(self.user_middleware):
            app = mw.cls(app, *mw.args, **mw.kwargs)
        await app(scope, receive, send)
