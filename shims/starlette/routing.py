import re
class Route:
    def __init__(self, path, endpoint, methods=None, name=None, **kw):
        self.path = path; self.endpoint = endpoint; self.methods = set(methods or ["GET"]); self.name = name
        pat = re.sub(r"\{([a-zA-Z_][a-zA-Z0-9_]*)\}", r"(?P<\1>[^/]+)", path)
        self._re = re.compile("^" + pat + "$")
    def match(self, path): 
        m = self._re.match(path)
        return m.groupdict() if m else None
