class HTTPException(Exception):
    def __init__(self, status_code=500, detail=None, headers=None):
        self.status_code = status_code; self.detail = detail; self.headers = headers
        super().__init__(detail)
