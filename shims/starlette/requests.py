import json
from urllib.parse import parse_qsl
class _URL:
    def __init__(self, path): self.path = path
class _Multi:
    def __init__(self, pairs): self._pairs = list(pairs)
    def get(self, key, default=None):
        for k, v in self._pairs:
            if k == key: return v
        return default
    def getlist(self, key): return [v for k, v in self._pairs if k == key]
    def __contains__(self, key): return any(k == key for k, _ in self._pairs)
class _Headers:
    def __init__(self, raw): self._d = {k.decode("latin-1").lower(): v.decode("latin-1") for k, v in raw}
    def get(self, key, default=None): return self._d.get(key.lower(), default)
class Request:
    def __init__(self, scope, receive=None):
        self.scope = scope; self._receive = receive
        self.method = scope["method"]; self.url = _URL(scope["path"])
        self.path_params = scope.get("path_params", {})
        self.query_params = _Multi(parse_qsl(scope.get("query_string", b"").decode("latin-1"), keep_blank_values=True))
        self.headers = _Headers(scope.get("headers", []))
        self._body = None
    async def body(self):
        if self._body is None:
            chunks = []
            while True:
                msg = await self._receive()
                chunks.append(msg.get("body", b""))
                if not msg.get("more_body"): break
            self._body = b"".join(chunks)
        return self._body
    async def json(self): return json.loads(await self.body())
