import asyncio, functools, inspect
from contextlib import contextmanager
from contextvars import ContextVar
active_instrument_tags: ContextVar = ContextVar("instrument_tags", default={})
@contextmanager
def instrument_tags(new_tags):
    token = active_instrument_tags.set(new_tags)
    try:
        yield
    finally:
        active_instrument_tags.reset(token)
class Dispatcher:
    def __init__(self, name="root"):
        self.name = name
    def event(self, event, **kwargs): pass
    def span_enter(self, *a, **k): pass
    def span_exit(self, *a, **k): pass
    def span_drop(self, *a, **k): pass
    def capture_propagation_context(self):
        return {"instrument_tags": dict(active_instrument_tags.get())}
    def restore_propagation_context(self, ctx):
        tags = (ctx or {}).get("instrument_tags")
        if tags:
            active_instrument_tags.set(dict(tags))
    def span(self, func):
        if inspect.iscoroutinefunction(func):
            @functools.wraps(func)
            async def aw(*a, **k):
                return await func(*a, **k)
            return aw
        @functools.wraps(func)
        def w(*a, **k):
            return func(*a, **k)
        return w
_root = Dispatcher()
def get_dispatcher(name="root"):
    return Dispatcher(name)
