from pydantic import BaseModel, ConfigDict
class BaseEvent(BaseModel):
    model_config = ConfigDict(arbitrary_types_allowed=True)
    @classmethod
    def class_name(cls) -> str:
        return "BaseEvent"
