from .dispatcher import Dispatcher, get_dispatcher
__all__ = ["get_dispatcher", "Dispatcher"]
