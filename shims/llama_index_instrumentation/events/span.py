from ..base import BaseEvent
class SpanDropEvent(BaseEvent):
    err_str: str = ""
    span_id: str | None = None
    @classmethod
    def class_name(cls) -> str:
        return "SpanDropEvent"
