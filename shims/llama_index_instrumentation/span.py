from contextvars import ContextVar
active_span_id: ContextVar = ContextVar("active_span_id", default=None)
