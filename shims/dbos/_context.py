class _Ctx:
    function_id = 0
_ctx = _Ctx()
def get_local_dbos_context(): return _ctx
