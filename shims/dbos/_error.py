class DBOSNonExistentWorkflowError(Exception): pass
