class _Handle:
    async def get_result(self): return None
class DBOS:
    workflow_id = None
    @staticmethod
    def step(*a, **k):
        def deco(f): return f
        return deco
    @staticmethod
    def workflow(*a, **k):
        def deco(f): return f
        return deco
    @staticmethod
    async def retrieve_workflow_async(run_id): raise RuntimeError("dbos stub: no such workflow")
    @staticmethod
    async def delete_workflow_async(run_id): return None
    @staticmethod
    def launch(): pass
    @staticmethod
    def destroy(*a, **k): pass
class SetWorkflowID:
    def __init__(self, *a, **k): pass
    def __enter__(self): return self
    def __exit__(self, *a): return False
class WorkflowHandleAsync:
    def __class_getitem__(cls, k): return cls
