def _get_dbos_instance(): raise RuntimeError("dbos stub")
