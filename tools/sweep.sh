#!/bin/sh
# sweep registered checks over several seeds (quick tier); prints one line per run. usage: tools/sweep.sh "1 2 3" [ids...]
SEEDS="${1:-1 2 3}"; shift
IDS="${*:-$(grep -v '^#' vf/registered.txt)}"
for id in $IDS; do for s in $SEEDS; do
  out=$(VERIF_SEED=$s ./check $id quick --no-evidence 2>&1); rc=$?
  echo "$id seed=$s rc=$rc $(echo "$out" | grep -c '^VIOLATION') viol $(echo "$out" | grep '^violation' | head -2 | cut -c1-200 | tr '\n' ' ')"
done; done
