"""pytest plugin (-p astub_plugin): fabricate absent third-party packages so the repository's own server / dbos tests can be collected."""
import os
import sys

sys.path.insert(0, os.path.join(os.path.dirname(os.path.dirname(os.path.dirname(os.path.abspath(__file__)))), "vf"))
import autostub  # noqa: E402

autostub.STUB_TOPS.update({"testcontainers", "docker", "httpx_sse", "respx", "time_machine"})
autostub.install()
