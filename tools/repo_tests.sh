#!/bin/sh
# Secondary regression signal for fix: commits — the repo's own (unpinned) engine unit tests run with the /verif shims.
# usage: tools/repo_tests.sh [repo-root]
R="${1:-/repo}"
cd "$R/packages/llama-index-workflows" && PYTHONPATH=/verif/shims:src timeout 1500 /venv/bin/python -m pytest -q -p no:cacheprovider tests \
  --ignore=tests/test_retry_tenacity_conformance.py --ignore=tests/runtime --ignore=tests/test_handler.py --ignore=tests/test_spans.py -n 8 2>&1 | tail -8
