#!/bin/sh
# run every registered check's thorough tier once; one line per check
for id in $(grep -v '^#' vf/registered.txt); do
  s=$(date +%s); out=$(./check $id thorough --no-evidence 2>&1); rc=$?; e=$(date +%s)
  echo "$id thorough rc=$rc wall=$((e-s))s $(echo "$out" | grep '^violation\|^INCONCLUSIVE' | head -3 | cut -c1-250 | tr '\n' ' ')"
done
