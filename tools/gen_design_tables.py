"""Regenerate the generated block of DESIGN.md (fix / finding / seeded-change tables) from known_findings.json and seeded/*/meta.json."""
import glob
import json
import os
import re
import subprocess

V = os.path.dirname(os.path.dirname(os.path.abspath(__file__)))
kf = json.load(open(os.path.join(V, "known_findings.json")))["findings"]
lines = []
lines.append("### 11.1 Genuine defects repaired in /repo (one unguarded `fix:` commit each)\n")
lines.append("| property | commit | what failed on the unchanged tree |")
lines.append("|---|---|---|")
for f in kf:
    if f["status"] == "fixed":
        lines.append(f"| {f['property']} | `{f['commit']}` | {f['what']} |")
lines.append("\n### 11.2 Genuine defects recorded as known findings (open)\n")
lines.append("| property | id | mechanism signature matched | what fails | why not repaired here |")
lines.append("|---|---|---|---|---|")
for f in kf:
    if f["status"] == "open":
        lines.append(f"| {f['property']} | {f['id']} | `{json.dumps(f['match'], sort_keys=True)}` | {f['what']} | {f.get('why_not_fixed','')} |")
lines.append("\n### 11.3 Seeded changes (written by independent sub-agents from the property text only) and the checks that catch them\n")
lines.append("| seed | property | caught by (quick tier, `VERIF_REPO=<worktree>`) | demo with / without | note |")
lines.append("|---|---|---|---|---|")
for m in sorted(glob.glob(os.path.join(V, "seeded", "*", "meta.json"))):
    d = json.load(open(m))
    notes = ""
    np_ = os.path.join(os.path.dirname(m), "notes.txt")
    caught = []
    for part in re.findall(r"(C\d+):rc=(\d)\[(.*?)\](?= C\d+:rc=|$)", d["checks_run"]):
        cid, rc, sig = part
        mechs = sorted(set(re.findall(r'"mech": "([^"]+)"', sig)))
        caught.append(f"{cid} rc={rc}" + (f" ({', '.join(mechs[:3])})" if mechs else ""))
    lines.append(f"| {d['name']} | {d['property']} | {'; '.join(caught)} | {d['demo_exit_with_change']} / {d['demo_exit_without_change']} | {d.get('note','')} |")
block = "\n".join(lines) + "\n"
p = os.path.join(V, "DESIGN.md")
s = open(p).read()
a, b = "<!-- GENERATED:BEGIN -->", "<!-- GENERATED:END -->"
if a in s:
    s = s[: s.index(a) + len(a)] + "\n" + block + s[s.index(b):]
else:
    s += f"\n{a}\n{block}{b}\n"
open(p, "w").write(s)
print("tables regenerated:", sum(1 for f in kf if f['status']=='fixed'), "fixed,", sum(1 for f in kf if f['status']=='open'), "open,", len(glob.glob(os.path.join(V, 'seeded', '*', 'meta.json'))), "seeds")
