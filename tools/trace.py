"""Debug helper: print the merged timeline of a replay file.  usage: tools/trace.py replays/X.json [maxlines]"""
import json
import os
import subprocess
import sys

VERIF = os.path.dirname(os.path.dirname(os.path.abspath(__file__)))
if os.environ.get("_VF_CHILD") != "1":
    sys.path.insert(0, VERIF)
    from vf import boot

    env = dict(os.environ, _VF_CHILD="1", PYTHONPATH=boot.child_pythonpath(), PYTHONHASHSEED="0")
    sys.exit(subprocess.call(["/venv/bin/python", "-B", __file__, *sys.argv[1:]], env=env))

from vf import boot

boot.setup_worker(vclock=True)
from vf import engine_run

r = json.load(open(sys.argv[1]))
c = r["case"]
case = c["case"]
spec = case["spec"]
print("SIG", r["sig"], "|", r["what"])
print("SPEC", json.dumps({k: v for k, v in spec.items() if k != "steps"}))
for s in spec["steps"]:
    print("  STEP", json.dumps(s))
if c.get("phase") == "resumed" or "snap" in case:
    from workflows import Context

    snap = case["snap"]
    print("SNAP workers", json.dumps(snap["workers"])[:3000])
    tr = engine_run.run_case(spec, ctx_factory=lambda w: Context.from_dict(w, json.loads(json.dumps(snap))), start=False)
else:
    tr = engine_run.run_case(spec)
print("outcome", tr.outcome, "quiescent", tr.quiescent, "consumer_done", tr.consumer_done, "vt", tr.vt_end, "errors", tr.errors)
evs = []
for p in tr.pubs:
    evs.append((p["n"], p["t"], "PUB", p["etype"], p.get("ssc") or p.get("unhandled") or p.get("uid"), ""))
for x in tr.rec.log:
    evs.append((x["n"], x["t"], x["k"], x.get("step"), x.get("uid"), {k: v for k, v in x.items() if k in ("how", "type", "wid", "got_uid", "att", "target", "got", "fields")}))
for t in tr.ticks:
    evs.append((t["n"], t["t"], "TICK", t["tick"], (t.get("step"), t.get("wid"), t.get("uid"), t.get("waiter_id")), {"cmds": t["cmds"]}))
evs.sort(key=lambda e: e[0])
mx = int(sys.argv[2]) if len(sys.argv) > 2 else 200
for e in evs[:mx]:
    print(*e)
