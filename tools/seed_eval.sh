#!/bin/sh
# usage: tools/seed_eval.sh <PROP_ID> <seed-dir-name> [check ids...]
# Confirms a seeded change (demo fails with / passes without, pinned suite passes with), runs the given checks against it,
# stores patch.diff / demo / meta.json under /verif/seeded/<name>/.
P="$1"; NAME="$2"; shift 2; CHECKS="${*:-$P}"
WT="/tmp/$NAME"; OUT="/verif/seeded/$NAME"; mkdir -p "$OUT"
PP="/tmp/seedenv/shims:$(cd $WT && ls -d packages/*/src | sed "s#^#$WT/#" | tr '\n' ':')$WT/src"
cd "$WT" || exit 2
DEMO=demo.py; [ -f demo.py ] || DEMO=$(ls test_demo*.py demo*.py 2>/dev/null | head -1)
# bring the worktree to /repo's current HEAD first (fix commits made since the seed was written), then apply the seed
HEAD=$(git -C /repo rev-parse HEAD)
if [ "$(git -C "$WT" rev-parse HEAD)" != "$HEAD" ]; then
  git -C "$WT" diff --quiet || git -C "$WT" apply -R patch.diff
  git -C "$WT" checkout -q --detach "$HEAD" || { echo "$NAME cannot move worktree to $HEAD"; exit 2; }
fi
if git -C "$WT" diff --quiet; then git -C "$WT" apply patch.diff || { echo "$NAME patch does not apply on current HEAD $HEAD"; exit 3; }; fi
( cd "$WT" && PYTHONPATH="$PP" timeout 600 /venv/bin/python $DEMO >/tmp/$NAME.with.log 2>&1 ); WITH=$?
git -C "$WT" apply -R patch.diff
( cd "$WT" && PYTHONPATH="$PP" timeout 600 /venv/bin/python $DEMO >/tmp/$NAME.without.log 2>&1 ); WITHOUT=$?
git -C "$WT" apply patch.diff
PIN=$( cd "$WT" && /venv/bin/python -m pytest -q -p no:cacheprovider --timeout=900 2>&1 | tail -1 )
cp "$WT/patch.diff" "$WT/$DEMO" "$OUT/" 2>/dev/null; cp "$WT/notes.txt" "$OUT/" 2>/dev/null
RES=""
for c in $CHECKS; do
  ( cd /verif && VERIF_REPO="$WT" ./check $c quick --no-evidence > /tmp/$NAME.$c.log 2>&1 ); rc=$?
  sig=$(grep -m3 "^violation:" /tmp/$NAME.$c.log | sed 's/.*sig=//' | cut -c1-160 | tr '\n' ' ')
  RES="$RES $c:rc=$rc[$sig]"
done
echo "$NAME demo_with=$WITH demo_without=$WITHOUT pinned='$PIN' checks:$RES"
python3 - "$P" "$NAME" "$WITH" "$WITHOUT" "$PIN" "$RES" <<'PY'
import json,sys
p,name,w,wo,pin,res=sys.argv[1:7]
json.dump({"property":p,"name":name,"demo_exit_with_change":int(w),"demo_exit_without_change":int(wo),"pinned_suite_with_change":pin,
           "checks_run":res.strip(),"ran":"tools/seed_eval.sh (demo with/without, pinned suite, quick checks with VERIF_REPO=<worktree>)"},
          open(f"/verif/seeded/{name}/meta.json","w"),indent=1)
PY
