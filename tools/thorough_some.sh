#!/bin/sh
# run the thorough tier of the given checks once; one line per check.  usage: tools/thorough_some.sh C01 C02 ...
for id in "$@"; do
  s=$(date +%s); out=$(./check $id thorough --no-evidence 2>&1); rc=$?; e=$(date +%s)
  echo "$id thorough rc=$rc wall=$((e-s))s $(echo "$out" | grep '^violation\|^INCONCLUSIVE' | head -3 | cut -c1-250 | tr '\n' ' ')"
done
