#!/bin/sh
# The repository's own llama-agents-server and llama-agents-dbos unit tests that can be collected here (absent packages fabricated
# by vf/autostub.py, shims for starlette / dbos / instrumentation).  Run after every fix that touches those packages.
# usage: tools/repo_server_tests.sh [repo-dir]
R="${1:-/repo}"; V="$(cd "$(dirname "$0")/.." && pwd)"
PP="$V/tools/astub:$V/shims:$(ls -d $R/packages/*/src | tr '\n' ':')"
( cd "$R/packages/llama-agents-server" && PYTHONPATH="$PP" timeout 1800 /venv/bin/python -m pytest -q -p no:cacheprovider -p astub_plugin -n 4 \
    tests/server/test_durable_runtime.py tests/server/test_server_runtime.py tests/server/test_keyed_lock.py tests/server/test_memory_workflow_store.py \
    tests/server/test_workflow_service.py tests/server/test_runtime_decorators.py tests/server/test_sqlite_workflow_store.py tests/server/test_sqlite_state_store.py \
    tests/server/test_workflow_store_events.py tests/server/test_event_interceptor.py tests/server/test_migrations.py tests/server/test_lru_cache.py \
    tests/server/test_handler_serialization.py tests/server/test_persistent_handler_serialization.py 2>&1 | tail -3 )
( cd "$R/packages/llama-agents-dbos" && PYTHONPATH="$PP" timeout 1800 /venv/bin/python -m pytest -q -p no:cacheprovider --noconftest -p astub_plugin -n 4 \
    tests/test_dbos_idle_release.py 2>&1 | tail -2 )
