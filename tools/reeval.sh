#!/bin/sh
# re-run a check against already recorded seeds (regression of the checks themselves). usage: tools/reeval.sh <CHECK> <seed-dir-name>...
C="$1"; shift
for name in "$@"; do
  WT=/tmp/reeval-$name
  git -C /repo worktree add -q --detach "$WT" HEAD 2>/dev/null || { echo "$name: cannot add worktree"; continue; }
  if git -C "$WT" apply "/verif/seeded/$name/patch.diff" 2>/dev/null; then
    out=$(cd /verif && VERIF_REPO="$WT" ./check $C quick --no-evidence 2>&1); rc=$?
    echo "$name $C rc=$rc $(echo "$out" | grep -m2 '^violation' | sed 's/.*sig=//' | cut -c1-120 | tr '\n' ' ')"
  else
    echo "$name: patch no longer applies on HEAD (superseded / conflicts with a later fix)"
  fi
  git -C /repo worktree remove --force "$WT"
done
